------------------------------ MODULE T_Pools ------------------------------
(***************************************************************************)
(* Trace monitor (binding T / E) for executions of the pools, zero-copy    *)
(* views and streaming helpers recorded by harness/src/bin/drv_pools.rs.   *)
(*                                                                         *)
(* TInit/TNext - sequential monitor, total: every event is consumed.  A    *)
(*   run starts with {"op":"new","kind":K,...}; K selects the judge.  Per  *)
(*   event a judge returns the next reference state (a function of the     *)
(*   recorded inputs and results only) and a SET of classes: "ok", a       *)
(*   finding id (precise guard, usable only if listed in KnownDeviations)  *)
(*   or "bad" (VIOLATION).  Single-line runs {"op":"hammer"|"cintern"}     *)
(*   (concurrent executions summarised at quiescence) are judged in place. *)
(* LInit/LNext - linearizability search (as T_Lin, C11) over lines         *)
(*   {"op":"crun","ops":[...]}: every line is an independent initial       *)
(*   state; LINOK is printed for a run when all its operations have been   *)
(*   placed consistently with real-time order (Lin!Eligible's rule) and    *)
(*   the sequential pool specification of Pools.tla PART P.                *)
(***************************************************************************)
EXTENDS Pools, TLC, Json, IOUtils

CONSTANT KnownDeviations
Rec == ndJsonDeserialize(IOEnv.TRACE)

VARIABLES l, run, st, seq, viol, nviol, devs,     \* sequential monitor
          rn, done, m, flag, relax                 \* linearizability search

RECURSIVE SetToSeqT(_)
SetToSeqT(S) == IF S = {} THEN <<>> ELSE LET x == CHOOSE y \in S : TRUE IN <<x>> \o SetToSeqT(S \ {x})
Norm(c) == IF c \in {"ok", "bad"} \/ c \in KnownDeviations THEN c ELSE "bad"
IsOkU(r0) == HasF(r0, "ok") /\ r0.ok
SlotOf(sl, s) == IF s \in DOMAIN sl THEN sl[s] ELSE Held0
BooksSeen(e) == ~HasF(e, "obs_err")

\* ---- helpers shared by the buffer-pool judges -------------------------------------------
FillCls(sl, e) == Cls(e.s \in DOMAIN sl /\ HasF(e.res, "len") /\ e.res.len = sl[e.s].len + e.m /\ e.res.cap >= e.res.len)
FillR(sl, e)   == IF e.s \in DOMAIN sl THEN FnWith(sl, e.s, Filled(e.s, sl[e.s], e.m)) ELSE sl
HeldListOk(sl, r0) ==
  /\ HasF(r0, "held") /\ Len(r0.held) = Cardinality(DOMAIN sl)
  /\ \A i \in 1..Len(r0.held) : r0.held[i].s \in DOMAIN sl /\ HeldOk(sl[r0.held[i].s], r0.held[i])
RetCls(sl, e) == Cls(e.s \in DOMAIN sl /\ HasF(e.res, "cap") /\ HeldOk(sl[e.s], e.res))
CapOf(e) == IF HasF(e.res, "cap") THEN e.res.cap ELSE 0

(***************************************************************************)
(* NgdpMemoryPool                                                          *)
(***************************************************************************)
JN0 == [p |-> N0, sl |-> EmptyFn]
JudgeNgdp(s0, e) ==
  LET p == s0.p sl == s0.sl
      x == CASE e.op = "alloc" ->
                  IF IsPanicP(e.res) THEN OutP(s0, {"bad"})
                  ELSE OutP([p |-> NAllocR(p, e.n, CapOf(e)), sl |-> FnWith(sl, e.s, Held0)],
                            {Cls(GrantOk(e.n, e.res)), Cls(NReuse(p, e.n) \/ (GrantOk(e.n, e.res) => FreshOk(e.n, e.res)))})
             [] e.op = "allocb" ->
                  OutP([s0 EXCEPT !.p = NAllocR(p, e.n, 67108864)], {Cls(~IsPanicP(e.res) /\ HasF(e.res, "len"))})
             [] e.op = "fill"  -> OutP([s0 EXCEPT !.sl = FillR(sl, e)], {FillCls(sl, e)})
             [] e.op = "free"  -> OutP([p |-> NFreeR(p, CapOf(e)), sl |-> FnWithout(sl, e.s)], {RetCls(sl, e)})
             [] e.op = "foreign" -> OutP([s0 EXCEPT !.p = NFreeR(p, CapOf(e))], {Cls(HasF(e.res, "cap") /\ e.res.cap >= e.c)})
             [] e.op = "warm"  -> OutP([s0 EXCEPT !.p = NWarmR(p)], {Cls(IsOkU(e.res))})
             [] e.op = "clear" -> OutP([s0 EXCEPT !.p = NClearR(p)], {Cls(IsOkU(e.res))})
             [] e.op = "check" -> OutP(s0, {Cls(HeldListOk(sl, e.res))})
             [] OTHER -> OutP(s0, {"bad"})
  IN OutP(x.st, x.cls \cup {Cls(BooksSeen(e) /\ NBooksOk(x.st.p, e))})

(***************************************************************************)
(* thread-local pool (pool.rs), ByteBufferPool (optimized.rs),             *)
(* ZeroCopyBufferPool (zerocopy.rs)                                        *)
(* FX06a  a get that is served by a pooled buffer smaller than the request *)
(*        hands it out with a capacity below the request (clear() then     *)
(*        reserve(n - capacity)).  Guard: the get is a pool hit, the       *)
(*        buffer the pool hands out next has capacity c0 < n, and the      *)
(*        answer is an empty buffer with max(c0, n - c0) <= capacity < n.  *)
(***************************************************************************)
JB0(b) == [b |-> b, sl |-> EmptyFn]
JudgeBag(s0, e, Hit(_, _), Top(_, _), TakeR(_, _), GiveR(_, _), empty) ==
  LET b == s0.b sl == s0.sl IN
  CASE e.op \in {"alloc", "get"} ->
         LET hit == Hit(b, e.n) IN
         OutP([b |-> TakeR(b, e.n), sl |-> IF IsPanicP(e.res) THEN sl ELSE FnWith(sl, e.s, Held0)],
              {GrantCls(e.n, hit, IF hit THEN Top(b, e.n) ELSE 0, e.res)})
    [] e.op = "fill"  -> OutP([s0 EXCEPT !.sl = FillR(sl, e)], {FillCls(sl, e)})
    [] e.op \in {"free", "ret"} -> OutP([b |-> GiveR(b, CapOf(e)), sl |-> FnWithout(sl, e.s)], {RetCls(sl, e)})
    [] e.op = "into"  -> OutP(s0, {RetCls(sl, e)})
    [] e.op = "foreign" -> OutP([s0 EXCEPT !.b = GiveR(b, CapOf(e))], {Cls(HasF(e.res, "cap") /\ e.res.cap >= e.c)})
    [] e.op = "clear" -> OutP([s0 EXCEPT !.b = empty], {Cls(IsOkU(e.res))})
    [] e.op = "check" -> OutP(s0, {Cls(HeldListOk(sl, e.res))})
    [] OTHER -> OutP(s0, {"bad"})
JudgeTl(s0, e)  == JudgeBag(s0, e, TlHit, TlTop, TlAllocR, TlFreeR, TL0)
JudgeBbp(s0, e) == JudgeBag(s0, e, BbHit, BbTop, BbGetR, BbRetR, BB0)
JudgeZcp(s0, e) ==
  LET x == IF e.op = "clear" THEN OutP([s0 EXCEPT !.b = ZpClearR(s0.b)], {Cls(IsOkU(e.res))})
           ELSE JudgeBag(s0, e, ZpHit, ZpTop, ZpGetR, ZpRetR, ZP0)
  IN OutP(x.st, x.cls \cup {Cls(BooksSeen(e) /\ ZpBooksOk(x.st.b, e))})

(***************************************************************************)
(* SizedMemoryPool                                                         *)
(* FX06b  deallocate() guesses the content type from the buffer's size     *)
(*        class and takes the first type of that class: a buffer of Root / *)
(*        Install / Blte / Generic goes to the pool of Archive / Download  *)
(*        and is never reused by its own type.  Guard: an allocation that  *)
(*        must be a reuse (P3b) is counted as a miss and its type is not   *)
(*        the first content type of its size class.                        *)
(***************************************************************************)
JS0 == [z |-> SZ0, sl |-> EmptyFn, own |-> EmptyFn]
JudgeSized(s0, e) ==
  LET z == s0.z sl == s0.sl
      same == BooksSeen(e) /\ HasF(e, "st") /\ e.st = z.pst
  IN
  CASE e.op = "alloc" ->
         IF IsPanicP(e.res) \/ HasF(e.res, "err") THEN OutP(s0, {"bad"})
         ELSE LET j == SzAlloc(z, e.t, e.n, e) IN
              OutP([z |-> j.st, sl |-> FnWith(sl, e.s, Held0), own |-> FnWith(s0.own, e.s, e.t)],
                   j.cls \cup {Cls(GrantOk(e.n, e.res)), Cls(BooksSeen(e))})
    [] e.op = "fill" -> OutP([s0 EXCEPT !.sl = FillR(sl, e)], {FillCls(sl, e), Cls(same)})
    [] e.op = "free" ->
         LET t == IF e.s \in DOMAIN s0.own THEN s0.own[e.s] ELSE "none"
             z1 == SzFree(z, t, CapOf(e)) IN
         OutP([z |-> z1, sl |-> FnWithout(sl, e.s), own |-> FnWithout(s0.own, e.s)], {RetCls(sl, e), Cls(same /\ SzBooksOk(z1, e))})
    [] e.op = "foreign" -> OutP([s0 EXCEPT !.z = SzFree(z, "none", CapOf(e))], {Cls(HasF(e.res, "cap") /\ e.res.cap >= e.c), Cls(same)})
    [] e.op = "warm"  -> OutP([s0 EXCEPT !.z = SzWarm(z)], {Cls(IsOkU(e.res)), Cls(same)})
    [] e.op = "clear" -> OutP([s0 EXCEPT !.z = SZ0], {Cls(IsOkU(e.res)), Cls(BooksSeen(e) /\ HasF(e, "st") /\ e.st = SZ0.pst /\ SzBooksOk(SZ0, e))})
    [] e.op = "check" -> OutP(s0, {Cls(HeldListOk(sl, e.res)), Cls(same)})
    [] OTHER -> OutP(s0, {"bad"})

(***************************************************************************)
(* ZeroCopyEntry / ZeroCopySlice / ZeroCopyReader                          *)
(* FX06c  ref_count(): Clone does not increment the shared counter, Drop   *)
(*        decrements it (wrapping below zero).  Guard: the reported count  *)
(*        is not in the ideal range and equals 1 - (entry handles of the   *)
(*        group dropped so far), "huge" (-1) when that is negative.        *)
(* FX06d  slice(a..b) / get_slice with a > b panics inside Bytes::slice    *)
(*        instead of answering None.  Guard: a panic, a > b, b <= |d|.     *)
(***************************************************************************)
JZ0 == [sl |-> EmptyFn, g |-> EmptyFn, ng |-> 0]
EntInfoOk(x, grp, r0) ==
  /\ HasF(r0, "d") /\ r0.d = x.d /\ r0.d2 = x.d /\ r0.dr = x.d /\ r0.da = x.d
  /\ r0.n = Len(x.d) /\ r0.orig = x.orig /\ UniqIdeal(grp, r0.uniq)
EntCls(x, grp, r0) == IF IsPanicP(r0) THEN {"bad"} ELSE {Cls(EntInfoOk(x, grp, r0)), RcCls(grp, r0.rc)}
SlInfoOk(x, r0) ==
  /\ HasF(r0, "some") /\ r0.d = x.d /\ r0.d2 = x.d /\ r0.dr = x.d /\ r0.da = x.d
  /\ r0.n = Len(x.d) /\ r0.range = <<x.a, x.b>>
MkEnt(d, g) == [k |-> "e", d |-> d, orig |-> Len(d), g |-> g]
RdBooksOk(d, pos, r0) == HasF(r0, "pos") /\ r0.pos = pos /\ r0.rem = Len(d) - pos /\ r0.empty = (pos >= Len(d))
IsKind(sl, s, k) == s \in DOMAIN sl /\ sl[s].k = k
JudgeZc(s0, e) ==
  LET sl == s0.sl g == s0.g IN
  CASE e.op \in {"mk", "fromm"} ->
         LET ng == s0.ng + 1 x == MkEnt(e.d, ng) IN
         OutP([sl |-> FnWith(sl, e.s, x), g |-> FnWith(g, ng, G0), ng |-> ng], EntCls(x, G0, e.res))
    [] e.op = "append" ->
         IF ~IsKind(sl, e.s, "e") THEN OutP(s0, {"bad"})
         ELSE LET ng == s0.ng + 1 x == MkEnt(sl[e.s].d \o e.x, ng) IN
              OutP([sl |-> FnWith(sl, e.t, x), g |-> FnWith(g, ng, G0), ng |-> ng], EntCls(x, G0, e.res))
    [] e.op = "clone" ->
         IF IsKind(sl, e.s, "e") THEN
            LET x == sl[e.s] g1 == [g EXCEPT ![x.g].ents = @ + 1] IN
            OutP([s0 EXCEPT !.sl = FnWith(sl, e.t, x), !.g = g1], EntCls(x, g1[x.g], e.res))
         ELSE IF IsKind(sl, e.s, "s") THEN
            LET x == sl[e.s] IN
            OutP([s0 EXCEPT !.sl = FnWith(sl, e.t, x), !.g = [g EXCEPT ![x.g].sls = @ + 1]], {Cls(~IsPanicP(e.res) /\ SlInfoOk(x, e.res))})
         ELSE OutP(s0, {"bad"})
    [] e.op = "drop" ->
         IF ~(e.s \in DOMAIN sl) THEN OutP(s0, {"bad"})
         ELSE LET x == sl[e.s]
                  g1 == IF x.k = "e" THEN [g EXCEPT ![x.g].ents = @ - 1, ![x.g].drops = @ + 1]
                        ELSE IF x.k = "s" THEN [g EXCEPT ![x.g].sls = @ - 1] ELSE g
              IN OutP([s0 EXCEPT !.sl = FnWithout(sl, e.s), !.g = g1], {Cls(IsOkU(e.res))})
    [] e.op = "info" ->
         IF IsKind(sl, e.s, "e") THEN OutP(s0, EntCls(sl[e.s], g[sl[e.s].g], e.res))
         ELSE IF IsKind(sl, e.s, "s") THEN OutP(s0, {Cls(~IsPanicP(e.res) /\ SlInfoOk(sl[e.s], e.res))})
         ELSE OutP(s0, {"bad"})
    [] e.op = "slice" ->
         IF ~IsKind(sl, e.s, "e") THEN OutP(s0, {"bad"})
         ELSE LET x == sl[e.s]
                  v == SliceValid(x.d, e.a, e.b)
                  y == [k |-> "s", d |-> SliceOf(x.d, e.a, e.b), a |-> e.a, b |-> e.b, g |-> x.g]
              IN IF IsPanicP(e.res) THEN OutP(s0, {IF e.a > e.b /\ e.b <= Len(x.d) THEN "FX06d" ELSE "bad"})
                 ELSE IF HasF(e.res, "some")
                 THEN OutP([s0 EXCEPT !.sl = FnWith(sl, e.t, y), !.g = [g EXCEPT ![x.g].sls = @ + 1]], {Cls(v /\ SlInfoOk(y, e.res))})
                 ELSE OutP(s0, {Cls(~v /\ HasF(e.res, "none"))})
    [] e.op = "expired" -> OutP(s0, {Cls(IsKind(sl, e.s, "e") /\ HasF(e.res, "b") /\ e.res.b = (e.ttl = "zero"))})
    [] e.op = "reader" ->
         IF ~IsKind(sl, e.s, "e") THEN OutP(s0, {"bad"})
         ELSE OutP([s0 EXCEPT !.sl = FnWith(sl, e.t, [k |-> "r", d |-> sl[e.s].d, pos |-> 0])], {Cls(RdBooksOk(sl[e.s].d, 0, e.res))})
    [] e.op = "newr" -> OutP([s0 EXCEPT !.sl = FnWith(sl, e.t, [k |-> "r", d |-> e.d, pos |-> 0])], {Cls(RdBooksOk(e.d, 0, e.res))})
    [] e.op \in {"seek", "rexact", "rrem", "peek", "read", "aread"} ->
         IF ~IsKind(sl, e.t, "r") \/ IsPanicP(e.res) THEN OutP(s0, {"bad"})
         ELSE LET x == sl[e.t] d == x.d pos == x.pos rem == Len(d) - pos r0 == e.res
                  \* <<answer ok, next position>>
                  a == CASE e.op = "seek" ->
                              IF ~Huge(e.p) /\ e.p <= Len(d) THEN <<IsOkU(r0), e.p>> ELSE <<HasF(r0, "err") /\ r0.err = "input", pos>>
                         [] e.op = "rexact" ->
                              IF ~Huge(e.n) /\ e.n <= rem THEN <<HasF(r0, "d") /\ r0.d = SubSeq(d, pos + 1, pos + e.n), pos + e.n>>
                              ELSE <<HasF(r0, "err") /\ r0.err = "eof", pos>>
                         [] e.op = "rrem" -> <<HasF(r0, "d") /\ r0.d = SubSeq(d, pos + 1, Len(d)), Len(d)>>
                         [] e.op = "peek" ->
                              IF ~Huge(e.n) /\ e.n <= rem THEN <<HasF(r0, "d") /\ r0.d = SubSeq(d, pos + 1, pos + e.n), pos>>
                              ELSE <<HasF(r0, "none"), pos>>
                         [] OTHER ->      \* io::Read / AsyncRead with a buffer of n bytes: a (possibly short) read
                              IF ~HasF(r0, "d") THEN <<FALSE, pos>>
                              ELSE LET k == Len(r0.d) IN
                                   <<r0.k = k /\ k <= rem /\ (Huge(e.n) \/ k <= e.n) /\ r0.d = SubSeq(d, pos + 1, pos + k)
                                     /\ ((rem > 0 /\ e.n # 0) => k >= 1), pos + Min2p(k, rem)>>
              IN OutP([s0 EXCEPT !.sl = FnWith(sl, e.t, [x EXCEPT !.pos = a[2]])], {Cls(a[1] /\ RdBooksOk(d, a[2], r0))})
    [] OTHER -> OutP(s0, {"bad"})

(***************************************************************************)
(* ZeroCopyCache - Cache.tla's core keyed by the u64 key; h = the bytes    *)
(* FX06e  put() of an entry larger than max_memory evicts everything and   *)
(*        stores it: memory_usage() > max_memory.  Guard: exactly one      *)
(*        entry is cached, it is a latest value, and it alone exceeds the  *)
(*        limit.                                                           *)
(***************************************************************************)
JC0 == [s |-> C0, h |-> EmptyFn, grp |-> EmptyFn, cur |-> EmptyFn, ng |-> 0, gets |-> 0, hits |-> 0, puts |-> 0]
CCfg(cfg) == [kind |-> IF cfg.max >= 1000 THEN "disk" ELSE "mem", dttl |-> "long"]
GrpOf(s0, k) == s0.grp[s0.cur[k]]
CAsIs(gr)    == IF 1 - gr.drops >= 0 THEN 1 - gr.drops ELSE -1
CListed(rc, min) == rc = -1 \/ rc >= min
HotOk(s0, cc, min, lst, Rc(_)) ==
  /\ \A i \in 1..Len(lst) : LET k == lst[i][1] IN MayHit(s0.s, k) /\ k \in DOMAIN s0.cur /\ lst[i][2] = Rc(GrpOf(s0, k)) /\ CListed(lst[i][2], min)
  /\ \A k \in DOMAIN s0.s.latest : (MustHit(s0.s, cc, k) /\ CListed(Rc(GrpOf(s0, k)), min)) => \E i \in 1..Len(lst) : lst[i][1] = k
  /\ \A i, j \in 1..Len(lst) : i # j => lst[i][1] # lst[j][1]
RECURSIVE ProbeDrops(_, _, _)
ProbeDrops(s0, ks, vals) ==       \* every hit of a probe is a handle obtained and dropped at once
  IF ks = {} THEN s0.grp
  ELSE LET k == CHOOSE x \in ks : TRUE
           g1 == ProbeDrops(s0, ks \ {k}, vals) IN
       IF IsHit(vals[k]) /\ k \in DOMAIN s0.cur THEN [g1 EXCEPT ![s0.cur[k]].drops = @ + 1] ELSE g1
KeyStr(k) == ToString(k)
JudgeZcc(s0, cfg, e) ==
  LET cc == CCfg(cfg) s == s0.s r0 == e.res
      x == CASE e.op = "put" ->
                  LET ng == s0.ng + 1 IN
                  OutP([s0 EXCEPT !.s = PutR(s, e.k, e.d, Len(e.d), "long"), !.ng = ng, !.puts = @ + 1,
                                  !.grp = FnWith(@, ng, [held |-> 0, drops |-> 0]), !.cur = FnWith(@, e.k, ng)], {Cls(IsOkU(r0))})
             [] e.op = "get" ->
                  LET hit == IsHit(r0)
                      s1  == [s0 EXCEPT !.gets = @ + 1, !.hits = IF hit THEN @ + 1 ELSE @] IN
                  IF hit /\ e.k \in DOMAIN s0.cur
                  THEN OutP([s1 EXCEPT !.h = FnWith(@, e.s, s0.cur[e.k]), !.grp[s0.cur[e.k]].held = @ + 1], {Cls(GetOk(s, cc, e.k, r0))})
                  ELSE OutP(s1, {Cls(GetOk(s, cc, e.k, r0))})
             [] e.op = "gslice" ->
                  LET may == MayHit(s, e.k)
                      d   == IF may THEN s.latest[e.k].h ELSE <<>>
                      v   == may /\ SliceValid(d, e.a, e.b)
                      s1  == [s0 EXCEPT !.gets = @ + 1] IN
                  IF IsPanicP(r0) THEN OutP(s1, {IF may /\ e.a > e.b /\ e.b <= Len(d) THEN "FX06d" ELSE "bad"})
                  ELSE IF HasF(r0, "some")
                  THEN OutP([s1 EXCEPT !.hits = @ + 1],
                            {Cls(v /\ SlInfoOk([d |-> SliceOf(d, e.a, e.b), a |-> e.a, b |-> e.b], r0))})
                  ELSE OutP(s1, {Cls(HasF(r0, "none") /\ ~(v /\ MustHit(s, cc, e.k)))})
             [] e.op = "greader" ->
                  LET s1 == [s0 EXCEPT !.gets = @ + 1] IN
                  IF HasF(r0, "some") THEN OutP([s1 EXCEPT !.hits = @ + 1], {Cls(MayHit(s, e.k) /\ r0.d = s.latest[e.k].h)})
                  ELSE OutP(s1, {Cls(HasF(r0, "none") /\ ~MustHit(s, cc, e.k))})
             [] e.op = "remove" -> OutP([s0 EXCEPT !.s = RemoveR(s, e.k), !.cur = FnWithout(@, e.k)], {Cls(RemoveOk(s, cc, e.k, r0) /\ (MustHit(s, cc, e.k) => r0.b))})
             [] e.op = "contains" -> OutP(s0, {Cls(ContainsOk(s, cc, e.k, r0) /\ (MustHit(s, cc, e.k) => r0.b))})
             [] e.op = "clear" -> OutP([s0 EXCEPT !.s = ClearR(s), !.cur = EmptyFn], {Cls(IsOkU(r0))})
             [] e.op = "compact" ->
                  IF e.ttl = "zero" THEN OutP([s0 EXCEPT !.s = ClearR(s), !.cur = EmptyFn], {Cls(IsOkU(r0))}) ELSE OutP(s0, {Cls(IsOkU(r0))})
             [] e.op = "drop" ->
                  IF e.s \in DOMAIN s0.h
                  THEN OutP([s0 EXCEPT !.h = FnWithout(@, e.s), !.grp[s0.h[e.s]].held = @ - 1, !.grp[s0.h[e.s]].drops = @ + 1], {Cls(IsOkU(r0))})
                  ELSE OutP(s0, {Cls(IsOkU(r0))})
             [] e.op = "hot" ->
                  IF ~HasF(r0, "list") THEN OutP(s0, {"bad"})
                  ELSE OutP(s0, {IF HotOk(s0, cc, e.min, r0.list, LAMBDA gr : 1 + gr.held) THEN "ok"
                                 ELSE IF HotOk(s0, cc, e.min, r0.list, CAsIs) THEN "FX06c" ELSE "bad"})
             [] e.op = "probe" ->
                  IF ~HasF(r0, "vals") THEN OutP(s0, {"bad"})
                  ELSE LET all  == [k \in {kk \in 1..9 : KeyStr(kk) \in DOMAIN r0.vals} |-> r0.vals[KeyStr(k)]]
                           nh   == Cardinality({k \in DOMAIN all : IsHit(all[k])})
                           rcok(Rc(_)) == \A k \in DOMAIN all : (IsHit(all[k]) /\ k \in DOMAIN s0.cur) => r0.rcs[KeyStr(k)] = Rc(GrpOf(s0, k))
                       IN OutP([s0 EXCEPT !.gets = @ + Cardinality(DOMAIN all), !.hits = @ + nh, !.grp = ProbeDrops(s0, DOMAIN all, all)],
                               {Cls(\A k \in DOMAIN all : GetOk(s, cc, k, all[k])),
                                Cls(BooksOk(all, [cnt |-> e.len, n |-> e.len, mem |-> e.mem])),
                                IF rcok(LAMBDA gr : 2 + gr.held) THEN "ok" ELSE IF rcok(CAsIs) THEN "FX06c" ELSE "bad"})
             [] OTHER -> OutP(s0, {"bad"})
      y  == x.st
      books == /\ BooksSeen(e) /\ HasF(e, "st")
               /\ e.st[1] = y.gets /\ e.st[2] = y.hits /\ e.st[3] = y.puts /\ e.st[4] = y.hits /\ PpmOk(e.st[5], y.hits, y.gets)
               /\ e.empty = (e.len = 0)
               /\ e.len <= Cardinality({k \in DOMAIN y.s.latest : MayHit(y.s, k)})
      limit == IF ~HasF(e, "mem") THEN "bad"
               ELSE IF e.mem <= cfg.max THEN "ok"
               ELSE IF e.len = 1 /\ \E k \in DOMAIN y.s.latest : y.s.latest[k].n = e.mem THEN "FX06e" ELSE "bad"
  IN OutP(y, x.cls \cup (IF IsPanicP(r0) THEN {} ELSE {Cls(books), limit}))

(***************************************************************************)
(* streaming                                                               *)
(* FX06g  chunk_size = 0 is not rejected: ContentStream::new divides by it *)
(*        (panic when the total size is known), process_stream reads into  *)
(*        an empty buffer, takes that for end of stream and answers Ok     *)
(*        with no chunks.  Guard: chunk_size = 0 and exactly that.         *)
(***************************************************************************)
MarksBelow(marks, t) == {marks[i] : i \in 1..Len(marks)} \cap 0..(t - 1)
JudgeStream(cfg, e) ==
  LET r0 == e.res IN
  CASE e.op = "proc" ->
         IF cfg.chunk >= 1 THEN {Cls(HasF(r0, "chunks") /\ ChunksOk(cfg, e.d, r0.chunks))}
         ELSE IF HasF(r0, "err") THEN {"ok"}
         ELSE IF (IsPanicP(r0) /\ e.exp # <<>>) \/ (HasF(r0, "chunks") /\ r0.chunks = <<>> /\ e.exp = <<>>) THEN {"FX06g"} ELSE {"bad"}
    [] e.op = "recon" -> {Cls(HasF(r0, "d") /\ r0.d = Flatten(e.chunks, 1))}
    [] e.op = "vchunks" -> {Cls(HasF(r0, "valid") /\ r0.valid = [i \in 1..Len(e.chunks) |-> TRUE])}
    [] e.op = "cstream" ->
         IF cfg.chunk = 0 THEN {IF IsPanicP(r0) THEN (IF e.size # <<>> THEN "FX06g" ELSE "bad") ELSE "ok"}
         ELSE IF IsPanicP(r0) THEN {"bad"}
         ELSE LET tot == IF e.size = <<>> THEN <<>> ELSE <<CeilDiv(e.size[1], cfg.chunk)>>
                  t   == IF tot = <<>> THEN 0 ELSE tot[1]
                  pr  == IF tot = <<>> THEN <<>> ELSE <<IF t = 0 THEN 1000000 ELSE 0>>
                  cv  == Cardinality(MarksBelow(e.marks, t))
              IN {Cls(/\ r0.total = tot /\ r0.prog = pr /\ r0.complete = (tot # <<>> /\ t = 0) /\ r0.cur = 0 /\ r0.bytes = 0
                      /\ r0.validated = [i \in 1..Len(e.ask) |-> e.ask[i] \in MarksBelow(e.marks, t)]
                      /\ r0.gs.cp = 0 /\ r0.gs.tc = tot /\ r0.gs.bp = 0 /\ r0.gs.cv = cv
                      /\ PpmOk(r0.gs.vr, cv, t) /\ r0.gs.pr = (IF pr = <<>> THEN 0 ELSE pr[1]))}
    [] e.op = "sstats" ->
         LET avg == IF e.cp > 0 THEN <<e.bp \div e.cp>> ELSE <<>> IN
         {Cls(/\ ~IsPanicP(r0) /\ r0.all = (e.tc # <<>> /\ e.cv >= e.tc[1]) /\ r0.avg = avg
              /\ r0.est = (IF e.tc # <<>> /\ avg # <<>> THEN <<e.tc[1] * avg[1]>> ELSE <<>>))}
    [] OTHER -> {"bad"}

(***************************************************************************)
(* strings                                                                 *)
(***************************************************************************)
JT0 == [tab |-> EmptyFn, hs |-> EmptyFn]
Range(f) == {f[x] : x \in DOMAIN f}
JudgeStr(s0, e) ==
  LET r0 == e.res IN
  IF IsPanicP(r0) THEN OutP(s0, {"bad"})
  ELSE CASE e.op = "intern" ->
              LET key == <<e.api, e.x>> IN
              IF key \in DOMAIN s0.tab THEN OutP(s0, {Cls(r0.s = e.x /\ r0.id = s0.tab[key])})
              ELSE OutP([s0 EXCEPT !.tab = FnWith(@, key, r0.id)], {Cls(r0.s = e.x /\ ~(r0.id \in Range(s0.tab)))})
         [] e.op = "key" -> OutP(s0, {Cls(HasF(r0, "s") /\ r0.s = e.p \o ":" \o e.e)})
         [] e.op = "ehash" ->
              IF e.e \in DOMAIN s0.hs THEN OutP(s0, {Cls(r0.h = s0.hs[e.e] /\ r0.h2 = r0.h /\ r0.h3 = r0.h)})
              ELSE OutP([s0 EXCEPT !.hs = FnWith(@, e.e, r0.h)], {Cls(r0.h2 = r0.h /\ r0.h3 = r0.h /\ ~(r0.h \in Range(s0.hs)))})
         [] OTHER -> OutP(s0, {"bad"})

(***************************************************************************)
(* BackgroundMemoryManager on a virtual clock (times in ms)                *)
(* FX06h  the worker executes one task at a time and SLEEPS the task's     *)
(*        reschedule interval inside it (MonitorUsage, MemoryPressureCheck,*)
(*        CleanupUnused; nothing is ever rescheduled): shutdown() waits    *)
(*        for the sleep in progress, submitted tasks queue behind the      *)
(*        sleeps of the ten start-up tasks, every content type is sampled  *)
(*        exactly once.  Guards, by claim: shutdown took time, but ended   *)
(*        no later than the moment the sleeping FIFO worker finishes what  *)
(*        it was handed (busy); a task not yet counted as executed before  *)
(*        that moment; fewer samples than the period asks for, but no more *)
(*        than one per content type (+ the submitted MonitorUsage tasks).  *)
(***************************************************************************)
JG0 == [started |-> FALSE, running |-> FALSE, t0 |-> 0, handed |-> 0, extra |-> 0, busy |-> 0, monsub |-> 0, te |-> 0]
StartupSpan(cfg) == 8 * cfg.mon + cfg.press + cfg.clean
\* the reschedule delay the as-is worker sleeps inside a submitted task
SleepOf(cfg, e) == CASE e.op = "press" -> cfg.press
                     [] e.op = "submit" /\ e.task = "monitor" -> e.ms
                     [] e.op = "submit" /\ e.task = "press" -> cfg.press
                     [] e.op = "submit" /\ e.task = "cleanup" -> cfg.clean
                     [] OTHER -> 0
JudgeBg(s0, cfg, e) ==
  LET r0 == e.res
      ok == IsOkU(r0)
      stopped == s0.started /\ ~s0.running
      isSub == e.op \in {"submit", "press", "tune"}
      nsub  == IF e.op = "tune" THEN 8 ELSE 1
      \* busy = the moment the as-is worker (FIFO, sleeping inside the tasks) has finished everything handed to it
      s1 == CASE e.op = "start" ->
                   IF ~s0.started THEN [s0 EXCEPT !.started = TRUE, !.running = TRUE, !.t0 = e.now, !.handed = @ + 10,
                                                  !.busy = e.now + s0.extra + StartupSpan(cfg)]
                   ELSE IF stopped THEN [s0 EXCEPT !.running = e.run] ELSE s0
              [] e.op = "shutdown" -> [s0 EXCEPT !.running = FALSE]
              [] isSub /\ ok -> [s0 EXCEPT !.handed = @ + nsub, !.extra = @ + SleepOf(cfg, e),
                                           !.busy = IF s0.running THEN Max2p(@, e.now) + SleepOf(cfg, e) ELSE @,
                                           !.monsub = IF e.op = "submit" /\ e.task = "monitor" THEN @ + 1 ELSE @]
              [] OTHER -> s0
      \* B: lifecycle.  A second start after a shutdown may be refused (the code documents "already started")
      life == CASE e.op = "start" -> IF stopped THEN (ok /\ e.run) \/ (HasF(r0, "err") /\ ~e.run) ELSE ok /\ e.run
                [] isSub -> (ok \/ (stopped /\ HasF(r0, "err"))) /\ e.run = s1.running
                [] OTHER -> ok /\ e.run = s1.running
      elapsed == e.now - s1.t0
      \* B: whatever was handed to a running worker has been executed once the driver has yielded to it
      prompt == IF ~s1.running \/ e.te >= s1.handed THEN "ok" ELSE IF e.now <= s1.busy THEN "FX06h" ELSE "bad"
      \* B: shutdown does not wait for a reschedule delay
      quick == IF e.op # "shutdown" \/ e.dt = 0 THEN "ok" ELSE IF e.now <= s0.busy THEN "FX06h" ELSE "bad"
      \* B: MonitorUsage{interval} samples periodically (one period of slack)
      want  == IF s1.running /\ cfg.mon > 0 THEN elapsed \div cfg.mon ELSE 0
      period == IF \A i \in 1..8 : e.samples[i] + 1 >= want THEN "ok"
                ELSE IF \A i \in 1..8 : e.samples[i] <= 1 + s1.monsub THEN "FX06h" ELSE "bad"
  IN IF e.op = "bgpanic" THEN OutP(s0, {"bad"})
     ELSE OutP([s1 EXCEPT !.te = e.te], {Cls(life), Cls(e.te >= s0.te), prompt, quick, period})

(***************************************************************************)
(* concurrent runs summarised at quiescence                                *)
(* FX06f  NgdpMemoryPool updates its statistics with try_write(): an       *)
(*        allocation that finds the statistics lock taken is not counted   *)
(*        at all, stats() answers all zeros when it can take neither lock. *)
(*        Guard: several threads; allocations (= reuses + misses) below    *)
(*        the number of allocate calls, or max_pool_size (updated the same *)
(*        way in deallocate) below the current pool_size.                  *)
(* FX06i  SizedMemoryPool::allocate_for_type decides "reuse" from a pool   *)
(*        size read BEFORE the allocation: concurrent allocations all count *)
(*        the same idle buffer.  Guard: several threads, every call counted *)
(*        (reuses + misses = calls), but more reuses of a size class than   *)
(*        buffers of that class were ever returned (conservation broken).   *)
(***************************************************************************)
CountOps(ops, kind, c) == Cardinality({i \in 1..Len(ops) : ops[i][2] = kind /\ ops[i][3] = c})
HamOpsOk(ops) ==
  \A i \in 1..Len(ops) :
     \/ ops[i][2] = 0 /\ ops[i][5] >= ops[i][4] /\ ops[i][6] = 0                 \* alloc [t,0,c,n,cap,len]
     \/ ops[i][2] = 1 /\ ops[i][5] = ops[i][1] /\ ops[i][6] = ops[i][7]          \* free  [t,1,c,cap,byte0,byte1,tag]
RECURSIVE DrainOk(_, _, _, _, _)
DrainOk(dr, i, r0, m0, idle0) ==      \* pool_size allocations are reuses, the next one is a miss
  IF i > Len(dr) THEN idle0 = -1
  ELSE IF idle0 > 0 THEN dr[i] = <<r0 + 1, m0, idle0 - 1>> /\ DrainOk(dr, i + 1, r0 + 1, m0, idle0 - 1)
  ELSE dr[i] = <<r0, m0 + 1, 0>> /\ i = Len(dr) /\ DrainOk(dr, i + 1, r0, m0 + 1, -1)
JudgeHammer(e) ==
  IF e.target = "ngdp" THEN
    LET per(c) == LET o == e.st[c] calls == CountOps(e.ops, 0, c) frees == CountOps(e.ops, 1, c) IN
                  [ok |-> /\ o[3] + o[4] = o[1] /\ o[1] <= calls /\ o[3] <= frees
                          /\ o[5] <= Min2p(NMaxPool(c), frees - o[3]) /\ o[6] <= NMaxPool(c)
                          /\ DrainOk(e.drain[c], 1, o[3], o[4], o[5]),
                   \* every call counted, the high-water mark not below what is pooled now
                   exact |-> o[1] = calls /\ o[6] >= o[5]]
    IN {Cls(HamOpsOk(e.ops)), Cls(per(1).ok /\ per(2).ok /\ e.st[3][1] = 0 /\ e.st[4][1] = 0),
        IF per(1).exact /\ per(2).exact THEN "ok" ELSE IF e.threads >= 2 THEN "FX06f" ELSE "bad"}
  ELSE
    LET per(i, c) == LET o == e.st[i] calls == CountOps(e.ops, 0, c) frees == CountOps(e.ops, 1, c) IN
                     [ok |-> o[1] = calls /\ o[3] + o[4] = calls, over |-> o[3] > frees]
    IN {Cls(HamOpsOk(e.ops)), Cls(per(1, 1).ok /\ per(6, 2).ok /\ e.tot[1] = CountOps(e.ops, 0, 1) + CountOps(e.ops, 0, 2)),
        IF ~(per(1, 1).over \/ per(6, 2).over) THEN "ok" ELSE IF e.threads >= 2 THEN "FX06i" ELSE "bad"}
JudgeCintern(e) ==
  {Cls(\A i, j \in 1..Len(e.ops) : e.ops[i][3] = e.ops[i][2] /\ ((e.ops[i][2] = e.ops[j][2]) <=> (e.ops[i][4] = e.ops[j][4])))}

\* ------------------------------------------------------------------------------------
InitOf(e) == CASE e.kind = "ngdp" -> JN0 [] e.kind = "tl" -> JB0(TL0) [] e.kind = "bbp" -> JB0(BB0) [] e.kind = "zcp" -> JB0(ZP0)
               [] e.kind = "sized" -> JS0 [] e.kind = "zc" -> JZ0 [] e.kind = "zcc" -> JC0 [] e.kind = "str" -> JT0
               [] e.kind = "bg" -> JG0 [] OTHER -> [none |-> TRUE]
Judge(e) ==
  CASE run.kind = "ngdp"   -> JudgeNgdp(st, e)
    [] run.kind = "tl"     -> JudgeTl(st, e)
    [] run.kind = "bbp"    -> JudgeBbp(st, e)
    [] run.kind = "zcp"    -> JudgeZcp(st, e)
    [] run.kind = "sized"  -> JudgeSized(st, e)
    [] run.kind = "zc"     -> JudgeZc(st, e)
    [] run.kind = "zcc"    -> JudgeZcc(st, run.cfg, e)
    [] run.kind = "stream" -> OutP(st, JudgeStream(run.cfg, e))
    [] run.kind = "str"    -> JudgeStr(st, e)
    [] run.kind = "bg"     -> JudgeBg(st, run.cfg, e)
    [] OTHER -> OutP(st, {"bad"})

MaxListed == 200
AddDevs(d, used, line) ==
  [f \in DOMAIN d \cup used |->
     IF f \in used THEN (IF f \in DOMAIN d THEN [d[f] EXCEPT !.n = @ + 1] ELSE [n |-> 1, first |-> line]) ELSE d[f]]
AddViol(v, line) == IF Len(v) < MaxListed THEN Append(v, line) ELSE v
Run0 == [kind |-> "none", cfg |-> [none |-> TRUE]]
LinIdle == rn = 0 /\ done = {} /\ m = 0 /\ flag = 0 /\ relax = {}

TInit == /\ l = 1 /\ run = Run0 /\ st = [none |-> TRUE] /\ seq = 0
         /\ viol = <<>> /\ nviol = 0 /\ devs = EmptyFn /\ LinIdle

Tally(cls0, line, seqok) ==
  LET cls  == {Norm(c) : c \in cls0}
      used == cls \ {"ok", "bad"}
      good == ~("bad" \in cls) /\ seqok
  IN /\ viol' = IF good THEN viol ELSE AddViol(viol, line)
     /\ nviol' = IF good THEN nviol ELSE nviol + 1
     /\ devs' = IF good /\ used # {} THEN AddDevs(devs, used, line) ELSE devs

Step ==
  /\ l <= Len(Rec)
  /\ LET e == Rec[l] IN
     IF e.op = "new" THEN
        /\ run' = e /\ st' = InitOf(e) /\ seq' = 0
        /\ Tally({Cls(IsOkU(e.res))}, l, TRUE)
     ELSE IF e.op = "hang" THEN
        /\ Tally({"bad"}, l, TRUE) /\ UNCHANGED <<run, st, seq>>
     ELSE IF e.op = "hammer" THEN
        /\ Tally(JudgeHammer(e), l, TRUE) /\ run' = Run0 /\ st' = [none |-> TRUE] /\ seq' = 0
     ELSE IF e.op = "cintern" THEN
        /\ Tally(JudgeCintern(e), l, TRUE) /\ run' = Run0 /\ st' = [none |-> TRUE] /\ seq' = 0
     ELSE
        LET j == Judge(e) IN
        /\ st' = j.st /\ run' = run /\ seq' = e.seq
        /\ Tally(j.cls, l, e.seq = seq + 1)
  /\ l' = l + 1
  /\ UNCHANGED <<rn, done, m, flag, relax>>

TNext == Step
Done == (l = Len(Rec) + 1) =>
  PrintT(<<"VERDICT", ToJson([events |-> Len(Rec), violations |-> viol, nviol |-> nviol,
                              deviations |-> SetToSeqT({<<devs[f].first, f, devs[f].n>> : f \in DOMAIN devs})])>>)

(***************************************************************************)
(* Linearizability of concurrent NgdpMemoryPool histories (property L).    *)
(* The pool consists of two objects: the buffer queues with their size     *)
(* counter (pool_size) and the statistics counters; allocate acts on the   *)
(* first (part "q": takes an idle buffer or not) and then on the second    *)
(* (part "s": counts the allocation as the reuse or miss it was);          *)
(* deallocate acts on the first; a stats() call reads both (parts "q" and  *)
(* "s", in either order).  Every part takes effect between the call's      *)
(* invocation and its response.  An operation that overlaps an operation   *)
(* of another thread may miss although a buffer is idle / drop the buffer. *)
(* With FX06f assumed (relax), such an operation may also skip its count,  *)
(* and a contended stats() may answer all zeros.                           *)
(***************************************************************************)
Ops(i)     == Rec[i].ops
PartsOf(o) == IF o.op \in {"alloc", "snap"} THEN {"q", "s"} ELSE {"q"}
FullyDone(ops, dn, p) == \A part \in PartsOf(ops[p]) : <<p, part>> \in dn
EligibleP(ops, dn, o) == \A p \in 1..Len(ops) : (ops[p].ret < ops[o].inv) => FullyDone(ops, dn, p)
Contended(ops, o) == \E p \in 1..Len(ops) : ops[p].t # ops[o].t /\ ~(ops[p].ret < ops[o].inv) /\ ~(ops[o].ret < ops[p].inv)
L0 == [idle |-> <<0, 0>>, a |-> <<0, 0>>, r |-> <<0, 0>>, mi |-> <<0, 0>>]
Applicable(i) == IF Rec[i].threads >= 2 THEN KnownDeviations \cap {"FX06f"} ELSE {}

LInit == /\ rn \in {i \in 1..Len(Rec) : Rec[i].op = "crun"}
         /\ done = {} /\ m = L0 /\ flag = [x \in {} |-> FALSE]
         /\ relax \in {{}} \cup (IF Applicable(rn) = {} THEN {} ELSE {Applicable(rn)})
         /\ l = 0 /\ run = Run0 /\ st = 0 /\ seq = 0 /\ viol = <<>> /\ nviol = 0 /\ devs = EmptyFn

LStep(o, part) ==
  LET ops == Ops(rn) x == ops[o] con == Contended(ops, o) rel == con /\ "FX06f" \in relax IN
  /\ ~(<<o, part>> \in done) /\ EligibleP(ops, done, o)
  /\ done' = done \cup {<<o, part>>}
  /\ CASE x.op = "alloc" /\ part = "q" ->
            LET c == NClassOf(x.n) IN
            /\ ~HasF(x, "panic") /\ x.cap >= x.n /\ x.len = 0 /\ c <= 2
            /\ \/ m.idle[c] > 0 /\ m' = [m EXCEPT !.idle[c] = @ - 1] /\ flag' = FnWith(flag, o, TRUE)
               \/ (m.idle[c] = 0 \/ con) /\ m' = m /\ flag' = FnWith(flag, o, FALSE)
       [] x.op = "alloc" /\ part = "s" ->
            LET c == NClassOf(x.n) IN
            /\ <<o, "q">> \in done /\ flag' = flag
            /\ \/ m' = [m EXCEPT !.a[c] = @ + 1, !.r[c] = IF flag[o] THEN @ + 1 ELSE @, !.mi[c] = IF flag[o] THEN @ ELSE @ + 1]
               \/ rel /\ m' = m
       [] x.op = "free" ->
            LET c == NClassOf(x.cap) IN
            /\ ~x.panic /\ (HasF(x, "d") => x.d = <<x.own>>) /\ c <= 2 /\ flag' = flag
            /\ \/ m.idle[c] < NMaxPool(c) /\ m' = [m EXCEPT !.idle[c] = @ + 1]
               \/ (m.idle[c] >= NMaxPool(c) \/ con) /\ m' = m
       [] x.op = "snap" /\ part = "q" -> /\ UNCHANGED <<m, flag>>
                                         /\ x.st[4] = m.idle[x.c] \/ (rel /\ x.st = <<0, 0, 0, 0>>)
       [] x.op = "snap" /\ part = "s" -> /\ UNCHANGED <<m, flag>>
                                         /\ (x.st[1] = m.a[x.c] /\ x.st[2] = m.r[x.c] /\ x.st[3] = m.mi[x.c]) \/ (rel /\ x.st = <<0, 0, 0, 0>>)
       [] OTHER -> FALSE

LNext == /\ \E o \in 1..Len(Ops(rn)) : \E part \in PartsOf(Ops(rn)[o]) : LStep(o, part)
         /\ UNCHANGED <<rn, relax, l, run, st, seq, viol, nviol, devs>>

Complete == \A o \in 1..Len(Ops(rn)) : FullyDone(Ops(rn), done, o)
Emit  == Complete => PrintT(<<"LINOK", ToJson([run |-> rn, relax |-> relax])>>)
Count == (done = {} /\ relax = {}) => PrintT(<<"RUNS", ToJson([run |-> rn])>>)
=============================================================================
