---------------------------- MODULE T_RoundTrip ----------------------------
(***************************************************************************)
(* Trace monitor (binding T) for C08 over the events of drv_parse.         *)
(*                                                                         *)
(*   {"op":"rt","id":n,"src":..,"fmt":f,"seed":s,"dg":md5 of the input,    *)
(*    "exact":bool (a real CDN file),"h":{field: limbs},"o":"done|abort|   *)
(*    hang","b2":{"o":..,"d":md5,"n":len,"msg":..},"l1":md5,"p2":{"o":..}, *)
(*    "l2":md5,"b3":{"o":..,"d":md5}, "hm":n (product config),             *)
(*    "dang":bool (tvfs)}                                                  *)
(*       one per input that the parser accepted: parse-build-parse-build   *)
(*   {"op":"bprog","id":n,"fmt":f,"ver":v,"es":[{k,s,a,t}..],"o":..,       *)
(*    "build":{"o":..},"parse":{"o":..},"got":[{k,s,a,t}..],"d":md5,       *)
(*    "rt":{b2,l1,p2,l2,b3}}                                               *)
(*       one per builder program enumerated by MC_RoundTrip                *)
(*   {"op":"parse",..,"o":"ok","more":true} announces the "rt" event that  *)
(*   must follow with the same id (a dropped event is noticed).            *)
(*                                                                         *)
(* Judgement: the equations E1-E5 / B1 of RoundTrip.tla on the recorded    *)
(* digests.  A set of broken equations is a deviation iff one listed       *)
(* finding explains exactly that set for that input (DevExplainsRt);       *)
(* otherwise a violation.  An abort or a hang of the round trip itself is  *)
(* a violation (the serialiser is fed a value its own parser produced).    *)
(***************************************************************************)
EXTENDS RoundTrip, TLC, Json, IOUtils

Rec == ndJsonDeserialize(IOEnv.TRACE)
VARIABLES l, pending, viol, devs, nrt, nbp

RtWellFormed(e) == {"id", "fmt", "dg", "exact", "o", "seed"} \subseteq DOMAIN e

\* verdict of one recorded round trip: <<ok?, finding id or "">>
JudgeRt(e) ==
  IF ~RtWellFormed(e) \/ e.o # "done" \/ "b2" \notin DOMAIN e THEN <<FALSE, "">>
  ELSE LET broken == Broken(e, e.dg, e.exact)
           fids   == {f \in KnownDeviations : DevExplainsRt(f, e, broken)}
       IN IF broken = {} THEN <<TRUE, "">>
          ELSE IF fids # {} THEN <<TRUE, FirstRt(fids)>>
          ELSE <<FALSE, "">>

\* a builder program: what the builder serialised must parse back to exactly the program's entries
\* (a builder that refuses the program produced no value: nothing to judge)
Entry4(x) == [k |-> x.k, s |-> x.s, a |-> x.a, t |-> x.t]
JudgeBprog(e) ==
  IF ~({"fmt", "ver", "es", "o"} \subseteq DOMAIN e) \/ e.o # "done" \/ "build" \notin DOMAIN e THEN <<FALSE, "">>
  ELSE IF e.build.o # "ok" THEN <<TRUE, "">>
  ELSE LET faithful == /\ "parse" \in DOMAIN e /\ e.parse.o = "ok" /\ "got" \in DOMAIN e
                       /\ Len(e.got) = Len(e.es)
                       /\ {Entry4(e.got[i]) : i \in 1..Len(e.got)} = {Entry4(e.es[i]) : i \in 1..Len(e.es)}
           \* the serialisation is an accepted input as well: E1-E4 on it
           broken == IF "rt" \in DOMAIN e /\ "b2" \in DOMAIN e.rt THEN Broken(e.rt, e.d, FALSE) ELSE {"E0"}
           fids   == {f \in KnownDeviations : DevExplainsBprog(f, e, broken)}
       IN IF faithful /\ broken = {} THEN <<TRUE, "">>
          ELSE IF faithful /\ fids # {} THEN <<TRUE, FirstRt(fids)>>
          ELSE IF EmptyEncoding(e) THEN <<TRUE, "F08i">>
          ELSE <<FALSE, "">>

TInit == l = 1 /\ pending = -1 /\ viol = <<>> /\ devs = <<>> /\ nrt = 0 /\ nbp = 0

Step ==
  /\ l <= Len(Rec)
  /\ LET e == Rec[l]
         \* an announced round trip must be the next event
         missed == pending # -1 /\ ~(e.op = "rt" /\ "id" \in DOMAIN e /\ e.id = pending)
     IN
     IF e.op = "parse" THEN
        /\ pending' = IF "more" \in DOMAIN e /\ e.more THEN e.id ELSE -1
        /\ viol' = IF missed THEN Append(viol, l) ELSE viol
        /\ UNCHANGED <<devs, nrt, nbp>>
     ELSE IF e.op = "rt" THEN
        LET j == JudgeRt(e)
            orphan == pending = -1 \/ ~("id" \in DOMAIN e) \/ e.id # pending
        IN /\ viol' = IF j[1] /\ ~orphan THEN viol ELSE Append(viol, l)
           /\ devs' = IF j[1] /\ ~orphan /\ j[2] # "" THEN Append(devs, <<l, j[2]>>) ELSE devs
           /\ nrt' = nrt + 1 /\ pending' = -1 /\ UNCHANGED nbp
     ELSE IF e.op = "bprog" THEN
        LET j == JudgeBprog(e)
        IN /\ viol' = IF j[1] /\ ~missed THEN viol ELSE Append(viol, l)
           /\ devs' = IF j[1] /\ j[2] # "" THEN Append(devs, <<l, j[2]>>) ELSE devs
           /\ nbp' = nbp + 1 /\ pending' = -1 /\ UNCHANGED nrt
     ELSE IF e.op = "skip" THEN   \* input not executed: its entry point was stopped after confirmed hangs (C02 reports those)
        /\ viol' = IF missed THEN Append(viol, l) ELSE viol
        /\ pending' = -1 /\ UNCHANGED <<devs, nrt, nbp>>
     ELSE
        /\ viol' = Append(viol, l) /\ pending' = -1 /\ UNCHANGED <<devs, nrt, nbp>>
  /\ l' = l + 1

TNext == Step
Done == (l = Len(Rec) + 1) =>
  PrintT(<<"VERDICT", ToJson([events |-> Len(Rec),
                               violations |-> IF pending # -1 THEN Append(viol, Len(Rec)) ELSE viol,
                               deviations |-> devs, judged |-> nrt + nbp])>>)
=============================================================================
