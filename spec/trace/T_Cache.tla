------------------------------ MODULE T_Cache ------------------------------
(***************************************************************************)
(* Trace monitor (binding T) for executions of the real MemoryCache /      *)
(* DiskCache recorded by harness/src/bin/drv_cache.rs.  Total: every event *)
(* is consumed and judged with the operators of Cache.tla.  The abstract   *)
(* state is a function of the recorded INPUTS only (operation, arguments,  *)
(* whether a put succeeded), so nothing has to be resynchronised after a   *)
(* non-conforming event; `pre` (the previous observation of the books) is  *)
(* taken from the log at every event.                                      *)
(*                                                                         *)
(* Per event the verdict is                                                *)
(*   conforms   - the result is one the property allows, the limits hold   *)
(*                in the observed books, the books are exact at a probe;   *)
(*   deviation  - only a LISTED known finding explains it (Dev_* below);   *)
(*   violation  - otherwise.                                               *)
(*                                                                         *)
(* Events: {"op":"new","cfg":{..},"keys":[..],"res":{..}} starts a run;    *)
(* then {"op":..,args..,"seq":i,"res":{..},"cnt":size(),"st":{"n","mem",   *)
(* ..}} per call, {"op":"hang"} if a call never returned.                  *)
(***************************************************************************)
EXTENDS Cache, TLC, Json, IOUtils

CONSTANT KnownDeviations
Rec == ndJsonDeserialize(IOEnv.TRACE)

VARIABLES l,       \* position in Rec
          s,       \* abstract state of the core (Cache!C0 ..)
          cfg,     \* configuration of the current run
          seq,     \* last sequence number seen in the current run
          pre,     \* books observed after the previous event of the run
          g,       \* ghosts used only by the deviation signatures (see below)
          viol,    \* lines of the non-conforming events (at most MaxListed are listed; nviol counts all)
          nviol,
          devs     \* finding id -> [n |-> events explained only by it, first |-> line of the first one]

Known(f) == f \in KnownDeviations
RECURSIVE SetToSeqC(_)
SetToSeqC(S) == IF S = {} THEN <<>> ELSE LET x == CHOOSE y \in S : TRUE IN <<x>> \o SetToSeqC(S \ {x})
Cfg0 == [kind |-> "mem", policy |-> "lru", maxe |-> 1, maxb |-> 0, dttl |-> "none", subdirs |-> TRUE, bg |-> FALSE]
Obs0 == [cnt |-> 0, n |-> 0, mem |-> 0]
\* g.inst   - number of the cache instance (restart = +1)
\* g.born   - key -> instance that executed the put defining latest[key]
\* g.zombie - key -> entry: removed by a remove() that answered FALSE in a later instance than the put
\* g.nexp / g.bexp - number / bytes of short-TTL puts since the counters were last reset
\* g.poison - F10g: a disk put panicked inside the index lock of the current instance
\* g.orphan - F10g: key -> [h, n] of the value such a put had already moved into place on disk
G0 == [inst |-> 1, born |-> EmptyFn, zombie |-> EmptyFn, nexp |-> 0, bexp |-> 0, poison |-> FALSE, orphan |-> EmptyFn]

(***************************************************************************)
(* Dev_F10f (MemoryCacheEntryInner::new: `now + ttl`): signature: memory   *)
(* cache, a put whose TTL is Duration::MAX (put_with_ttl, or put with that *)
(* default_ttl) panics; nothing else changes.                              *)
(* Dev_F10g (DiskCacheEntry::new: `now + ttl` inside the index lock):      *)
(* signature: disk cache, a put whose TTL is Duration::MAX panics AFTER    *)
(* its file was moved into place; from then on every call of THAT instance *)
(* that needs the index reports an error (poisoned lock); a later instance *)
(* finds the file and serves exactly the value of the panicked put.        *)
(***************************************************************************)
IsPanic(r)     == "outcome" \in DOMAIN r
IsError(r)     == "err" \in DOMAIN r
Poisoned       == Known("F10g") /\ cfg.kind = "disk" /\ g.poison
OrphanHit(k, isValue, r) ==
  /\ Known("F10g") /\ cfg.kind = "disk" /\ k \in DOMAIN g.orphan
  /\ (isValue => r = HitOf(g.orphan[k]))
PutClass(e) ==
  IF ResOk(s, cfg, e) THEN "ok"          \* done, or refused with an error
  ELSE IF ~IsPanic(e.res) \/ ClassOf(cfg, e) # "max" THEN "bad"
  ELSE IF cfg.kind = "mem" /\ Known("F10f") THEN "F10f"
  ELSE IF cfg.kind = "disk" /\ Known("F10g") /\ ~g.poison THEN "F10g"
  ELSE "bad"

(***************************************************************************)
(* Dev_F10b (DiskCache::get fallback): a get of a key the index does not   *)
(* know finds the file and indexes it with `expires_at: None`.  Signature: *)
(* disk cache, the key's latest value was put by an EARLIER instance, its  *)
(* TTL has certainly ended, and the answer is exactly that value.          *)
(* Dev_F10d (DiskCache::remove only looks at the index): signature: disk   *)
(* cache, the key has no value because a remove() in a later instance than *)
(* the put answered FALSE, and the answer is exactly the removed value.    *)
(***************************************************************************)
PosClass(k, isValue, r) ==       \* a positive answer about k: a value r, or contains = TRUE
  IF MayHit(s, k) /\ (isValue => r = HitOf(s.latest[k])) THEN "ok"
  ELSE IF /\ Known("F10b") /\ cfg.kind = "disk" /\ Expired(s, k) /\ g.born[k] < g.inst
          /\ (isValue => r = HitOf(s.latest[k])) THEN "F10b"
  ELSE IF /\ Known("F10d") /\ cfg.kind = "disk" /\ ~Has(s, k) /\ k \in DOMAIN g.zombie
          /\ (isValue => r = HitOf(g.zombie[k])) THEN "F10d"
  ELSE IF OrphanHit(k, isValue, r) THEN "F10g"
  ELSE "bad"
GetClass(k, r) ==
  IF GetOk(s, cfg, k, r) THEN "ok"
  ELSE IF IsHit(r) THEN PosClass(k, TRUE, r)
  ELSE IF Poisoned /\ IsError(r) THEN "F10g"
  ELSE "bad"

ResClasses(e) ==     \* the set of classes of the answers given by event e
  CASE e.op = "get"      -> {GetClass(e.k, e.res)}
    [] e.op = "probe"    -> IF IsFailure(e.res) \/ ~("vals" \in DOMAIN e.res) THEN {"bad"}
                            ELSE {GetClass(k, e.res.vals[k]) : k \in DOMAIN e.res.vals}
    [] e.op = "contains" -> IF ContainsOk(s, cfg, e.k, e.res) THEN {"ok"}
                            ELSE IF ~IsFailure(e.res) /\ "b" \in DOMAIN e.res THEN {PosClass(e.k, FALSE, <<>>)}
                            ELSE IF Poisoned /\ IsError(e.res) THEN {"F10g"} ELSE {"bad"}
    [] e.op = "remove"   -> IF RemoveOk(s, cfg, e.k, e.res) THEN {"ok"}
                            ELSE IF ~IsFailure(e.res) /\ Known("F10d") /\ e.k \in DOMAIN g.zombie THEN {"F10d"}
                            ELSE IF ~IsFailure(e.res) /\ OrphanHit(e.k, FALSE, <<>>) THEN {"F10g"}
                            ELSE IF Poisoned /\ IsError(e.res) THEN {"F10g"} ELSE {"bad"}
    [] IsPut(e)          -> {PutClass(e)}
    [] e.op = "clear"    -> IF ResOk(s, cfg, e) THEN {"ok"} ELSE IF Poisoned /\ IsError(e.res) THEN {"F10g"} ELSE {"bad"}
    [] OTHER             -> IF ResOk(s, cfg, e) THEN {"ok"} ELSE {"bad"}

(***************************************************************************)
(* Dev_F10a (MemoryCache::perform_eviction): eviction is triggered by the  *)
(* byte limit but sized by the entry limit.  Signature: memory cache with  *)
(* a byte budget, a PUT, the books before the put already showed           *)
(* bytes >= max_memory_bytes (eviction was due because of bytes), and      *)
(* after it bytes > max.                                                   *)
(* Dev_F10c (MemoryCache::needs_eviction ignores the incoming value): a    *)
(* PUT, bytes < max before it, bytes > max after it.                       *)
(* An overshoot that is already there (pre.mem > max) and does not grow    *)
(* under an operation that is not a put is the same broken bound, not a    *)
(* new event; any other way of exceeding the budget is a violation.        *)
(***************************************************************************)
ByteClass(e, o) ==
  IF ByteBound(cfg, o) THEN "ok"
  ELSE IF IsPut(e) THEN
         IF pre.mem >= cfg.maxb THEN (IF Known("F10a") THEN "F10a" ELSE "bad")
         ELSE (IF Known("F10c") THEN "F10c" ELSE "bad")
  ELSE IF pre.mem > cfg.maxb /\ o.mem <= pre.mem /\ (Known("F10a") \/ Known("F10c")) THEN "ok"
  ELSE "bad"

(***************************************************************************)
(* Dev_F10e (DiskCache background cleanup keeps its own counters):         *)
(* signature: disk cache built with background tasks, at a probe the       *)
(* reported figures exceed what is retrievable by at most the number /     *)
(* bytes of short-TTL puts made since the counters were last reset.        *)
(***************************************************************************)
BooksClass(e, o) ==
  IF e.op # "probe" \/ IsFailure(e.res) \/ ~("vals" \in DOMAIN e.res) THEN "ok"
  ELSE IF \E k \in DOMAIN e.res.vals : IsFailure(e.res.vals[k]) THEN "ok"   \* no quiescent point (already judged by ResClasses)
  ELSE IF BooksOk(e.res.vals, o) THEN "ok"
  ELSE LET hk == HitKeys(e.res.vals)
           c  == Cardinality(hk)
           b  == SumOver([k \in hk |-> e.res.vals[k].n], hk)
       IN IF /\ Known("F10e") /\ cfg.kind = "disk" /\ cfg.bg
             /\ o.cnt >= c /\ o.cnt - c <= g.nexp /\ o.n >= c /\ o.n - c <= g.nexp
             /\ o.mem >= b /\ o.mem - b <= g.bexp
          THEN "F10e" ELSE "bad"

\* ---- ghosts of the deviation signatures -----------------------------------------
GhostAfter(e) ==
  LET ok == ~IsFailure(e.res) IN
  CASE IsPut(e) /\ IsPanic(e.res) /\ cfg.kind = "disk" /\ ClassOf(cfg, e) = "max" ->
         [g EXCEPT !.poison = TRUE, !.orphan = FnWith(g.orphan, e.k, [h |-> e.vh, n |-> e.n])]
    [] IsPut(e) /\ ok ->
         [g EXCEPT !.born = FnWith(g.born, e.k, g.inst), !.zombie = FnWithout(g.zombie, e.k),
                   !.orphan = FnWithout(g.orphan, e.k),
                   !.nexp = IF ClassOf(cfg, e) \notin TtlNever THEN g.nexp + 1 ELSE g.nexp,
                   !.bexp = IF ClassOf(cfg, e) \notin TtlNever THEN g.bexp + e.n ELSE g.bexp]
    [] e.op = "remove" /\ ok /\ "b" \in DOMAIN e.res ->
         IF e.res.b THEN [g EXCEPT !.born = FnWithout(g.born, e.k), !.zombie = FnWithout(g.zombie, e.k),
                                   !.orphan = FnWithout(g.orphan, e.k)]
         ELSE IF Has(s, e.k) /\ cfg.kind = "disk" /\ g.born[e.k] < g.inst
              THEN [g EXCEPT !.born = FnWithout(g.born, e.k), !.zombie = FnWith(g.zombie, e.k, s.latest[e.k])]
              ELSE [g EXCEPT !.born = FnWithout(g.born, e.k)]
    [] e.op = "clear" /\ ok -> [g EXCEPT !.born = EmptyFn, !.zombie = EmptyFn, !.nexp = 0, !.bexp = 0, !.orphan = EmptyFn]
    [] e.op = "restart" -> [g EXCEPT !.inst = g.inst + 1, !.nexp = 0, !.bexp = 0, !.poison = FALSE]
    [] OTHER            -> g

MaxListed == 200
AddDevs(d, used, line) ==
  [f \in DOMAIN d \cup used |->
     IF f \in used THEN (IF f \in DOMAIN d THEN [d[f] EXCEPT !.n = @ + 1] ELSE [n |-> 1, first |-> line]) ELSE d[f]]
AddViol(v, line) == IF Len(v) < MaxListed THEN Append(v, line) ELSE v

NewBad(e) == \/ "outcome" \in DOMAIN e.res
             \/ IsFailure(e.res) /\ e.cfg.maxe >= 1 /\ e.cfg.dttl \in {"none", "long", "short"}

TInit == /\ l = 1 /\ s = C0 /\ cfg = Cfg0 /\ seq = 0 /\ pre = Obs0 /\ g = G0
         /\ viol = <<>> /\ nviol = 0 /\ devs = EmptyFn

Step ==
  /\ l <= Len(Rec)
  /\ LET e == Rec[l] IN
     IF e.op = "new" THEN
        /\ s' = C0 /\ cfg' = e.cfg /\ seq' = 0 /\ pre' = Obs0 /\ g' = G0
        \* every generated configuration is valid (max_entries >= 1): it must be accepted.  (A boundary
        \* default_ttl - zero, 1 ns, Duration::MAX - may be refused with an error, never with a panic.)
        /\ viol' = IF NewBad(e) THEN AddViol(viol, l) ELSE viol
        /\ nviol' = IF NewBad(e) THEN nviol + 1 ELSE nviol
        /\ devs' = devs
     ELSE IF e.op = "hang" THEN     \* the call never returned (driver watchdog); the run ends here
        /\ viol' = AddViol(viol, l) /\ nviol' = nviol + 1
        /\ UNCHANGED <<s, cfg, seq, pre, g, devs>>
     ELSE
        LET hasObs == "cnt" \in DOMAIN e /\ "st" \in DOMAIN e
            o      == IF hasObs THEN [cnt |-> e.cnt, n |-> e.st.n, mem |-> e.st.mem] ELSE pre
            rc     == ResClasses(e)
            bc     == ByteClass(e, o)
            kc     == BooksClass(e, o)
            all    == rc \cup {bc, kc}
            used   == all \ {"ok", "bad"}
            good   == /\ ~("bad" \in all) /\ hasObs /\ EntryBound(cfg, o)
                      /\ e.seq = seq + 1
        IN /\ s' = Apply(s, cfg, e)
           /\ g' = GhostAfter(e)
           /\ cfg' = cfg
           /\ seq' = e.seq
           /\ pre' = o
           /\ viol' = IF good THEN viol ELSE AddViol(viol, l)
           /\ nviol' = IF good THEN nviol ELSE nviol + 1
           /\ devs' = IF good /\ used # {} THEN AddDevs(devs, used, l) ELSE devs
  /\ l' = l + 1

TNext == Step
Done == (l = Len(Rec) + 1) =>
  PrintT(<<"VERDICT", ToJson([events |-> Len(Rec), violations |-> viol, nviol |-> nviol,
                              deviations |-> SetToSeqC({<<devs[f].first, f, devs[f].n>> : f \in DOMAIN devs})])>>)
=============================================================================
