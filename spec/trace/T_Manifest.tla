----------------------------- MODULE T_Manifest -----------------------------
(***************************************************************************)
(* Trace monitor (bindings T and E) for executions of the real install /   *)
(* download / size manifest builders, serialisers and parsers.  Total and  *)
(* resynchronising: every event is consumed.                               *)
(*                                                                         *)
(* Events (one JSON object per line, written by harness/src/bin/           *)
(* drv_manifest.rs):                                                       *)
(*   {"op":"new","kind":"install"|"download"|"size","ver":v,"cs":bool,     *)
(*    "fl":n,"base":p,"esb":w,"eks":k}                       run boundary  *)
(*   {"op":<builder op>, args..., "seq":n, "res":"ok"|"refused"|"panic"}   *)
(*   {"op":"build","q":[[names]..],"pq":[[lo,hi]..],"plat":[[p,a]..],      *)
(*    "seq":n,"res":"ok"|"refused"|"noparse"|"panic","stage":s,            *)
(*    (refused = build or serialise returned Err; noparse = the library    *)
(*    does not parse what it serialised)                                   *)
(*    "obs":{"bytes":[..],            the serialized manifest              *)
(*           "files":[[id,hi,lo,prio]..], "tags":[{"name","ty","files",    *)
(*           "count","q1"}..], "total":[hi,lo],    parse(bytes), projected *)
(*           "q":[{"all":[..],"any":[..],"size":[hi,lo]}..],               *)
(*           "cat":{..},"ana":{..},"pq":[[..]..],"plat":[[..]..],          *)
(*           "essential":[hi,lo],"btags":[[name,[..]]..]}}                 *)
(*                                                                         *)
(* A build event is judged three ways against the set model m that the     *)
(* monitor maintains with the operators of Manifest.tla:                   *)
(*   bytes   ReadManifest(obs.bytes) - the TLA+ reader of the raw bytes -  *)
(*           must say exactly what the model says (files, sizes,           *)
(*           priorities, and per tag the mask MaskBytes(members, n));      *)
(*   parsed  the library's own parse of those bytes must say the same;     *)
(*   query   every all-of / any-of / size / priority / platform query on   *)
(*           the parsed manifest must equal the set-model definition.      *)
(***************************************************************************)
EXTENDS Manifest, TLC, Json, IOUtils

CONSTANT KnownDeviations
Rec == ndJsonDeserialize(IOEnv.TRACE)

\* m: inherited from Manifest (the set model of the builder under test)
VARIABLES l,       \* position in Rec
          cfg,     \* the `new` event of the current run (container kind, version, options)
          seq,     \* last sequence number seen in the current run
          unspec,  \* the program left the documented preconditions: nothing more is judged in this run
          amb,     \* a tag name was added twice: what the name now denotes is open until the next build shows it
          viol, devs, why, stats

SetOfSeq(q) == {q[j] : j \in 1..Len(q)}
IdxOk(list, S) == Len(list) = Cardinality(S) /\ SetOfSeq(list) = S
Pair(p) == <<p[1], p[2]>>
Positional(c) == c.kind = "size"
S0 == [builds |-> 0, refusals |-> 0, queries |-> 0, unspec_events |-> 0, ops |-> 0, bytes_read |-> 0]

\* ---- the three judgements of a build event ----------------------------------------------------
ParsedFilesOk(c, mm, o) ==
  /\ Len(o.files) = NFiles(mm)
  /\ \A j \in 1..Len(o.files) :
       /\ o.files[j][1] = mm.files[j].id
       /\ <<o.files[j][2], o.files[j][3]>> = mm.files[j].sz
       /\ (c.kind = "download" => o.files[j][4] = mm.files[j].pr)

\* positions a size-manifest tag names beyond the last entry, inside the last mask byte (see DevF19a)
StrayOf(mm, t) == {p \in MemOf(mm, t) : p >= NFiles(mm) /\ p < 8 * ((NFiles(mm) + 7) \div 8)}

ParsedTagsOk(mm, o, dev) ==
  /\ Len(o.tags) = Len(mm.tags)
  /\ \A j \in 1..Len(o.tags) :
       LET t == o.tags[j] IN
       /\ t.name \in TagNames(mm)
       /\ t.ty = mm.tags[TagIx(mm, t.name)].ty
       /\ LET mem == Members(mm, t.name) IN
          /\ IdxOk(t.files, mem)
          /\ t.count = Cardinality(mem) + (IF dev THEN Cardinality(StrayOf(mm, t.name)) ELSE 0)
          /\ ("q1" \in DOMAIN t => IdxOk(t.q1, mem))
  /\ {o.tags[j].name : j \in 1..Len(o.tags)} = TagNames(mm)

QueryOk(mm, T, a) ==
  LET fa == FilesAll(mm, T) IN
  /\ IF T = {} THEN (a.all = <<>> \/ IdxOk(a.all, AllPos(mm)))      \* the empty combination is left open
     ELSE IdxOk(a.all, fa)
  /\ ("any" \in DOMAIN a => IdxOk(a.any, FilesAny(mm, T)))
  /\ Pair(a.size) = (IF T = {} THEN SizeOfSet(mm, SetOfSeq(a.all)) ELSE SizeOfSet(mm, fa))

QueriesOk(e, mm) ==
  /\ Len(e.obs.q) = Len(e.q)
  /\ \A j \in 1..Len(e.q) : QueryOk(mm, SetOfSeq(e.q[j]), e.obs.q[j])

CatSize(mm, bp, cats) == SizeOfSet(mm, UNION {ByPriority(mm, bp, c) : c \in cats})
PriorityOk(e, c, mm) ==
  LET o  == e.obs
      bp == IF c.ver = 3 THEN c.base ELSE 0
  IN /\ \A cat \in Categories : IdxOk(o.cat[cat], ByPriority(mm, bp, cat))
     /\ Len(o.pq) = Len(e.pq)
     /\ \A j \in 1..Len(e.pq) : IdxOk(o.pq[j], ByPrioRange(mm, bp, e.pq[j][1], e.pq[j][2]))
     /\ Len(o.plat) = Len(e.plat)
     /\ \A j \in 1..Len(e.plat) : IdxOk(o.plat[j], FilesAll(mm, {e.plat[j][1], e.plat[j][2]}))
     /\ Pair(o.essential) = CatSize(mm, bp, {"Critical", "Essential"})
     \* analyze_priorities: per category <<count, hi, lo>>, and the three totals
     /\ \A cat \in Categories :
          /\ o.ana[cat][1] = Cardinality(ByPriority(mm, bp, cat))
          /\ <<o.ana[cat][2], o.ana[cat][3]>> = CatSize(mm, bp, {cat})
     /\ Pair(o.ana.total) = TotalSize(mm)
     /\ Pair(o.ana.essential) = CatSize(mm, bp, {"Critical", "Essential"})
     /\ Pair(o.ana.streamable) = CatSize(mm, bp, {"Normal", "Low"})
     \* builder-level lookups (before build): get_files_for_tag
     /\ \A j \in 1..Len(o.btags) : IdxOk(o.btags[j][2], Members(mm, o.btags[j][1]))
     /\ {o.btags[j][1] : j \in 1..Len(o.btags)} = TagNames(mm)

BytesOk(c, mm, o)  == BytesAgree(c, mm, ReadManifest(o.bytes))
ParsedOk(c, mm, o, dev) == ParsedFilesOk(c, mm, o) /\ ParsedTagsOk(mm, o, dev) /\ Pair(o.total) = TotalSize(mm)
AskedOk(e, c, mm)  == (c.kind # "size" => QueriesOk(e, mm)) /\ (c.kind = "download" => PriorityOk(e, c, mm))

\* size builder: positions named by tag_file that no add_entry has filled (Members ignores them:
\* a file that does not exist is in no selection)
Pending(mm) == UNION {mm.tags[j].mem : j \in 1..Len(mm.tags)} \ FileIds(mm)

(* Dev_F19a (size builder): SizeManifestBuilder::tag_file accepts a position that is
   never filled by add_entry; build() only truncates the mask to ceil(n/8) bytes, so a
   position >= n that falls into the last mask byte stays set on disk (a stray bit in
   the padding).  Guard: container kind "size", some tag names an unfilled position
   below 8*ceil(n/8); effect: the mask read from the bytes has exactly those extra
   bits, everything else (files, sizes, the members among 0..n-1) is as the model says. *)
StrayBits(mm) == {p \in Pending(mm) : p < 8 * ((NFiles(mm) + 7) \div 8)}
WithStrayMasks(mm, r) ==
  /\ r.ok /\ r.exact /\ Len(r.tags) = Len(mm.tags)
  /\ \A j \in 1..Len(r.tags) :
       LET t == r.tags[j] IN
       /\ t.name \in TagNames(mm)
       /\ MaskMembers(t.mask, NFiles(mm)) = Members(mm, t.name)
       /\ MaskStray(t.mask, NFiles(mm)) = StrayOf(mm, t.name)
DevF19a(c, mm, o) ==
  /\ "F19a" \in KnownDeviations /\ c.kind = "size" /\ StrayBits(mm) # {}
  /\ LET r == ReadManifest(o.bytes) IN
     /\ WithStrayMasks(mm, r)
     /\ FilesAgree(c, mm, r.files) /\ r.total = TotalSize(mm)

(* Dev_F19b (size manifest): SizeManifestBuilder::add_entry takes any u64 and the serialiser writes
   only the low esize_bytes bytes of it (4 in version 2), and only the low 40 bits of the version 2
   total; neither build step refuses, so the serialized manifest carries other sizes than the builder
   was given and the library's own parser rejects it (TotalSizeMismatch).  Guard: container kind
   "size", some entry size does not fit the entry field or (version 2) the total does not fit 40 bits;
   effect: the bytes hold exactly the truncated values, everything else as the model says, and the
   re-parse fails. *)
SzTrunc(p, w) ==
  CASE w >= 6 -> p [] w = 5 -> <<p[1] % 65536, p[2]>> [] w = 4 -> <<p[1] % 256, p[2]>>
    [] w = 3 -> <<0, p[2]>> [] w = 2 -> <<0, p[2] % 65536>> [] OTHER -> <<0, p[2] % 256>>
EsWidth(c) == IF c.ver = 2 THEN 4 ELSE c.esb
Oversize(c, mm) ==
  \/ \E j \in 1..NFiles(mm) : SzTrunc(mm.files[j].sz, EsWidth(c)) # mm.files[j].sz
  \/ c.ver = 2 /\ TotalSize(mm)[1] >= 65536
DevF19b(c, mm, e) ==
  /\ "F19b" \in KnownDeviations /\ c.kind = "size" /\ e.res = "noparse" /\ Oversize(c, mm)
  /\ LET r == ReadManifest(e.obs.bytes) IN
     /\ r.ok /\ r.exact /\ r.n = NFiles(mm) /\ Len(r.files) = NFiles(mm)
     /\ \A j \in 1..NFiles(mm) : r.files[j].id = mm.files[j].id /\ r.files[j].sz = SzTrunc(mm.files[j].sz, EsWidth(c))
     /\ r.total = (IF c.ver = 2 THEN SzTrunc(TotalSize(mm), 5) ELSE TotalSize(mm))
     /\ Len(r.tags) = Len(mm.tags) /\ TagTriplesRd(r) = TagTriples(mm)

\* A builder may decline to assemble what the container cannot express: a size wider than its field,
\* or (size builder) a tag naming a position that no entry fills.  Any other refusal of a program that
\* stays within the documented preconditions is a failure to maintain the masks (stale mask length
\* after remove_file / add_file is reported by the builders' own validation as a refusal).
MayRefuse(c, mm) == c.kind = "size" /\ (Oversize(c, mm) \/ Pending(mm) # {})

\* ---- resynchronisation: the model as the parsed manifest shows it -------------------------------
FromObs(mm, o) ==
  [files |-> [j \in 1..Len(o.files) |->
                [id |-> o.files[j][1], sz |-> <<o.files[j][2], o.files[j][3]>>, pr |-> o.files[j][4]]],
   tags  |-> [j \in 1..Len(o.tags) |->
                [name |-> o.tags[j].name, ty |-> o.tags[j].ty,
                 mem  |-> {o.files[p + 1][1] : p \in {x \in SetOfSeq(o.tags[j].files) : x + 1 <= Len(o.files)}}]],
   next  |-> mm.next]
NamesUnique(o) == \A i, j \in 1..Len(o.tags) : i # j => o.tags[i].name # o.tags[j].name

\* ---- one builder operation: the model says whether it is valid -----------------------------------
Added(e) == IF e.op = "add_file" THEN 1 ELSE IF e.op = "add_files" THEN Len(e.files) ELSE 0
JudgeOp(e, c, mm, sq, am) ==
  LET r     == ApplyOp(mm, Positional(c), e)
      seqok == e.seq = sq + 1
      resok == e.res # "panic" /\ (r.valid = "yes" => e.res = "ok")
      dup   == e.op = "add_tag" /\ e.t \in TagNames(mm)     \* the name exists already
  IN IF am \/ dup
     THEN \* nothing is judged but panics; only the id counter (a function of the program text) advances
          [good |-> seqok /\ e.res # "panic", reason |-> IF seqok THEN "result" ELSE "seq",
           st |-> [mm EXCEPT !.next = @ + Added(e)], unspec |-> FALSE, amb |-> TRUE]
     ELSE [good   |-> r.valid = "unspec" \/ (seqok /\ resok),
           reason |-> IF seqok THEN "result" ELSE "seq",
           st     |-> IF r.valid = "yes" /\ e.res = "ok" THEN r.st ELSE mm,
           unspec |-> r.valid = "unspec", amb |-> FALSE]

\* ---- one build event ------------------------------------------------------------------------------
(* Dev_F19c: add_tag with a name that already exists pushes a second tag with that name (all three
   builders).  The builder's name -> index table then denotes the new tag while every name-based query of
   the built manifest resolves to the first one.  The documented precondition (download add_tag: "the tag
   name must be unique within the manifest") is not enforced.  What is required instead of a particular
   handling: a built manifest never contains two tags with the same name.  Guard: a name was added while
   present (amb) and the next built manifest shows a name twice; effect: nothing more is judged in the run. *)
JudgeAmbBuild(e, c, mm, sq) ==
  LET seqok == e.seq = sq + 1
      base  == [st |-> mm, dev |-> "", amb |-> FALSE] IN
  IF ~seqok THEN [good |-> FALSE, reason |-> "seq", unspec |-> TRUE] @@ base
  ELSE IF e.res = "refused" THEN [good |-> TRUE, reason |-> "", unspec |-> TRUE] @@ base      \* e.g. duplicates rejected at build
  ELSE IF e.res # "ok" THEN [good |-> FALSE, reason |-> e.res, unspec |-> TRUE] @@ base
  ELSE IF NamesUnique(e.obs)                                                                  \* resolved: go on from what is shown
       THEN [good |-> TRUE, reason |-> "", unspec |-> Positional(c), st |-> IF Positional(c) THEN mm ELSE FromObs(mm, e.obs),
             dev |-> "", amb |-> FALSE]
  ELSE IF "F19c" \in KnownDeviations THEN [good |-> TRUE, reason |-> "", unspec |-> TRUE, st |-> mm, dev |-> "F19c", amb |-> FALSE]
  ELSE [good |-> FALSE, reason |-> "dupname", unspec |-> TRUE] @@ base

JudgeBuild(e, c, mm, sq) ==
  LET seqok == e.seq = sq + 1
      has   == "obs" \in DOMAIN e
      keep  == [st |-> mm, unspec |-> FALSE, dev |-> "", amb |-> FALSE]
      bad(reason) == \* resynchronise to what the parsed manifest shows, when it shows anything usable
        IF e.res = "ok" /\ ~Positional(c)
        THEN IF NamesUnique(e.obs) THEN [good |-> FALSE, reason |-> reason, st |-> FromObs(mm, e.obs), unspec |-> FALSE, dev |-> "", amb |-> FALSE]
             ELSE [good |-> FALSE, reason |-> reason, st |-> mm, unspec |-> TRUE, dev |-> "", amb |-> FALSE]
        ELSE [good |-> FALSE, reason |-> reason] @@ keep
  IN IF ~seqok THEN bad("seq")
     ELSE IF e.res = "refused" THEN        \* no manifest was assembled; that needs a reason the model knows
          IF MayRefuse(c, mm) THEN [good |-> TRUE, reason |-> ""] @@ keep ELSE bad("refused")
     ELSE IF e.res = "noparse" /\ has /\ DevF19b(c, mm, e) THEN [good |-> TRUE, reason |-> "", dev |-> "F19b"] @@ keep
     ELSE IF e.res \in {"panic", "noparse"} \/ ~has THEN bad(e.res)
     ELSE LET bOk == BytesOk(c, mm, e.obs)
              dA  == ~bOk /\ DevF19a(c, mm, e.obs)
          IN IF ~(bOk \/ dA) THEN bad("bytes")
             ELSE IF ~ParsedOk(c, mm, e.obs, dA) THEN bad("parsed")
             ELSE IF ~AskedOk(e, c, mm) THEN bad("query")
             ELSE [good |-> TRUE, reason |-> "", dev |-> IF dA THEN "F19a" ELSE ""] @@ keep

TInit == /\ l = 1 /\ m = M0 /\ cfg = [kind |-> "none"] /\ seq = 0 /\ unspec = FALSE /\ amb = FALSE
         /\ viol = <<>> /\ devs = <<>> /\ why = <<>> /\ stats = S0

Bump(f) == [stats EXCEPT ![f] = @ + 1]

Step ==
  /\ l <= Len(Rec)
  /\ LET e == Rec[l] IN
     IF e.op = "new" THEN
        /\ m' = M0 /\ cfg' = e /\ seq' = 0 /\ unspec' = FALSE /\ amb' = FALSE
        /\ UNCHANGED <<viol, devs, why, stats>>
     ELSE IF e.op = "hang" THEN
        /\ viol' = Append(viol, l) /\ why' = Append(why, <<l, "hang">>)
        /\ UNCHANGED <<m, cfg, seq, unspec, amb, devs, stats>>
     ELSE IF unspec THEN
        /\ seq' = e.seq /\ stats' = Bump("unspec_events")
        /\ UNCHANGED <<m, cfg, unspec, amb, viol, devs, why>>
     ELSE IF e.op # "build" THEN
        \E v \in {JudgeOp(e, cfg, m, seq, amb)} :      \* (bound once: the judgement is evaluated a single time)
           /\ m' = v.st
           /\ unspec' = v.unspec
           /\ amb' = v.amb
           /\ seq' = e.seq
           /\ viol' = IF v.good THEN viol ELSE Append(viol, l)
           /\ why' = IF v.good THEN why ELSE Append(why, <<l, v.reason>>)
           /\ stats' = Bump("ops")
           /\ UNCHANGED <<cfg, devs>>
     ELSE
        \E v \in {IF amb THEN JudgeAmbBuild(e, cfg, m, seq) ELSE JudgeBuild(e, cfg, m, seq)} :
           /\ amb' = v.amb
           /\ viol' = IF v.good THEN viol ELSE Append(viol, l)
           /\ why'  = IF v.good THEN why ELSE Append(why, <<l, v.reason>>)
           /\ devs' = IF v.good /\ v.dev # "" THEN Append(devs, <<l, v.dev>>) ELSE devs
           /\ m' = v.st
           /\ unspec' = v.unspec
           /\ seq' = e.seq
           /\ stats' = [stats EXCEPT !.builds = @ + (IF e.res = "refused" THEN 0 ELSE 1),
                                     !.refusals = @ + (IF e.res = "refused" THEN 1 ELSE 0),
                                     !.queries = @ + (IF e.res = "ok" /\ cfg.kind # "size" THEN Len(e.q) ELSE 0),
                                     !.bytes_read = @ + (IF "obs" \in DOMAIN e THEN Len(e.obs.bytes) ELSE 0)]
           /\ UNCHANGED <<cfg>>
  /\ l' = l + 1

TNext == Step
TView == <<l>>
Done == (l = Len(Rec) + 1) =>
  PrintT(<<"VERDICT", ToJson([events |-> Len(Rec), violations |-> viol, deviations |-> devs, why |-> why,
                              builds |-> stats.builds, refusals |-> stats.refusals, queries |-> stats.queries,
                              unspec_events |-> stats.unspec_events, ops |-> stats.ops, bytes_read |-> stats.bytes_read])>>)
=============================================================================
