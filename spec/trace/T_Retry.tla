------------------------------ MODULE T_Retry ------------------------------
(***************************************************************************)
(* Trace monitor (binding T) for executions of the real RetryPolicy /      *)
(* CdnClient, recorded by harness/src/bin/drv_retry.rs.  Total and         *)
(* resynchronising: every event is consumed and judged with the predicates *)
(* of Retry.tla (CallIdeal, RetIdeal, EnvFieldsOK, the listed deviations). *)
(*                                                                         *)
(*   {"op":"new","fam":f,"clock":"virtual"|"real","pol":P[,"env":E]}       *)
(*   {"op":"from_env","seq":n,"res":{"kind":k},"pol":P}                    *)
(*   {"op":"call","seq":n,"i":i,"gap":ms,"o":{"kind","code","h","dur"..}}  *)
(*   {"op":"ret","seq":n,"res":{"kind","code","h","id"}}                   *)
(*   {"op":"hang",...}                      driver watchdog: no return     *)
(***************************************************************************)
EXTENDS Retry, TLC, Json, IOUtils

Rec == ndJsonDeserialize(IOEnv.TRACE)

\* pol, st: inherited from Retry (policy of the run, judge state); the other machine variables are unused here
VARIABLES l,       \* position in Rec
          dflt,    \* RetryPolicy::default() as logged at the run boundary
          env,     \* environment of an env-family run
          fam, slack, seq,
          viol, devs

NoEnvT == [MAX_RETRIES |-> "unset", RETRY_BACKOFF |-> "unset", MAX_BACKOFF |-> "unset", MULT |-> "unset", JITTER |-> "unset"]

TInit == /\ l = 1 /\ pol = DefaultPol /\ dflt = DefaultPol /\ env = NoEnvT /\ st = [J0 EXCEPT !.open = FALSE]
         /\ fam = "none" /\ slack = Tol /\ seq = 0 /\ viol = <<>> /\ devs = <<>>
         /\ script = <<>> /\ calls = <<>> /\ waited = 0 /\ phase = "trace" /\ result = NoOutcome

Closed(j) == [j EXCEPT !.open = FALSE]

Step ==
  /\ l <= Len(Rec)
  /\ LET e == Rec[l] IN
     IF e.op = "new" THEN
        \* the previous run must have ended with a return (or a recorded hang)
        /\ viol' = IF st.open THEN Append(viol, l) ELSE viol
        /\ pol' = e.pol /\ dflt' = e.pol /\ fam' = e.fam
        /\ env' = IF "env" \in DOMAIN e THEN e.env ELSE NoEnvT
        \* an env-family run starts with from_env; until then no attempt may happen
        /\ st' = IF e.fam = "env" THEN Closed(J0) ELSE J0
        /\ slack' = IF e.clock = "real" THEN RealSlack ELSE Tol
        /\ seq' = 0 /\ UNCHANGED devs
     ELSE IF e.op = "from_env" THEN
        LET good == /\ fam = "env" /\ st.n = 0 /\ ~st.open /\ e.seq = seq + 1
                    /\ \/ e.res.kind = "Ok" /\ EnvFieldsOK(env, e.pol, dflt)
                       \/ e.res.kind = "Err" /\ EnvGarbage(env)
        IN /\ viol' = IF good THEN viol ELSE Append(viol, l)
           /\ pol' = e.pol
           /\ st' = IF e.res.kind = "Ok" THEN J0 ELSE Closed(J0)
           /\ seq' = e.seq /\ UNCHANGED <<dflt, env, fam, slack, devs>>
     ELSE IF e.op = "call" THEN
        LET ok   == CallIdeal(st, pol, e, slack)
            dA   == ~ok /\ CallDevA(st, pol, e, slack)
            good == (ok \/ dA) /\ e.seq = seq + 1
        IN /\ viol' = IF good THEN viol ELSE Append(viol, l)
           /\ devs' = IF good /\ dA THEN Append(devs, <<l, "F14a">>) ELSE devs
           \* resynchronise on the logged attempt number; the count of un-hinted waits follows the log
           /\ st' = [AfterCall(st, e) EXCEPT !.n = e.i]
           /\ seq' = e.seq /\ UNCHANGED <<pol, dflt, env, fam, slack>>
     ELSE IF e.op = "ret" THEN
        LET ok   == RetIdeal(st, pol, e.res)
            dA   == ~ok /\ e.res.kind = "waiting" /\ WaitDevA(st, pol)
            dB   == ~ok /\ DevF14b(st, pol, e.res)
            dC   == ~ok /\ ~dB /\ DevF14c(st, pol, e.res)
            good == (ok \/ dA \/ dB \/ dC) /\ e.seq = seq + 1
        IN /\ viol' = IF good THEN viol ELSE Append(viol, l)
           /\ devs' = IF good /\ ~ok THEN Append(devs, <<l, IF dA THEN "F14a" ELSE IF dB THEN "F14b" ELSE "F14c">>) ELSE devs
           /\ st' = Closed(st)
           /\ seq' = e.seq /\ UNCHANGED <<pol, dflt, env, fam, slack>>
     ELSE   \* "hang" or anything unknown: execute()/download() never returned
        /\ viol' = Append(viol, l)
        /\ st' = Closed(st)
        /\ UNCHANGED <<pol, dflt, env, fam, slack, seq, devs>>
  /\ l' = l + 1
  /\ UNCHANGED <<script, calls, waited, phase, result>>

TNext == Step
Done == (l = Len(Rec) + 1) =>
  PrintT(<<"VERDICT", ToJson([events |-> Len(Rec),
                              violations |-> IF st.open THEN Append(viol, Len(Rec)) ELSE viol,
                              deviations |-> devs])>>)
=============================================================================
