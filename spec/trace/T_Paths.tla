------------------------------ MODULE T_Paths ------------------------------
(***************************************************************************)
(* Trace monitor for C20.  One event per API call sequence on one key (or  *)
(* one pair of well-formed keys), written by drv_paths:                    *)
(*   {"op":"call","api":a,"prog":{...},"steps":[{"op","outcome","res"}..], *)
(*    "touched":[{"p":[components relative to the sandbox parent],         *)
(*                "how":"created"|"changed"|"deleted","dir":bool}..],      *)
(*    "decoy_read":bool,"values_ok":bool [, "paths":[{"fn","key","p"}..]]} *)
(* Judged (exactly the property):                                          *)
(*   - every path created, changed or deleted is Confined to the           *)
(*     configured root (Paths!Confined), whatever the key was;             *)
(*   - no read returned bytes of a file outside the root (decoys);         *)
(*   - no call panicked;                                                   *)
(*   - pair programs (two different well-formed keys): each key reads back *)
(*     its own value (they did not end up in the same file);               *)
(*   - fixed-width key helpers: paths confined and pairwise different;     *)
(*   - the four kinds of CDN object of one hash never share cached bytes.  *)
(* Known deviations are named by the API family and the escape mechanism.  *)
(***************************************************************************)
EXTENDS Paths, TLC, Json, IOUtils

CONSTANT KnownDeviations
Rec == ndJsonDeserialize(IOEnv.TRACE)
Root == <<"l1", "l2", "l3", "root">>

VARIABLES l, viol, devs

Escapes(e) == {i \in 1..Len(e.touched) : ~Confined(Root, e.touched[i].p)}
Panicked(e) == \E i \in 1..Len(e.steps) : e.steps[i].outcome \notin {"ok", "err"}
IsPair(e) == e.pair
\* a key whose put succeeded must read back its own value; no key may ever read another key's value
PutOk(e, k) == \E i \in 1..Len(e.steps) : e.steps[i].op = "put" /\ e.steps[i].key = k /\ e.steps[i].outcome = "ok"
AllPutsOk(e) == \A i \in 1..Len(e.steps) : e.steps[i].op = "put" => e.steps[i].outcome = "ok"
PairBad(e) == IsPair(e) /\
   (\/ ~e.values_ok
    \/ \E i \in 1..Len(e.steps) : e.steps[i].op = "get" /\ e.steps[i].outcome = "ok"
          /\ (e.steps[i].res = "other" \/ (e.steps[i].res = "none" /\ AllPutsOk(e))))
FixedBad(e) == "paths" \in DOMAIN e /\
   (\/ \E i \in 1..Len(e.paths) : ~Confined(Root, e.paths[i].p)
    \/ \E i, j \in 1..Len(e.paths) : i < j /\ e.paths[i].fn = e.paths[j].fn /\ e.paths[i].key # e.paths[j].key /\ e.paths[i].p = e.paths[j].p)

\* CDN objects of one hash (data / index / config / patch): different kinds never share bytes, the same kind
\* reads the same bytes every time (first from the network, then from the cache)
ObjectsBad(e) == "objects" \in DOMAIN e /\
   \E i, j \in 1..Len(e.objects) : i < j /\
      \/ (e.objects[i].kind # e.objects[j].kind /\ e.objects[i].digest = e.objects[j].digest)
      \/ (e.objects[i].kind = e.objects[j].kind /\ e.objects[i].digest # e.objects[j].digest)

\* the key of the program uses a traversal component (".." or an absolute path): the mechanism of F20a/F20d
HasTraversal(k) == k.abs \/ \E i \in 1..Len(k.comps) : k.comps[i] \in {"up", "empty", "dot"}
KeyOf(e) == e.prog
\* F20a: DiskCache (and everything built on it: ProtocolCache, CdnClient cache keys) joins the raw key string onto
\*       its directory; F20d: Storage::open_installation joins the raw name.  Guard: a traversal component in the key.
DevEscape(e) ==
  IF ~IsPair(e) /\ "comps" \in DOMAIN e.prog /\ HasTraversal(KeyOf(e)) THEN
     IF e.base \in {"disk.raw", "disk.raw.subdirs", "disk.ribbit.endpoint", "disk.ribbit.region", "disk.config.hash",
                   "disk.index.name", "proto.ribbit", "cdn.path"} /\ "F20a" \in KnownDeviations THEN "F20a"
     ELSE IF e.base = "storage.open" /\ "F20d" \in KnownDeviations THEN "F20d" ELSE ""
  ELSE ""
\* F20b: the temp file of a put is path.with_extension("tmp"): keys "x.tmp" and "x.a" interfere
DevTemp(e) == IF "F20b" \in KnownDeviations /\ IsPair(e) /\ "k1" \in DOMAIN e.prog
                 /\ \E k \in {e.prog.k1, e.prog.k2} : k.comps[Len(k.comps)] = "pt" THEN "F20b" ELSE ""
\* F20e: CDN URL / cache-key building slices hex_key[..2], [2..4]: panics for keys shorter than 2 bytes;
\* F20f: download_range computes offset + length - 1: panics (overflow checks) for length 0 at offset 0
DevPanic(e) == IF e.api = "cdn.keylen" /\ e.prog.len < 2 /\ "F20e" \in KnownDeviations THEN "F20e"
               ELSE IF e.api = "cdn.range" /\ e.prog.length_zero /\ e.prog.offset_zero /\ "F20f" \in KnownDeviations THEN "F20f" ELSE ""

TInit == l = 1 /\ viol = <<>> /\ devs = <<>>
TNext ==
  /\ l <= Len(Rec)
  /\ LET e == Rec[l] IN
     IF e.op # "call" THEN   \* a hang recorded by the watchdog
        viol' = Append(viol, l) /\ devs' = devs
     ELSE
       LET esc == Escapes(e) # {} \/ e.decoy_read
           pan == Panicked(e)
           pair == PairBad(e)
           fx == FixedBad(e) \/ ObjectsBad(e)
           d1 == IF esc THEN DevEscape(e) ELSE ""
           d2 == IF pair THEN DevTemp(e) ELSE ""
           d3 == IF pan THEN DevPanic(e) ELSE ""
           bad == (esc /\ d1 = "") \/ (pair /\ d2 = "") \/ (pan /\ d3 = "") \/ fx
           ds == {d \in {d1, d2, d3} : d # ""}
       IN /\ viol' = IF bad THEN Append(viol, l) ELSE viol
          /\ devs' = IF ~bad /\ ds # {} THEN Append(devs, <<l, CHOOSE d \in ds : TRUE>>) ELSE devs
  /\ l' = l + 1
Done == (l = Len(Rec) + 1) => PrintT(<<"VERDICT", ToJson([events |-> Len(Rec), violations |-> viol, deviations |-> devs])>>)
=============================================================================
