----------------------------- MODULE T_Signature -----------------------------
(***************************************************************************)
(* Trace monitor (binding T / E) for executions recorded by                *)
(* harness/src/bin/drv_signature.rs.  Total: every event is consumed and   *)
(* judged with the operators of Signature.tla; the only state is the       *)
(* download machine's (which entries are cached, how many requests each    *)
(* path has seen), resynchronised from the observation after a             *)
(* non-conforming event.                                                   *)
(*                                                                         *)
(* An event conforms when the specification (F = {}) permits it.  It is a  *)
(* listed deviation when a non-empty F \subseteq KnownDeviations of the    *)
(* findings relevant to its operation permits it (the smallest such F is   *)
(* reported); the guards are the clauses that the ids switch in            *)
(* Signature.tla:                                                          *)
(*   FX07a verify / mime_v1 : the CMS carries attached content that is not *)
(*         the caller's bytes, and the result is what checking the         *)
(*         attached content gives                                          *)
(*   FX07b verify / mime_v1 : a signer has signed attributes, and the      *)
(*         result is what checking the value directly against the content  *)
(*         gives                                                           *)
(*   FX07c mime_v1 : the epilogue is the SHA-256 of the message, result Err*)
(*   FX07f mime_v1 : signed_data = None, the result is what checking       *)
(*         against nobody's bytes gives                                    *)
(*   FX07g mime_v1 : the signature part is not a SignedData, result Ok     *)
(*         with signature_info = None                                      *)
(*   FX07i mime_legacy : the checksum digits are upper case, result Err    *)
(*   FX07d pem : the command is "certs/<id>\r\n" / "ocsp/<id>\r\n"         *)
(*   FX07e pem : the answer has an END marker in front of the BEGIN marker,*)
(*         result panic                                                    *)
(*   FX07h detect / raw : byte 512 of the (lossily decoded) response is    *)
(*         inside a multi-byte character, v1_mime::is_v1_mime_response     *)
(*         panics                                                          *)
(* Anything else is a violation.                                           *)
(***************************************************************************)
EXTENDS Signature, Json, IOUtils

CONSTANT KnownDeviations
Rec == ndJsonDeserialize(IOEnv.TRACE)
C13 == INSTANCE Failover

VARIABLES l, kind, cache, script, base, stored, seen, viol, devs, judged

\* --------------------------------------------------------------------------- explanation by smallest deviation sets
\* Ok(F): the event is permitted under deviations F.  Result: <<conforms, ids>>; ids = {} with conforms = FALSE is a violation
Explain(Ok(_), relevant) ==
  IF Ok({}) THEN <<TRUE, {}>>
  ELSE LET cand == {F \in SUBSET (KnownDeviations \cap relevant) : F # {} /\ Ok(F)}
           mins == {F \in cand : \A G \in cand : ~(G \subseteq F /\ G # F)}
       IN IF mins = {} THEN <<FALSE, {}>> ELSE <<TRUE, CHOOSE F \in mins : TRUE>>

\* --------------------------------------------------------------------------- verify
VerifyObs(e) == IF e.res.class = "ok" THEN (IF e.res.valid THEN "valid" ELSE "invalid") ELSE e.res.class
VerifyOk(e, F) ==
  /\ VerifyObs(e) \in VerifyAllowed(e.cms, e.data, F)
  /\ e.res.class = "ok" => /\ e.res.signers = Len(e.cms.signers)
                           /\ e.res.certs = Len(e.cms.certs)
                           /\ e.res.chain = FALSE

\* --------------------------------------------------------------------------- mime
CksObs(e) == IF e.res.cks = "none" THEN "absent" ELSE IF e.res.cks = e.want_cks THEN "reported" ELSE "wrong"
MimeV1Obs(e) == IF e.res.class = "ok" THEN [class |-> "ok", sig |-> e.res.sig, cks |-> CksObs(e)]
                ELSE [class |-> e.res.class, sig |-> "-", cks |-> "-"]
MimeV1Ok(e, F) ==
  /\ MimeV1Obs(e) \in MimeV1Allowed(e.env, e.sd, F)
  /\ e.res.class = "ok" => e.res.data_md5 = e.want_md5 /\ e.res.raw_kept
MimeLegacyObs(e) == IF e.res.class = "ok" THEN [class |-> "ok", sig |-> e.res.sig, cks |-> CksObs(e)]
                    ELSE [class |-> e.res.class, sig |-> "-", cks |-> "-"]
MimeLegacyOk(e, F) ==
  /\ MimeLegacyObs(e) \in MimeLegacyAllowed(e.env, F)
  /\ e.res.class = "ok" => e.res.data_md5 = e.want_md5 /\ (e.res.sig = "some" => e.res.sig_md5 = e.want_sig_md5)

\* the detectors: answers "true" | "false" | "panic", e.expect \in {"true", "false", "any"}; e.straddle: byte 512 of the decoded text is inside a character
DetectOne(x, expect) == x # "panic" /\ (expect = "any" \/ x = expect)
DetectOk(e, F) ==
  /\ DetectOne(e.res.legacy, e.expect)
  /\ IF "FX07h" \in F THEN e.straddle /\ e.res.v1 = "panic" ELSE DetectOne(e.res.v1, e.expect)

\* literal or damaged bytes: nothing panics; literal garbage (novalid) never verifies
RawOk(e, F) == /\ \A c \in {e.verify, e.v1, e.v1_none, e.legacy} : c # 3 /\ (e.novalid => c # 2)
               /\ DetectOk([res |-> e.detect, expect |-> e.expect, straddle |-> e.straddle], F)

\* --------------------------------------------------------------------------- certificate fetcher
PemOk(e, F) ==
  /\ PemCmdsOK(e.via, e.id, e.cmds, F)
  /\ PemClassOK(e.resp.t, e.cmds, e.res.class, F)
  /\ e.res.class = "ok" => \A f \in PemFields : e.res[f] = e.want[f]

\* --------------------------------------------------------------------------- requests
Get(p) == [method |-> "GET", path |-> p]
ResKind(e) == [class |-> e.res.class, kind |-> IF e.res.class = "err" THEN e.res.kind ELSE "-"]
ReqOk(e) ==
  CASE e.client = "ribbit"  -> Len(e.cmds) = 1 /\ IsLine(e.cmds[1], e.ep) /\ e.res.class = "ok" /\ e.res.same
    [] e.client = "tact"    -> e.reqs = <<Get(TactPath(e.ep))>> /\ ResKind(e) = TactClass(e.code, e.body = "ok")
    [] e.client = "unified" ->
         IF ~ValidEndpoint(e.ep) THEN e.reqs = <<>> /\ e.cmds = <<>> /\ ResKind(e) = [class |-> "err", kind |-> "InvalidEndpoint"]
         ELSE IF TcpOnly(e.ep) THEN e.reqs = <<>> /\ Len(e.cmds) = 1 /\ IsLine(e.cmds[1], e.ep) /\ e.res.class = "ok"
         ELSE Len(e.reqs) >= 1 /\ e.reqs[1] = Get(TactPath(e.ep)) /\ e.res.class = "ok"

\* --------------------------------------------------------------------------- downloads
AlnumChars == EndpointChars \ {"/", "_", "-", "."}
PlainKey(k) == Len(k) >= 1 /\ \A i \in 1..Len(k) : CharAt(k, i) \in AlnumChars
SeenOf(p) == IF p \in DOMAIN seen THEN seen[p] ELSE 0
CdnOk(e) ==
  IF ~PlainKey(e.k) THEN e.res.class \in {"ok", "err"}           \* A3 only: the URL of such a key is the HTTP library's business
  ELSE LET p == CdnPath(e.op, base, e.k)
           codes == [i \in 1..Len(e.reqs) |-> e.reqs[i].code]
       IN /\ e.res.class \in {"ok", "err"}
          /\ C13!CdnExplains(script, <<e.op, e.k>> \in stored, SeenOf(p), codes, e.res.class)
          /\ \A i \in 1..Len(e.reqs) : e.reqs[i].path = p /\ e.reqs[i].method = "GET"
          /\ e.res.class = "ok" => e.res.body = CdnBody(p)
SeenAfter(e) ==
  LET ps == {e.reqs[i].path : i \in 1..Len(e.reqs)} IN
  [q \in DOMAIN seen \cup ps |-> SeenOf(q) + Cardinality({i \in 1..Len(e.reqs) : e.reqs[i].path = q})]

\* --------------------------------------------------------------------------- the monitor
TInit == /\ l = 1 /\ kind = "" /\ cache = "" /\ script = <<>> /\ base = "" /\ stored = {} /\ seen = <<>>
         /\ viol = <<>> /\ devs = <<>> /\ judged = 0

AddDevs(ids) == LET RECURSIVE A(_, _)
                    A(S, acc) == IF S = {} THEN acc ELSE LET x == CHOOSE y \in S : TRUE IN A(S \ {x}, Append(acc, <<l, x>>))
                IN A(ids, devs)

Judge(x) ==      \* x = <<conforms, ids>>
  /\ viol' = IF x[1] THEN viol ELSE Append(viol, l)
  /\ devs' = IF x[1] THEN AddDevs(x[2]) ELSE devs

Step ==
  /\ l <= Len(Rec)
  /\ LET e == Rec[l] IN
     CASE e.op = "new" ->
            /\ kind' = e.kind
            /\ IF e.kind = "cdn" THEN cache' = e.cache /\ script' = e.script /\ base' = e.path
                                 ELSE cache' = "" /\ script' = <<>> /\ base' = ""
            /\ stored' = {} /\ seen' = <<>>
            /\ UNCHANGED <<viol, devs, judged>>
       [] e.op = "verify" ->
            /\ Judge(Explain(LAMBDA F : VerifyOk(e, F), {"FX07a", "FX07b"}))
            /\ judged' = judged + 1
            /\ UNCHANGED <<kind, cache, script, base, stored, seen>>
       [] e.op = "mime_v1" ->
            /\ Judge(Explain(LAMBDA F : MimeV1Ok(e, F), {"FX07a", "FX07b", "FX07c", "FX07f", "FX07g"}))
            /\ judged' = judged + 1
            /\ UNCHANGED <<kind, cache, script, base, stored, seen>>
       [] e.op = "mime_legacy" ->
            /\ Judge(Explain(LAMBDA F : MimeLegacyOk(e, F), {"FX07i"}))
            /\ judged' = judged + 1
            /\ UNCHANGED <<kind, cache, script, base, stored, seen>>
       [] e.op = "detect" ->
            /\ Judge(Explain(LAMBDA F : DetectOk(e, F), {"FX07h"}))
            /\ judged' = judged + 1
            /\ UNCHANGED <<kind, cache, script, base, stored, seen>>
       [] e.op = "raw" ->
            /\ Judge(Explain(LAMBDA F : RawOk(e, F), {"FX07h"}))
            /\ judged' = judged + 1
            /\ UNCHANGED <<kind, cache, script, base, stored, seen>>
       [] e.op = "fault" ->
            /\ Judge(<<FaultOK(e), {}>>)
            /\ judged' = judged + Cardinality(FaultJudged(e))
            /\ UNCHANGED <<kind, cache, script, base, stored, seen>>
       [] e.op = "pem" ->
            /\ Judge(Explain(LAMBDA F : PemOk(e, F), {"FX07d", "FX07e"}))
            /\ judged' = judged + 1
            /\ UNCHANGED <<kind, cache, script, base, stored, seen>>
       [] e.op = "req" ->
            /\ Judge(<<ReqOk(e), {}>>)
            /\ judged' = judged + 1
            /\ UNCHANGED <<kind, cache, script, base, stored, seen>>
       [] e.op \in {"idx", "dat"} ->
            /\ Judge(<<kind = "cdn" /\ CdnOk(e), {}>>)
            /\ stored' = IF e.res.class = "ok" THEN stored \cup {<<e.op, e.k>>} ELSE stored
            /\ seen' = SeenAfter(e)
            /\ judged' = judged + 1
            /\ UNCHANGED <<kind, cache, script, base>>
       [] e.op = "reopen" ->
            /\ stored' = IF cache = "mem" THEN {} ELSE stored
            /\ UNCHANGED <<kind, cache, script, base, seen, viol, devs, judged>>
       [] OTHER ->                 \* "hang" (the call never returned) or an unknown event
            /\ viol' = Append(viol, l)
            /\ UNCHANGED <<kind, cache, script, base, stored, seen, devs, judged>>
  /\ l' = l + 1

TNext == Step
Done == (l = Len(Rec) + 1) =>
  PrintT(<<"VERDICT", ToJson([events |-> Len(Rec), violations |-> viol, deviations |-> devs, judged |-> judged])>>)
=============================================================================
