------------------------------ MODULE T_CrashFS ------------------------------
(***************************************************************************)
(* Binding G from a real trace: steps FS.tla through the file-system calls *)
(* that the real save routines issued (recorded with strace, normalised by *)
(* checks/c06.py) and, at every position, takes Crash in every admissible  *)
(* way.  Every distinct post-crash directory is printed as a SCENARIO line;*)
(* drv_crash builds it byte-exactly and runs the real recovery on it.      *)
(*                                                                         *)
(* Trace (IOEnv.TRACE, one JSON object per line; names relative to the     *)
(* sandbox directory of the case):                                         *)
(*   {"op":"new","case":id,"files":[{"name":n,"len":k}..],"dirs":[..]}     *)
(*        run boundary: the durable directory before the save              *)
(*   {"op":"open","name":n,"creat":b,"trunc":b}                            *)
(*   {"op":"write","name":n,"off":o,"len":k,"src":"w<event>"}              *)
(*   {"op":"trunc","name":n,"len":k}   {"op":"fsync","name":n}             *)
(*   {"op":"rename","from":a,"to":b}   {"op":"unlink","name":n}            *)
(*   {"op":"mkdir","name":n} {"op":"rmdir","name":n} {"op":"dirsync"}      *)
(*                                                                         *)
(* A crash state is terminal.  The VIEW drops the position from crash      *)
(* states, so a directory that several crash instants produce is recovered *)
(* once ("generated" counts crash instants x outcomes, "distinct" counts   *)
(* different directories).                                                 *)
(***************************************************************************)
EXTENDS FS, Json, IOUtils

CONSTANT Strict    \* TRUE: DirOpsPrefix variant (informational)

Rec == ndJsonDeserialize(IOEnv.TRACE)

VARIABLES l,     \* next event
          fs,    \* FS.tla state after events 1..l-1 of the current case
          case,  \* id of the current case
          base,  \* index of its "new" event
          bad,   \* events the model could not apply (-> inconclusive)
          out    \* [on |-> FALSE] or the crash scenario

vars == <<l, fs, case, base, bad, out>>

TInit == l = 1 /\ fs = FsEmpty /\ case = "" /\ base = 0 /\ bad = <<>> /\ out = [on |-> FALSE]

Step ==
  /\ ~out.on /\ l <= Len(Rec)
  /\ LET e == Rec[l] IN
     IF e.op = "new"
     THEN fs' = FsInit(e.files, e.dirs) /\ case' = e.case /\ base' = l /\ bad' = bad
     ELSE IF Applicable(fs, e)
          THEN fs' = ApplyEv(fs, e) /\ UNCHANGED <<case, base, bad>>
          ELSE fs' = fs /\ bad' = Append(bad, l) /\ UNCHANGED <<case, base>>
  /\ l' = l + 1 /\ out' = out

Crash ==
  /\ ~out.on /\ case # ""
  /\ \E d \in CrashDisks(fs, Strict) :
        out' = [on |-> TRUE, case |-> case, pos |-> l - 1 - base,
                mode |-> IF Strict THEN "dirops_prefix" ELSE "c06",
                dirs |-> d.dirs, files |-> d.files]
  /\ UNCHANGED <<l, fs, case, base, bad>>

TNext == Step \/ Crash

View == IF out.on THEN <<0, out.case, out.dirs, out.files>> ELSE <<l, "", {}, {}>>

Emit == out.on => PrintT(<<"SCENARIO", ToJson(out)>>)
Fin == (l = Len(Rec) + 1 /\ ~out.on) => PrintT(<<"FSDONE", ToJson([events |-> Len(Rec), bad |-> bad])>>)
=============================================================================
