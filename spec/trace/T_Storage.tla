----------------------------- MODULE T_Storage -----------------------------
(***************************************************************************)
(* Trace monitor (binding T) for executions of the real local storage      *)
(* (harness/src/bin/drv_storage.rs).  Total: every event is consumed and   *)
(* judged.  The judge is the property level of Storage.tla (AReadOk); the  *)
(* code-shaped level is advanced with the *logged* offsets and is used     *)
(* only to decide whether a non-conforming read is exactly what a listed   *)
(* deviation predicts (CReadPred).  All monitor state is a function of the *)
(* inputs and logged facts, so there is nothing to resynchronise after a   *)
(* bad event: the next event is judged on its own.                         *)
(*                                                                         *)
(* Events (one JSON object per line):                                      *)
(*  {"op":"new","comp":c,...}                                run boundary  *)
(*  {"op":"write","p":n,"seq":i,"len":l,"md5":m,"blte0":b,"blte30":b,      *)
(*   "off":o,"end":e,"res":"ok"|"err:Kind"|"panic","dlen":f}               *)
(*  {"op":"read","p":n,"seq":i,"q":"t"|"f"|"na"|..,"res":..,"len":l,       *)
(*   "md5":m,"dlen":f}             len/md5 of the bytes that came back     *)
(*  {"op":"remove"|"flushb","p":n,..} {"op":"flush"|"reopen"|"compact",..} *)
(*  {"op":"hang",..}               the call never returned                 *)
(*  {"op":"loc","via":v,"id":i,"off":o,"size":s,"rid":..,"roff":..,        *)
(*   "rsize":..[,"bytes":[b1..b5]],"res":"ok","seq":n}    binding E        *)
(***************************************************************************)
EXTENDS Storage, Sequences, Json, IOUtils

Rec == ndJsonDeserialize(IOEnv.TRACE)

VARIABLES l,      \* position in Rec
          comp,   \* component of the current run
          seq,    \* last sequence number seen in the current run
          a,      \* property-level state (Storage!A0 ...)
          c,      \* code-shaped ghost, advanced with logged offsets
          w,      \* payload name -> what was written under it (from write events: inputs only)
          viol,   \* line numbers of events nothing explains (the first MaxViol of them)
          nviol,  \* how many there were
          devs,   \* the first MaxDevs <<line, finding>> pairs explained by a listed deviation (samples)
          ndev,   \* finding id -> number of events it explained
          nexact, nwrites,  \* anti-vacuity counters: exact reads of live objects, successful writes
          nloc              \* ... and location round trips evaluated (binding E)

MaxDevs == 40
MaxViol == 2000
DevIds  == {"F04a", "F04b", "F04c"}
\* only the position distinguishes monitor states (keeps fingerprinting independent of the lists)
View == l

NoDesc == [len |-> 0, md5 |-> "", blte0 |-> FALSE, blte30 |-> FALSE]
DescIn(ww, p) == IF p \in DOMAIN ww THEN ww[p] ELSE NoDesc

\* outcome class of a read event
Out(e, ww) ==
  IF e.res = "ok"
  THEN (IF e.p \in DOMAIN ww /\ e.md5 = ww[e.p].md5 /\ e.len = ww[e.p].len THEN "exact" ELSE "other")
  ELSE IF e.res = "panic" THEN "panic" ELSE "err"

\* Dev_<Fid>: the event is not what the property allows, and it is exactly what the
\* code-shaped model with the listed deviation predicts (outcome class, error value,
\* query answer); `why` names the deviation whose guard was true.
DevOf(e, out, pred) ==
  IF /\ pred.why \in KnownDeviations
     /\ out \in pred.outs
     /\ (out = "err" => (pred.errs = {} \/ e.res \in pred.errs))
     /\ e.q = pred.q
  THEN pred.why ELSE "none"

TInit == /\ l = 1 /\ comp = "dyn" /\ seq = 0 /\ a = A0 /\ c = C0 /\ w = [x \in {} |-> NoDesc]
         /\ viol = <<>> /\ nviol = 0 /\ devs = <<>> /\ ndev = [f \in DevIds |-> 0] /\ nexact = 0 /\ nwrites = 0 /\ nloc = 0

Good == UNCHANGED <<viol, nviol, devs, ndev>>
Bad  == /\ viol' = (IF Len(viol) < MaxViol THEN Append(viol, l) ELSE viol) /\ nviol' = nviol + 1
        /\ UNCHANGED <<devs, ndev>>
Deviates(f) == /\ UNCHANGED <<viol, nviol>> /\ ndev' = [ndev EXCEPT ![f] = @ + 1]
               /\ devs' = IF Len(devs) < MaxDevs THEN Append(devs, <<l, f>>) ELSE devs

Step ==
  /\ l <= Len(Rec)
  /\ LET e == Rec[l] IN
     IF e.op = "new" THEN
        /\ comp' = e.comp /\ seq' = 0 /\ a' = A0 /\ c' = C0 /\ w' = [x \in {} |-> NoDesc]
        /\ UNCHANGED <<viol, nviol, devs, ndev, nexact, nwrites, nloc>>
     ELSE IF e.op = "hang" THEN
        /\ Bad /\ UNCHANGED <<comp, seq, a, c, w, nexact, nwrites, nloc>>
     ELSE
        LET seqok == e.seq = seq + 1
            nopanic == e.res # "panic"
        IN
        /\ comp' = comp /\ seq' = e.seq
        /\ CASE e.op = "write" ->
                  LET ok == e.res = "ok" IN
                  /\ a' = AWrite(a, e.p, ok)
                  /\ c' = IF ok THEN CWrite(c, comp, e.p, e["end"]) ELSE c
                  /\ w' = (e.p :> [len |-> e.len, md5 |-> e.md5, blte0 |-> e.blte0, blte30 |-> e.blte30]) @@ w
                  /\ nwrites' = IF ok THEN nwrites + 1 ELSE nwrites
                  /\ nexact' = nexact /\ nloc' = nloc
                  /\ IF seqok /\ nopanic THEN Good ELSE Bad
             [] e.op = "read" ->
                  LET out   == Out(e, w)
                      ideal == AReadOk(a, e.p, out, e.q)
                      pred  == CReadPred(c, comp, e.p, DescIn(w, e.p))
                      dev   == IF ideal THEN "none" ELSE DevOf(e, out, pred)
                  IN
                  /\ a' = a /\ w' = w
                  /\ c' = CReadDone(c, comp, e.p, e.res = "ok")
                  /\ nwrites' = nwrites /\ nloc' = nloc
                  /\ nexact' = IF out = "exact" /\ e.p \in a.live THEN nexact + 1 ELSE nexact
                  /\ IF seqok /\ ideal THEN Good
                     ELSE IF seqok /\ dev # "none" THEN Deviates(dev)
                     ELSE Bad
             [] e.op = "remove" ->
                  /\ a' = ARemove(a, e.p) /\ c' = CRemove(c, comp, e.p)
                  /\ UNCHANGED <<w, nexact, nwrites, nloc>>
                  /\ IF seqok /\ nopanic THEN Good ELSE Bad
             [] e.op \in {"flush", "flushb"} ->
                  /\ a' = a /\ c' = (IF e.res = "ok" THEN CFlush(c, comp) ELSE c)
                  /\ UNCHANGED <<w, nexact, nwrites, nloc>>
                  /\ IF seqok /\ nopanic THEN Good ELSE Bad
             [] e.op = "reopen" ->
                  /\ a' = a /\ c' = CReopen(c, e.dlen)
                  /\ UNCHANGED <<w, nexact, nwrites, nloc>>
                  /\ IF seqok /\ nopanic THEN Good ELSE Bad
             [] e.op = "loc" ->
                  \* binding E: a location (archive id, offset) and size pushed through one of the places
                  \* that serialise it (e.via) must come back identical, and where the 5 location bytes
                  \* were recorded they must be PackLoc of the location
                  LET same  == e.rid = e.id /\ e.roff = e.off /\ e.rsize = e.size
                      bytes == ("bytes" \in DOMAIN e) => (e.bytes = PackLoc(e.id, e.off) /\
                                                          UnpackLoc(e.bytes) = [id |-> e.id, off |-> e.off])
                  IN
                  /\ UNCHANGED <<a, c, w, nexact, nwrites>> /\ nloc' = nloc + 1
                  /\ IF seqok /\ nopanic /\ LocOk(e.id, e.off) /\ same /\ bytes THEN Good ELSE Bad
             [] OTHER ->    \* compact and anything that does not touch the model
                  /\ UNCHANGED <<a, c, w, nexact, nwrites, nloc>>
                  /\ IF seqok /\ nopanic THEN Good ELSE Bad
  /\ l' = l + 1

TNext == Step
Done == (l = Len(Rec) + 1) =>
  PrintT(<<"VERDICT", ToJson([events |-> Len(Rec), violations |-> viol, nviol |-> nviol, deviations |-> devs,
                              dev_F04a |-> ndev["F04a"], dev_F04b |-> ndev["F04b"], dev_F04c |-> ndev["F04c"],
                              exact_reads |-> nexact, ok_writes |-> nwrites, loc_evals |-> nloc])>>)
=============================================================================
