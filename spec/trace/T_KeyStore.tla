----------------------------- MODULE T_KeyStore -----------------------------
(***************************************************************************)
(* Trace monitor (binding T / E) for the key-store runs of drv_bookkeeping *)
(* (kinds "ks" and "kr").  Total and resynchronising: every event is       *)
(* judged with the operators of KeyStore.tla; after an event that the      *)
(* specification does not explain the model is reset to the logged         *)
(* projection.                                                             *)
(*                                                                         *)
(* Events (one JSON object per line):                                      *)
(*  {"op":"new","kind":"ks","init":"empty"|"new","via":..,"obs":O}         *)
(*  {"op":"add","id":N,"key":[16 bytes],"res":R,"seq":n,"obs":O}           *)
(*  {"op":"remove"|"get","id":N,..}  {"op":"load","fmt":..,"cp":[..],..}   *)
(*  {"op":"from_hex","cp":[..],..} {"op":"load_keys"|"save_keys"|"debug"}  *)
(*  O = {"len":N,"empty":b,"ids":[N..],"pairs":[[N,[key]]..],              *)
(*       "gets":[[N,[key]|[]]..],"has":[[N,b]..] (,"bk":O through the      *)
(*       backend itself, via = "custom")}                                  *)
(*  R = {"ok":v} | {"err":text} | {"outcome":"panic",..}                   *)
(*  {"op":"new","kind":"kr"} and add / get / get_id / roundtrip / to_store *)
(*  with "obs":{"entries":[[idcp,valcp]..],"len":n,"empty":b,"valid":b}    *)
(*                                                                         *)
(* Known deviations (precise guards; enabled by KnownDeviations):          *)
(*  FX11d  op = "debug" on a non-empty store: the derived Debug prints the *)
(*         key bytes (KS5).                                                *)
(*  FX11e  via = "custom" (backend with approximate key_count and exact    *)
(*         is_empty override): UnifiedKeyStore::is_empty differs from the  *)
(*         backend's answer, everything else agrees (KS4).                 *)
(*  FX11f  op = "load", the content starts with U+FEFF and the outcome is  *)
(*         the one of a loader that takes the mark as part of the first    *)
(*         line (KS2).                                                     *)
(***************************************************************************)
EXTENDS KeyStore, Json, IOUtils

CONSTANT KnownDeviations
Rec == ndJsonDeserialize(IOEnv.TRACE)

VARIABLES l,      \* position in Rec
          m       \* monitor state: [s, run = [kind, init, via] of the current run, seq, viol, devs]

Has(r, f)   == f \in DOMAIN r
IsPanic(r)  == Has(r, "outcome")
IsOkR(r)    == Has(r, "ok")
SeqSet(q)   == {q[i] : i \in 1..Len(q)}
Known(f)    == f \in KnownDeviations

\* ---- the projection -----------------------------------------------------------
ObsWellFormed(o) == /\ ~IsPanic(o) /\ ~Has(o, "failed")
                    /\ \A i \in 1..Len(o.pairs) : Len(o.pairs[i][2]) = 1
ObsPairs(o) == {<<o.pairs[i][1], o.pairs[i][2][1]>> : i \in 1..Len(o.pairs)}
NoDupIds(o) == Cardinality({o.pairs[i][1] : i \in 1..Len(o.pairs)}) = Len(o.pairs)
\* everything but len / empty, against the model map
MapOk(st, o) ==
  /\ ObsWellFormed(o) /\ NoDupIds(o)
  /\ ObsPairs(o) = Pairs(st)
  /\ Len(o.ids) = Cardinality(DOMAIN st) /\ SeqSet(o.ids) = DOMAIN st
  /\ \A i \in 1..Len(o.gets) : o.gets[i][2] = Look(st, o.gets[i][1])
  /\ \A i \in 1..Len(o.has) : o.has[i][2] = (o.has[i][1] \in DOMAIN st)
BooksOk(st, o) == o.len = BnOfNat(Cardinality(DOMAIN st)) /\ o.empty = (DOMAIN st = {})
\* KS4: through the UnifiedKeyStore = through its backend
SameButEmpty(o) == /\ o.len = o.bk.len /\ o.ids = o.bk.ids /\ o.pairs = o.bk.pairs
                   /\ o.gets = o.bk.gets /\ o.has = o.bk.has
\* classes: "ok", a finding id, or "bad"
ObsClass(st, o, via) ==
  IF via # "custom" THEN (IF MapOk(st, o) /\ BooksOk(st, o) THEN "ok" ELSE "bad")
  ELSE IF ~(MapOk(st, o) /\ Has(o, "bk") /\ MapOk(st, o.bk) /\ SameButEmpty(o) /\ o.bk.empty = (DOMAIN st = {})) THEN "bad"
  ELSE IF o.empty = o.bk.empty THEN "ok"
  ELSE "FX11e"

\* ---- operations -------------------------------------------------------------------
\* result class and next model state of one ks event
LoadClass(st, e) ==
  LET P == ObsPairs(e.obs) IN
  IF ~IsOkR(e.res) \/ ~ObsWellFormed(e.obs) THEN "bad"
  ELSE IF LoadOk(st, Classes(e.cp, e.fmt, TRUE), e.res.ok, P) THEN "ok"
  ELSE IF e.cp # <<>> /\ e.cp[1] = BOM /\ LoadOk(st, Classes(e.cp, e.fmt, FALSE), e.res.ok, P) THEN "FX11f"
  ELSE "bad"
FromHexOk(e) ==
  LET c == FromHexClass(e.cp) IN
  IF IsOkR(e.res) THEN c.c \in {"ok", "may"} /\ e.res.ok.key \in c.keys /\ e.res.ok.id = <<7>>
  ELSE Has(e.res, "err") /\ c.c \in {"err", "may"}
DebugClass(st, e) ==
  IF ~IsOkR(e.res) THEN "bad"
  ELSE IF Redacted(e.res.ok.store, st) /\ Redacted(e.res.ok.key, st) THEN "ok"
  ELSE "FX11d"
KsStep(st, e) ==      \* [st |-> next model state, cls |-> class of the operation itself]
  CASE e.op = "add"    -> [st |-> AddR(st, e.id, e.key).st, cls |-> IF IsOkR(e.res) /\ e.res.ok = TRUE THEN "ok" ELSE "bad"]
    [] e.op = "remove" -> [st |-> RemoveR(st, e.id).st, cls |-> IF IsOkR(e.res) /\ e.res.ok = RemoveR(st, e.id).res THEN "ok" ELSE "bad"]
    [] e.op = "get"    -> [st |-> st, cls |-> IF IsOkR(e.res) /\ e.res.ok = Look(st, e.id) THEN "ok" ELSE "bad"]
    [] e.op = "load"   -> LET c == LoadClass(st, e) IN [st |-> IF c = "bad" THEN st ELSE OfPairs(ObsPairs(e.obs)), cls |-> c]
    [] e.op = "from_hex" -> [st |-> st, cls |-> IF FromHexOk(e) THEN "ok" ELSE "bad"]
    [] e.op = "debug"  -> [st |-> st, cls |-> DebugClass(st, e)]
    [] e.op = "load_keys" -> [st |-> st, cls |-> IF IsOkR(e.res) /\ ObsWellFormed(e.obs) /\ ObsPairs(e.obs) = Pairs(st) THEN "ok" ELSE "bad"]
    [] e.op = "save_keys" -> [st |-> st, cls |-> IF IsOkR(e.res) THEN "ok" ELSE "bad"]
    [] OTHER -> [st |-> st, cls |-> "bad"]

\* ---- keyring runs --------------------------------------------------------------------
KrObsOk(k, o) == /\ ~IsPanic(o) /\ o.entries = k /\ o.len = Len(k) /\ o.empty = (k = <<>>) /\ o.valid = KrValid(k)
ToStoreOk(k, r) ==
  KrValid(k) =>
    /\ \A i \in 1..Len(r.converted) : r.converted[i]
    /\ Len(r.converted) = Len(k)
    /\ {<<r.pairs[i][1], r.pairs[i][2]>> : i \in 1..Len(r.pairs)} = Pairs(KrStore(k, 1, KS0))
    /\ \A i \in 1..Len(r.pairs) :
         /\ KrGetIdOk(k, r.pairs[i][1], r.pairs[i][3])
         /\ Cardinality(KrMatchesN(k, r.pairs[i][1])) = 1 => KeyBytes(r.pairs[i][3][1]) = r.pairs[i][2]
KrStep(k, e) ==
  CASE e.op = "add" -> [st |-> KrAdd(k, e.idcp, e.valcp), cls |-> IF IsOkR(e.res) THEN "ok" ELSE "bad"]
    [] e.op = "get" -> [st |-> k, cls |-> IF IsOkR(e.res) /\ KrGetOk(k, e.idcp, e.res.ok) THEN "ok" ELSE "bad"]
    [] e.op = "get_id" -> [st |-> k, cls |-> IF IsOkR(e.res) /\ KrGetIdOk(k, e.id, e.res.ok) THEN "ok" ELSE "bad"]
    [] e.op = "roundtrip" -> [st |-> k, cls |-> IF ~IsPanic(e.res) /\ (KrValid(k) => IsOkR(e.res) /\ e.res.ok.entries = k) THEN "ok" ELSE "bad"]
    [] e.op = "to_store" -> [st |-> k, cls |-> IF IsOkR(e.res) /\ ToStoreOk(k, e.res.ok) THEN "ok" ELSE "bad"]
    [] OTHER -> [st |-> k, cls |-> "bad"]

\* ---- the monitor ---------------------------------------------------------------------------
\* The monitor state is ONE record assigned once per step (a LET-bound judgement used in several primed
\* conjuncts would be re-evaluated per conjunct); s follows it.
M0 == [s |-> KS0, run |-> [kind |-> "none", init |-> "empty", via |-> "direct"], seq |-> 0, viol |-> <<>>, devs |-> <<>>]
TInit == l = 1 /\ m = M0 /\ s = KS0 /\ res = "ok"

Worst(a, b) == IF a = "bad" \/ b = "bad" THEN "bad" ELSE IF a # "ok" THEN a ELSE b

After(mm, e, ln) ==
  IF e.op = "new" THEN
     IF e.kind = "ks" THEN
        LET wf   == ObsWellFormed(e.obs)
            st0  == IF wf THEN OfPairs(ObsPairs(e.obs)) ELSE KS0
            good == wf /\ InitOk(e.init, ObsPairs(e.obs)) /\ ObsClass(st0, e.obs, e.via) = "ok"
        IN [mm EXCEPT !.s = st0, !.run = [kind |-> "ks", init |-> e.init, via |-> e.via], !.seq = 0,
                      !.viol = IF good THEN @ ELSE Append(@, ln)]
     ELSE [mm EXCEPT !.s = <<>>, !.run = [kind |-> e.kind, init |-> "empty", via |-> "direct"], !.seq = 0,
                     !.viol = IF e.kind = "kr" THEN @ ELSE Append(@, ln)]
  ELSE IF e.op = "hang" THEN [mm EXCEPT !.viol = Append(@, ln)]
  ELSE
     LET ks   == mm.run.kind = "ks"
         x    == IF ks THEN KsStep(mm.s, e) ELSE KrStep(mm.s, e)
         oc   == IF IsPanic(e.res) THEN "bad"
                 ELSE IF ks THEN ObsClass(x.st, e.obs, mm.run.via)
                 ELSE IF KrObsOk(x.st, e.obs) THEN "ok" ELSE "bad"
         cls  == IF IsPanic(e.res) THEN "bad" ELSE Worst(x.cls, oc)
         expl == cls = "ok" \/ (cls # "bad" /\ Known(cls))
         next == IF cls # "bad" THEN x.st
                 ELSE IF ks THEN (IF ~IsPanic(e.obs) /\ ObsWellFormed(e.obs) THEN OfPairs(ObsPairs(e.obs)) ELSE mm.s)
                 ELSE (IF ~IsPanic(e.obs) THEN e.obs.entries ELSE mm.s)
     IN [mm EXCEPT !.s = next, !.seq = e.seq,
                   !.viol = IF expl /\ e.seq = mm.seq + 1 THEN @ ELSE Append(@, ln),
                   !.devs = IF expl /\ cls # "ok" THEN Append(@, <<ln, cls>>) ELSE @]

Step == /\ l <= Len(Rec)
        /\ m' = After(m, Rec[l], l)
        /\ s' = m'.s /\ res' = res
        /\ l' = l + 1

TNext == Step
Done == (l = Len(Rec) + 1) =>
  PrintT(<<"VERDICT", ToJson([events |-> Len(Rec), violations |-> m.viol, deviations |-> m.devs])>>)
=============================================================================
