---------------------------- MODULE T_Containers ----------------------------
(***************************************************************************)
(* Trace monitor (binding T) for executions of the real containers         *)
(* (harness/src/bin/drv_containers.rs).  Total: every event is consumed    *)
(* and judged.  An event conforms iff one candidate of Containers.tla for  *)
(* its operation has the logged result class and the logged projection,    *)
(* and needs no deviation that is not listed in KnownDeviations; the       *)
(* monitor continues from that candidate's state.  After an event nothing  *)
(* explains, the observable part of the state is taken from the log.       *)
(*                                                                         *)
(* Events: {"op":"new","comp":c,...} starts a run; every other event is    *)
(* the program's operation record plus "seq", "res", "rc" (lexical class   *)
(* of res: ok | err | panic), operation specific facts and "obs", the      *)
(* state read back through the public API and from the file system.        *)
(***************************************************************************)
EXTENDS Containers, Json, IOUtils

Rec == ndJsonDeserialize(IOEnv.TRACE)

\* w (inherited): state of the component of the current run
VARIABLES l,       \* position in Rec
          cfg,     \* the run's "new" event
          seq,     \* last sequence number of the run
          pfs,     \* directory digest(s) seen at the previous event
          viol, nviol, devs, ndev,
          cnt,     \* anti-vacuity counters
          jv       \* the judgement of the last event (a variable so that TLC evaluates Judge once per event)
View == l

DevIds  == {"FX03a", "FX03b", "FX03c", "FX03d", "FX03e", "FX03f", "FX03g"}
CntIds  == {"touch", "cutread", "exact", "denied", "hquery", "stale", "sexact", "rtrait"}
MaxViol == 2000
MaxDevs == 60

ResMatch(cls, r, rc) == cls = r \/ (cls = "err" /\ rc = "err")
Names(c) == IF c.comp \in {"dyn", "static"} THEN {c.pl[i][1] : i \in 1..Len(c.pl)} ELSE SeqToSet(c.keys)

\* first index of q satisfying P, or 0; every P(q[i]) is evaluated at most once (at most 8 candidates exist)
FirstIdx(q, P(_)) ==
  LET n == Len(q) IN
  IF n >= 1 /\ P(q[1]) THEN 1 ELSE IF n >= 2 /\ P(q[2]) THEN 2 ELSE IF n >= 3 /\ P(q[3]) THEN 3 ELSE IF n >= 4 /\ P(q[4]) THEN 4
  ELSE IF n >= 5 /\ P(q[5]) THEN 5 ELSE IF n >= 6 /\ P(q[6]) THEN 6 ELSE IF n >= 7 /\ P(q[7]) THEN 7 ELSE IF n >= 8 /\ P(q[8]) THEN 8
  ELSE IF n > 8 THEN Assert(FALSE, "more than 8 candidates") ELSE 0

(* ------------------------------- dyn ---------------------------------- *)
DClass(e) ==
  IF e.op # "read" THEN e.res
  ELSE IF e.res # "ok" THEN e.res
  ELSE IF e.md5 = e.smd5 THEN "exact" ELSE IF e.md5 = e.wmd5 THEN "whole" ELSE "other"
DProjOK(d, names, o) ==
  LET p == DProj(d, names) IN
  /\ DOMAIN o.q = names /\ DOMAIN o.rres = names
  /\ \A n \in names : o.q[n] = p.q[n] /\ o.rres[n] = p.rres[n]
  /\ o.cnt = p.cnt /\ o.order = p.order /\ o.llen = Len(p.order)
  /\ SeqToSet(o.scan) = p.scan /\ Len(o.scan) = Cardinality(p.scan) /\ o.count = p.count
DSpansOK(d, o) ==
  ResWritable(d) =>
    \A n \in DOMAIN d.r.st : d.r.st[n] = "S" =>
       n \in DOMAIN o.spans /\ o.spans[n][3] = 7 /\ SpanInside(o.spans[n][1], o.spans[n][2], d.cut[n])
DFrozenOK(d, e, prev) == (~CanWrite(d.mode) /\ e.op \notin {"reopen", "trunc"}) => e.obs.fs = prev
DResync(d, names, o) ==
  [d EXCEPT !.c.idx = {n \in names : o.q[n] = "t"}, !.c.disk = {n \in names : o.q[n] = "t"},
            !.lru.order = o.order,
            !.r.st = [n \in names |-> IF o.rres[n] THEN "R" ELSE IF n \in DOMAIN o.spans /\ o.spans[n][3] = 7 THEN "S" ELSE "N"],
            !.cut = [n \in names |-> <<0, 0, 0 - 1>>]]

(* ------------------------------ static -------------------------------- *)
SClass(e) == IF e.op # "sread" \/ e.res # "ok" THEN e.res ELSE IF e.md5 = e.wmd5 THEN "exact" ELSE "other"

(* -------------------------------- hl ---------------------------------- *)
HProjOK(h, keys, o) ==
  /\ DOMAIN o.fs = keys
  /\ \A k \in keys : o.fs[k] = HShow(h, <<"t", k>>)
  /\ o["in"] = HShow(h, <<"in">>) /\ o.out = HShow(h, <<"out">>)
  /\ o.s1 = HShow(h, <<"s", "s1">>) /\ o.s2 = HShow(h, <<"s", "s2">>)
  /\ o.sup = h.sup
\* the queries of an observation, in order: [ok, dev, st]
RECURSIVE HFold(_, _, _, _, _, _)
HFold(h, qs, i, cap, ok, dev) ==
  IF i > Len(qs) THEN [ok |-> ok, dev |-> dev, st |-> h]
  ELSE LET j == HQuery(h, qs[i][1], qs[i][2], cap) IN HFold(j.st, qs, i + 1, cap, ok /\ j.ok, dev \cup j.dev)
HObsQ(h, o, cap) == IF "q" \in DOMAIN o THEN HFold(h, o.q, 1, cap, TRUE, {}) ELSE [ok |-> TRUE, dev |-> {}, st |-> h]

(* ------------------------------ judging ------------------------------- *)
\* [ok, st (next state), dev (set of finding ids used), tags (counters to bump)]
JudgeDyn(e) ==
  LET names == Names(cfg)
      cs    == DCands(w, e)
      cls   == DClass(e)
      fits(c) == /\ ResMatch(c.res, cls, e.rc) /\ c.dev \subseteq KnownDeviations
                 /\ DProjOK(c.st, names, e.obs) /\ DSpansOK(c.st, e.obs) /\ ("FX03f" \in c.dev \/ DFrozenOK(w, e, pfs))
      i     == FirstIdx(cs, fits)
  IN IF i > 0
     THEN [ok |-> TRUE, st |-> cs[i].st, dev |-> cs[i].dev,
           tags |-> (IF e.op \in {"read", "write"} /\ e.res = "ok" /\ w.lruOn /\ w.cap > 0 THEN {"touch"} ELSE {}) \cup
                    (IF cls = "err:TruncatedRead" THEN {"cutread"} ELSE {}) \cup
                    (IF cls = "exact" THEN {"exact"} ELSE {}) \cup
                    (IF cls = "err:AccessDenied" THEN {"denied"} ELSE {})]
     ELSE [ok |-> FALSE, st |-> DResync(cs[1].st, names, e.obs), dev |-> {}, tags |-> {}]

JudgeRes(e) ==
  LET names == Names(cfg)
      cs    == IF e.res \in {"ok", "err"} THEN ResCands(w.r, w.mode, names, e) ELSE <<>>
      fits(c) == /\ c.dev \subseteq KnownDeviations /\ R!RObsOK(c.st.st, names, e.obs)
                 /\ ((c.dev = {} /\ ~CanWrite(w.mode) /\ e.op # "reload") => e.obs.fs = pfs)
      i     == FirstIdx(cs, fits)
      m2    == IF e.op = "reload" THEN e.mode ELSE w.mode
  IN IF i > 0
     THEN [ok |-> TRUE, st |-> [r |-> cs[i].st, mode |-> m2], dev |-> cs[i].dev,
           tags |-> (IF e.op \in {"cremove", "creserve", "cread", "cwrite"} THEN {"rtrait"} ELSE {}) \cup
                    (IF e.res = "err" /\ e.op \notin {"cread", "cwrite"} THEN {"denied"} ELSE {})]
     ELSE [ok |-> FALSE, st |-> [r |-> R!RResync(w.r, names, e), mode |-> m2], dev |-> {}, tags |-> {}]

JudgeStatic(e) ==
  LET names == Names(cfg)
      cs    == SCands(w, e)
      cls   == SClass(e)
      fits(c) == /\ ResMatch(c.res, cls, e.rc) /\ SObsOK(c.st, names, e.obs)
                 /\ (e.op \notin {"dwrite", "dremove"} => e.obs.fs = pfs)
      i     == FirstIdx(cs, fits)
  IN IF i > 0
     THEN [ok |-> TRUE, st |-> cs[i].st, dev |-> {},
           tags |-> (IF cls = "exact" THEN {"sexact"} ELSE {}) \cup (IF cls = "err:AccessDenied" THEN {"denied"} ELSE {})]
     ELSE [ok |-> FALSE, st |-> cs[1].st, dev |-> {}, tags |-> {}]

JudgeHl(e) ==
  LET keys == Names(cfg)
      cap  == cfg.fcap
  IN IF e.op = "query" THEN
        LET j == HQuery(w, e.k, e.res, cap)
            o == HObsQ(j.st, e.obs, cap)
            dev == j.dev \cup o.dev
        IN [ok |-> j.ok /\ o.ok /\ HProjOK(w, keys, e.obs) /\ dev \subseteq KnownDeviations, st |-> o.st, dev |-> dev,
            tags |-> {"hquery"} \cup (IF w.sup /\ e.res # Truth(w, e.k) THEN {"stale"} ELSE {})]
     ELSE
        LET cs == HCands(w, e, cap)
            \* nothing outside the base moves unless the model says the outside place changed
            outOK(c) == HShow(c.st, <<"out">>) = HShow(w, <<"out">>) => e.obs.outd = pfs
            fits(c) == /\ ResMatch(c.res, e.res, e.rc) /\ HProjOK(c.st, keys, e.obs) /\ outOK(c)
                       /\ LET o == HObsQ(c.st, e.obs, cap) IN o.ok /\ (c.dev \cup o.dev) \subseteq KnownDeviations
            i == FirstIdx(cs, fits)
        IN IF i > 0
           THEN LET o == HObsQ(cs[i].st, e.obs, cap) IN
                [ok |-> TRUE, st |-> o.st, dev |-> cs[i].dev \cup o.dev,
                 tags |-> IF e.res = "err:AccessDenied" THEN {"denied"} ELSE {}]
           ELSE [ok |-> FALSE, st |-> HObsQ(cs[1].st, e.obs, cap).st, dev |-> {}, tags |-> {}]

Judge(e) ==
  CASE cfg.comp = "dyn"    -> JudgeDyn(e)
    [] cfg.comp = "res"    -> JudgeRes(e)
    [] cfg.comp = "static" -> JudgeStatic(e)
    [] cfg.comp = "hl"     -> JudgeHl(e)

StartOf(e) ==
  CASE e.comp = "dyn"    -> D0(e.cap, e.lru, e.resm, e.mode)
    [] e.comp = "res"    -> [r |-> R!R0, mode |-> e.mode]
    [] e.comp = "static" -> S0
    [] e.comp = "hl"     -> H0(SeqToSet(e.keys), e.mode, e.sup = "true")
\* the digest the "nothing on disk moves" rules compare with
FsOf(c, o) == IF c.comp = "hl" THEN o.outd ELSE o.fs

NoCfg == [comp |-> "none"]
NoJ == [ok |-> TRUE, st |-> <<>>, dev |-> {}, tags |-> {}]
TInit == /\ l = 1 /\ w = <<>> /\ cfg = NoCfg /\ seq = 0 /\ pfs = ""
         /\ viol = <<>> /\ nviol = 0 /\ devs = <<>> /\ ndev = [f \in DevIds |-> 0] /\ cnt = [x \in CntIds |-> 0] /\ jv = NoJ

Bad == /\ viol' = (IF Len(viol) < MaxViol THEN Append(viol, l) ELSE viol) /\ nviol' = nviol + 1

Step ==
  /\ l <= Len(Rec)
  /\ LET e == Rec[l] IN
     IF e.op = "new" THEN
        /\ cfg' = e /\ w' = StartOf(e) /\ seq' = 0
        /\ pfs' = (IF e.comp = "dyn" THEN e.fs ELSE IF e.comp = "hl" THEN e.outd ELSE IF e.comp = "static" THEN "absent" ELSE "")
        \* the container must have opened
        /\ IF e.comp \in {"dyn", "res", "hl"} /\ e.res # "ok" THEN Bad ELSE UNCHANGED <<viol, nviol>>
        /\ UNCHANGED <<devs, ndev, cnt, jv>>
     ELSE IF e.op = "hang" \/ "obs" \notin DOMAIN e \/ "panic" \in DOMAIN e.obs THEN
        /\ Bad /\ UNCHANGED <<w, cfg, seq, pfs, devs, ndev, cnt, jv>>
     ELSE
        /\ jv' = Judge(e)
        /\ LET good == jv'.ok /\ e.seq = seq + 1 /\ e.rc # "panic"
               dv   == IF good THEN jv'.dev ELSE {}
               tg   == IF good THEN jv'.tags ELSE {}
           IN /\ w' = jv'.st /\ cfg' = cfg /\ seq' = e.seq /\ pfs' = FsOf(cfg, e.obs)
              /\ IF good THEN UNCHANGED <<viol, nviol>> ELSE Bad
              /\ ndev' = IF dv = {} THEN ndev ELSE [f \in DevIds |-> IF f \in dv THEN ndev[f] + 1 ELSE ndev[f]]
              /\ devs' = IF dv # {} /\ Len(devs) < MaxDevs THEN Append(devs, <<l, CHOOSE f \in dv : TRUE>>) ELSE devs
              /\ cnt' = IF tg = {} THEN cnt ELSE [x \in CntIds |-> IF x \in tg THEN cnt[x] + 1 ELSE cnt[x]]
  /\ l' = l + 1

TNext == Step
Done == (l = Len(Rec) + 1) =>
  PrintT(<<"VERDICT", ToJson([events |-> Len(Rec), violations |-> viol, nviol |-> nviol, deviations |-> devs,
                              dev_FX03a |-> ndev["FX03a"], dev_FX03b |-> ndev["FX03b"], dev_FX03c |-> ndev["FX03c"],
                              dev_FX03d |-> ndev["FX03d"], dev_FX03e |-> ndev["FX03e"], dev_FX03f |-> ndev["FX03f"], dev_FX03g |-> ndev["FX03g"],
                              n_touch |-> cnt["touch"], n_cutread |-> cnt["cutread"], n_exact |-> cnt["exact"],
                              n_denied |-> cnt["denied"], n_hquery |-> cnt["hquery"], n_stale |-> cnt["stale"],
                              n_sexact |-> cnt["sexact"], n_rtrait |-> cnt["rtrait"]])>>)
=============================================================================
