------------------------------- MODULE T_Lin -------------------------------
(***************************************************************************)
(* Linearizability monitor (binding T for C11).  Each line of the trace is *)
(* one run: the complete invocation/response history of a concurrent       *)
(* execution of the real cache, with global stamps (inv taken before the   *)
(* call, ret after it returned), including the sequential prefix and the   *)
(* final sequential probes (every key, size, memory).                      *)
(*                                                                         *)
(* Every run is an independent initial state.  TLC searches all orders in  *)
(* which the operations can be linearized consistently with real-time      *)
(* order and with Lin!Outcomes; when all operations of run r have been     *)
(* placed it prints <<"LINOK", r>>.  A run for which no LINOK is printed   *)
(* is not linearizable: the runner reports it.                             *)
(*                                                                         *)
(* relax: the set of known deviations assumed for this search (a second    *)
(* initial state per run when a listed deviation's guard matches the       *)
(* history); a run that is only linearizable under relaxation is reported  *)
(* as that known finding.                                                  *)
(***************************************************************************)
EXTENDS Lin, TLC, Json, IOUtils

CONSTANT KnownDeviations
Rec == ndJsonDeserialize(IOEnv.TRACE)

VARIABLES r, done, m, relax

Ops(i) == Rec[i].ops
Keys(i) == 1..Rec[i].nkeys
Overlap(a, b) == ~(a.ret < b.inv) /\ ~(b.ret < a.inv)
Mutating(o) == o.op \in {"put", "put_exp", "remove", "clear"}

(* Guards of the listed deviations, evaluated on the history of run i.

   F11b  DiskCache: all writers of one key share the temp file "<key>.tmp".
   F11d  DiskCache: the file operation and the index/counter update of put, remove, clear and of get's
         expired-entry and found-on-disk paths are not atomic together.
   Both need two operations that overlap in time and touch the same key (a clear touches every key), at
   least one of them able to change the entry (a put, remove, clear, or a lookup of a key that may hold an
   expired entry or may be absent from the index while its file exists).  For the keys so affected nothing
   is required of the results (RelaxedOutcomes), and the books are not judged; every other key of the run is
   still judged strictly. *)
IsClear(o) == o.op \in {"clear", "clear_k"}
Touches(o, k) == o.op \in {"get", "contains", "put", "put_exp", "remove", "clear_k"} /\ o.k = k
RacyKeys(i) ==
  IF Rec[i].target # "disk" THEN {}
  ELSE {k \in Keys(i) : \E a, b \in 1..Len(Ops(i)) :
          /\ a # b /\ Touches(Ops(i)[a], k) /\ Touches(Ops(i)[b], k) /\ Overlap(Ops(i)[a], Ops(i)[b])
          /\ ~(Ops(i)[a].t = Ops(i)[b].t /\ Ops(i)[a].i = Ops(i)[b].i)}
Applicable(i) == IF RacyKeys(i) # {} THEN KnownDeviations \cap {"F11b", "F11d"} ELSE {}

RelaxedOutcomes(i, o) ==
  IF relax # {} /\ (o.op \in {"size", "mem"} \/ (o.op \in {"get", "contains", "put", "put_exp", "remove", "clear_k"} /\ o.k \in RacyKeys(i)))
  THEN {[st |-> m, res |-> ResOf(o)]}
  ELSE {}

TInit == /\ r \in 1..Len(Rec)
         /\ done = {} /\ m = Empty(Keys(r))
         /\ relax \in {{}} \cup (IF Applicable(r) = {} THEN {} ELSE {Applicable(r)})

TNext ==
  /\ \E o \in 1..Len(Ops(r)) :
       /\ Eligible(Ops(r), done, o)
       /\ \E x \in Outcomes(m, Ops(r)[o]) \cup RelaxedOutcomes(r, Ops(r)[o]) :
            x.res = ResOf(Ops(r)[o]) /\ m' = x.st
       /\ done' = done \cup {o}
  /\ UNCHANGED <<r, relax>>

Complete == done = 1..Len(Ops(r))
Emit == Complete => PrintT(<<"LINOK", ToJson([run |-> r, relax |-> relax])>>)
Count == (r = 1 /\ done = {} /\ relax = {}) => PrintT(<<"RUNS", ToJson([n |-> Len(Rec)])>>)
=============================================================================
