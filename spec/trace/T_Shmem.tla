------------------------------ MODULE T_Shmem ------------------------------
(***************************************************************************)
(* Trace monitor (binding T) for executions of the real shmem primitives   *)
(* by real processes (harness/src/bin/drv_shmem.rs).  Total: every event   *)
(* is consumed.  An event conforms iff Shmem!Apply in the IDEAL semantics  *)
(* (dv = {}) yields the logged result and the logged size of the shared    *)
(* object.  Otherwise the listed findings are tried one by one (dv = {f},  *)
(* f in KnownDeviations), then all together: a match is a *deviation* of   *)
(* that finding (its guard is the place in Apply where "f \in dv" is       *)
(* tested, i.e. component, operation and the condition that was true), and *)
(* the monitor continues from the code-shaped successor state.  An event   *)
(* nothing explains is a VIOLATION; the rest of that run is not judged     *)
(* (its state is unknown), the next run starts afresh.                     *)
(*                                                                         *)
(* Events: {"op":"new","fam":f,"n":N} starts a run; every other event is   *)
(* the program's operation record plus "i" (sequence number), "res" (the   *)
(* answer of the worker process, or "blocked"/"died"/"dead"/"timeout"      *)
(* observed by the controller) and "obs":{"fsz": size of the shm object}.  *)
(***************************************************************************)
EXTENDS Shmem, Json, IOUtils

CONSTANT KnownDeviations
Rec == ndJsonDeserialize(IOEnv.TRACE)

VARIABLES l, st, fam, tainted, seq, jv, viol, devs, cnt
View == l

AllDevs == <<"FX05a", "FX05b", "FX05c", "FX05d", "FX05e", "FX05f", "FX05g", "FX05h", "FX05i", "FX05j", "FX05k", "FX05l">>
Listed  == SelectSeq(AllDevs, LAMBDA d : d \in KnownDeviations)
Cands   == <<{}>> \o [i \in 1..Len(Listed) |-> {Listed[i]}] \o (IF Len(Listed) > 1 THEN <<KnownDeviations>> ELSE <<>>)
AllocBoundKiB == 17408          \* the documented 16 MiB payload cap + 1 MiB
MaxViol == 2000

DigEq(a, b) == a.kind = b.kind /\ a.mid = b.mid /\ a.n = b.n /\ a.ps = b.ps
ResEq(e, x) ==
  IF x.res.r = "any" THEN "r" \in DOMAIN e.res /\ e.res.r \in {"ok", "err"}
  ELSE /\ "r" \in DOMAIN e.res /\ e.res.r = x.res.r
       /\ \A k \in DOMAIN x.res : k \in DOMAIN e.res /\ (IF k \in {"m", "a", "b"} THEN DigEq(e.res[k], x.res[k]) ELSE e.res[k] = x.res[k])
\* the shared objects as anybody sees them: the region's size; for the legacy manager the object under each name
\* (a name the model holds no object for may or may not be left over: not judged)
ObsOK(e, s1) ==
  /\ fam \in {"proto", "rt"} => /\ e.obs.fsz = (IF s1.reg.exists THEN s1.reg.size ELSE 0 - 1)
                                /\ e.obs.ea = (IF s1.reg.exists THEN s1.reg.ea ELSE 0 - 1)
  /\ fam = "mgr" => /\ s1.mg.nm["a"] # 0 => e.obs.na = s1.mg.ob[s1.mg.nm["a"]].sz
                    /\ s1.mg.nm["b"] # 0 => e.obs.nb = s1.mg.ob[s1.mg.nm["b"]].sz
Extra(e) ==
  CASE e.op = "msg_rt" /\ e.res.r = "ok" -> e.res.a.md5 = e.res.b.md5
    [] e.op = "msg_parse" /\ e.res.r \in {"ok", "err"} -> e.res.big_kib <= AllocBoundKiB
    [] OTHER -> TRUE
Match(e, dv) == LET x == Apply(st, e, dv) IN ResEq(e, x) /\ ObsOK(e, x.st) /\ Extra(e)

RECURSIVE FirstCand(_, _)
FirstCand(e, i) == IF i > Len(Cands) THEN 0 ELSE IF Match(e, Cands[i]) THEN i ELSE FirstCand(e, i + 1)

(* Results the statement leaves open, and deviations whose symptom is not a single value. *)
Special(e) ==
  LET p == e.p
      me == IF p \in DOMAIN st.pr THEN st.pr[p] ELSE Proc0 IN
  \* to_mapped's precondition ("the caller must ensure data is large enough (file_size() bytes)") is violated:
  \* a debug assertion may fire (the harness builds with debug assertions), then nothing was written
  IF e.op = "store" /\ me.alive /\ me.cb.some /\ me.map > 0 /\ me.map < FileSize(me.cb) /\ e.res.r = "panic" /\ ObsOK(e, st)
  THEN [ok |-> TRUE, st |-> st, dev |-> {}]
  \* E1 leaves open which of several applicable reasons validate_for_bind reports
  ELSE IF e.op = "bind" /\ me.alive /\ me.cb.some /\ e.res.r \in BindErrs(me.cb) /\ ObsOK(e, st)
  THEN [ok |-> TRUE, st |-> st, dev |-> {}]
  \* M1 leaves the choice of the id open: any id no living connection has
  ELSE IF e.op = "reg" /\ me.alive /\ HasMgr(st.mg, p, e.id) /\ e.res.r = "ok"
          /\ LET m == MgrOf(st.mg, p, e.id) IN e.res.cid \notin m.conns /\ e.res.cid > 0 /\ Cardinality(m.conns) < m.maxc /\ e.res.count = Cardinality(m.conns) + 1
  THEN LET m == MgrOf(st.mg, p, e.id) IN [ok |-> TRUE, st |-> [st EXCEPT !.mg = WithMgr(@, m, [m EXCEPT !.conns = @ \cup {e.res.cid}])], dev |-> {}]
  \* FX05e: a table written with more slots than file_size() bytes hold comes back cut and with its modes shifted:
  \* the header fields are judged, the table is taken from the observation
  ELSE IF e.op = "load" /\ "FX05e" \in KnownDeviations /\ me.alive /\ me.map > 0 /\ st.reg.exists /\ st.reg.ver = 5 /\ st.reg.hp
          /\ st.reg.wmax > SlotsIn(me.map) /\ e.res.r = "some" /\ ObsOK(e, st)
          /\ LET c == LoadR(st.reg, me.map, {}) IN e.res.ver = c.ver /\ e.res.init = c.init /\ e.res.ds = c.ds /\ e.res.ex = IsExcl(c) /\ e.res.hp = c.hp /\ e.res.fsz = FileSize(c)
  THEN [ok |-> TRUE, st |-> WithCb(st, p, FromSnap(e.res)), dev |-> {"FX05e"}]
  \* FX05j: the inner length field lies; the parser reserves what it claims before looking at the input
  ELSE IF e.op = "msg_parse" /\ "FX05j" \in KnownDeviations /\ me.alive
          /\ Fld(e, "lenv", 0) > VarLen(e.kind, e.n) - Fld(e, "cut", 0)
          /\ \/ e.res.r = "err" /\ e.res.big_kib > AllocBoundKiB /\ e.res.big_kib <= (e.lenv \div 1024) + 1024
             \/ e.res.r = "died" /\ e.res.sig = 6 /\ e.lenv > 1073741824
  THEN [ok |-> TRUE, st |-> IF e.res.r = "died" THEN Kill(st, p) ELSE st, dev |-> {"FX05j"}]
  ELSE [ok |-> FALSE, st |-> st, dev |-> {}]

Judge(e) ==
  IF e.op # "unstick" /\ e.p \notin DOMAIN st.pr THEN [ok |-> FALSE, st |-> st, dev |-> {}]
  ELSE LET k == FirstCand(e, 1) IN
       IF k = 1 THEN [ok |-> TRUE, st |-> Apply(st, e, {}).st, dev |-> {}]
       ELSE IF k > 1 THEN
            LET dv == Cands[k]
                who == IF Cardinality(dv) = 1 THEN dv ELSE {d \in dv : ~Match(e, dv \ {d})} IN
            [ok |-> TRUE, st |-> Apply(st, e, dv).st, dev |-> IF who = {} THEN dv ELSE who]
       ELSE Special(e)

Cnt0 == [acq |-> 0, blocked |-> 0, granted |-> 0, load |-> 0, store |-> 0, add |-> 0, remove |-> 0, crash |-> 0, died |-> 0,
         mgr |-> 0, msg |-> 0, unstick |-> 0, skipped |-> 0]
Bump(c, e) ==
  LET k == CASE e.op = "acquire" -> IF e.res.r = "blocked" THEN "blocked" ELSE "acq"
             [] e.op \in {"granted", "load", "store", "add", "remove", "crash", "unstick"} -> e.op
             [] e.op \in {"mnew", "mdrop", "mwrite", "mread", "reg", "unreg", "touch", "cleanup", "stats", "nextid"} -> "mgr"
             [] e.op \in {"msg_rt", "msg_parse"} -> "msg"
             [] OTHER -> "none"
      c1 == IF k = "none" THEN c ELSE [c EXCEPT ![k] = @ + 1]
  IN IF "r" \in DOMAIN e.res /\ e.res.r = "died" THEN [c1 EXCEPT !.died = @ + 1] ELSE c1

TInit == /\ l = 1 /\ st = St0(1) /\ fam = "" /\ tainted = FALSE /\ seq = 0 /\ jv = [ok |-> TRUE, st |-> St0(1), dev |-> {}]
         /\ viol = <<>> /\ devs = [d \in {AllDevs[i] : i \in 1..Len(AllDevs)} |-> 0] /\ cnt = Cnt0

Step ==
  /\ l <= Len(Rec)
  /\ LET e == Rec[l] IN
     IF e.op = "new" THEN
        /\ st' = St0(e.n) /\ fam' = e.fam /\ tainted' = FALSE /\ seq' = 0 /\ jv' = [ok |-> TRUE, st |-> St0(e.n), dev |-> {}]
        /\ UNCHANGED <<viol, devs, cnt>>
     ELSE IF tainted THEN
        /\ cnt' = [cnt EXCEPT !.skipped = @ + 1]
        /\ UNCHANGED <<st, fam, tainted, seq, jv, viol, devs>>
     ELSE
        /\ jv' = IF e.i = seq + 1 THEN Judge(e) ELSE [ok |-> FALSE, st |-> st, dev |-> {}]
        /\ st' = jv'.st /\ fam' = fam /\ seq' = e.i
        /\ tainted' = ~jv'.ok
        /\ viol' = IF jv'.ok \/ Len(viol) >= MaxViol THEN viol ELSE Append(viol, l)
        /\ devs' = [d \in DOMAIN devs |-> IF d \in jv'.dev THEN devs[d] + 1 ELSE devs[d]]
        /\ cnt' = Bump(cnt, e)
  /\ l' = l + 1

TNext == Step
Done == (l = Len(Rec) + 1) =>
  PrintT(<<"VERDICT", ToJson([events |-> Len(Rec), violations |-> viol, deviations |-> <<>>, nviol |-> Len(viol),
                              dev_FX05a |-> devs["FX05a"], dev_FX05b |-> devs["FX05b"], dev_FX05c |-> devs["FX05c"], dev_FX05d |-> devs["FX05d"], dev_FX05e |-> devs["FX05e"], dev_FX05f |-> devs["FX05f"],
                              dev_FX05g |-> devs["FX05g"], dev_FX05h |-> devs["FX05h"], dev_FX05i |-> devs["FX05i"], dev_FX05j |-> devs["FX05j"], dev_FX05k |-> devs["FX05k"], dev_FX05l |-> devs["FX05l"],
                              n_acq |-> cnt.acq, n_blocked |-> cnt.blocked, n_granted |-> cnt.granted, n_load |-> cnt.load, n_store |-> cnt.store, n_add |-> cnt.add, n_remove |-> cnt.remove, n_crash |-> cnt.crash, n_died |-> cnt.died, n_mgr |-> cnt.mgr, n_msg |-> cnt.msg, n_unstick |-> cnt.unstick, n_skipped |-> cnt.skipped])>>)
=============================================================================
