----------------------------- MODULE T_CrashJudge -----------------------------
(***************************************************************************)
(* Trace monitor (binding T) of C06: judges what the REAL recovery code    *)
(* made of every post-crash directory that T_CrashFS derived from the real *)
(* system calls of a save.                                                 *)
(*                                                                         *)
(* Trace (harness/src/bin/drv_crash.rs, one JSON object per line):         *)
(*  {"op":"new","case":id,"routine":r,"ops":[..],"post":[{"name","len"}..], *)
(*   "old":{"ok":b,"proj":{object: canonical string},..},   recovery of the*)
(*   "new":{"ok":b,"proj":{..}}, ..}       directory before / after the save*)
(*  {"op":"recover","seq":n,"pos":p,"mode":"c06"|"dirops_prefix",          *)
(*   "disk":[{"name","cls","len","vlen","dlen","born","gen",..}],          *)
(*   "res":{"ok":b,"proj":{..},..}, "resave":{"ok":b,"same":b,..}}         *)
(*                                                                         *)
(* Judgement per scenario = the property statement:                        *)
(*   - reopening succeeded (res.ok), no panic, no hang;                    *)
(*   - every object (index bucket, residency db, LRU table, cache, journal)*)
(*     shows its complete old or its complete new state - objects are      *)
(*     judged one by one (save_all writes one bucket after the other);     *)
(*   - the store is usable: one more save followed by a reload succeeds;   *)
(*   - leftover temporary files are simply part of the directories (and of  *)
(*     the directories that second-stage histories start from);            *)
(*   - per case: the COMPLETED save shows exactly the new state (NewOk).   *)
(* Old and New are what the same recovery code shows on the directory      *)
(* before the save and after the completed save; projections are compared  *)
(* as canonical strings.  Total and resynchronising by construction: every *)
(* scenario is independent, sequence numbers detect dropped events.        *)
(*                                                                         *)
(* Scenarios of the stricter crash model (mode "dirops_prefix") are        *)
(* informational: counted, never a violation.                              *)
(***************************************************************************)
EXTENDS Naturals, Sequences, FiniteSets, TLC, Json, IOUtils

CONSTANT KnownDeviations
Rec == ndJsonDeserialize(IOEnv.TRACE)

VARIABLES l, hdr, seq, viol,
          nDevD,
          nDevA, nDevB,           \* scenarios explained by Dev_F06a / Dev_F06b only (counters: a list would make
                                  \* every state as large as the number of deviations seen so far)
          firstDev,               \* the first 20 scenarios explained by a deviation: <<line, finding>>
          nOld, nNew, nSame,      \* how the conforming recoveries came out (evidence of non-vacuity)
          nStrictBad              \* non-conforming scenarios of the informational crash model

Has(r, f) == f \in DOMAIN r
Val(p, o) == IF o \in DOMAIN p THEN p[o] ELSE "absent"
Objs(e) == (DOMAIN hdr.old.proj) \cup (DOMAIN hdr.new.proj) \cup (DOMAIN e.res.proj)

IsOld(e) == \A o \in Objs(e) : Val(e.res.proj, o) = Val(hdr.old.proj, o)
IsNew(e) == \A o \in Objs(e) : Val(e.res.proj, o) = Val(hdr.new.proj, o)
OldOrNew(e) == \A o \in Objs(e) : Val(e.res.proj, o) \in {Val(hdr.old.proj, o), Val(hdr.new.proj, o)}

Conforms(e) == /\ e.res.ok /\ ~Has(e.res, "panic")
               /\ OldOrNew(e)
               /\ e.resave.ok

(***************************************************************************)
(* Dev_F06a: LruManager::checkpoint_to_disk writes the new generation in   *)
(* place without fsync, recovery (run_cycle) looks at the highest          *)
(* generation only and fails on a file that is not complete.  Guard: the   *)
(* highest-generation *.lru file of the directory is IN FLIGHT - created   *)
(* or modified by the interrupted checkpoint and not fsync'ed - and is     *)
(* neither the complete old file (outcome "stale" of an existing file) nor *)
(* the complete new one (everything arrived and the length is the final    *)
(* one), and run_cycle returned an error.                                  *)
(***************************************************************************)
PostLen(name) == LET S == {i \in 1..Len(hdr.post) : hdr.post[i].name = name}
                 IN IF S = {} THEN 0 ELSE hdr.post[CHOOSE i \in S : TRUE].len
InFlight(f) == f.born \/ f.cls # "durable"
CompleteOld(f) == f.cls = "stale" /\ f.dlen > 0
CompleteNew(f) == f.cls \in {"full", "durable"} /\ f.len > 0 /\ f.len = PostLen(f.name)
Torn(f) == InFlight(f) /\ ~CompleteOld(f) /\ ~CompleteNew(f)
LruIdx(e) == {i \in 1..Len(e.disk) : e.disk[i].gen >= 0}
TopLru(e) == CHOOSE i \in LruIdx(e) : \A k \in LruIdx(e) : e.disk[k].gen <= e.disk[i].gen
DevF06a(e) ==
  /\ "F06a" \in KnownDeviations /\ hdr.routine = "lru"
  /\ ~e.res.ok /\ ~Has(e.res, "panic")
  /\ LruIdx(e) # {} /\ Torn(e.disk[TopLru(e)])

(***************************************************************************)
(* Dev_F06b: ExtractorCompactorBackup::record_segment appends 4 bytes to   *)
(* the journal without fsync and entries carry no validity mark: when the  *)
(* appended bytes read as zeros after the crash, load() reports the old    *)
(* segments followed by segment 0.  Guard: journal, the file existed with  *)
(* its header, outcome "zeros", recovered list = old list ++ zeros.        *)
(***************************************************************************)
RECURSIVE ZeroSeq(_)
ZeroSeq(n) == IF n = 0 THEN <<>> ELSE <<0>> \o ZeroSeq(n - 1)
DevF06b(e) ==
  /\ "F06b" \in KnownDeviations /\ hdr.routine = "journal"
  /\ e.res.ok /\ ~Has(e.res, "panic") /\ e.resave.ok
  /\ \E i \in 1..Len(e.disk) :
        LET f == e.disk[i] IN
        /\ f.name = "extract_bu" /\ f.cls = "zeros" /\ f.dlen >= 5 /\ f.vlen > f.dlen
        /\ e.res.segs = hdr.old.segs \o ZeroSeq((f.vlen - f.dlen) \div 4)

(***************************************************************************)
(* Dev_F06d: ExtractorCompactorBackup::save truncates the journal and      *)
(* rewrites it in place without fsync.  Guard: journal, the interrupted    *)
(* operation is save() ("wsave"), the file extract_bu is in flight and is  *)
(* neither the complete old nor the complete new file, load() returned Ok  *)
(* and what it shows is a prefix of the list that was being written (cut   *)
(* short or ignored as a whole), the journal can be written again.         *)
(***************************************************************************)
IsPrefixOf(a, b) == Len(a) <= Len(b) /\ a = SubSeq(b, 1, Len(a))
DevF06d(e) ==
  /\ "F06d" \in KnownDeviations /\ hdr.routine = "journal" /\ hdr.ops[Len(hdr.ops)] = "wsave"
  /\ e.res.ok /\ ~Has(e.res, "panic") /\ e.resave.ok
  /\ \E i \in 1..Len(e.disk) : e.disk[i].name = "extract_bu" /\ Torn(e.disk[i])
  /\ IsPrefixOf(e.res.segs, hdr.new.segs)

(***************************************************************************)
(* The COMPLETED save: reopening after it must show exactly the state the  *)
(* save was asked to persist (crash position = end, everything arrived).   *)
(* Judged once per case, at its header, from what the driver recorded:     *)
(* mem_new / mem_pre = the in-memory state read through the public API     *)
(* after / before the save call, old = recovery of the directory before    *)
(* the save, save = result and inputs of the save call.  What a save is    *)
(* asked to persist:                                                       *)
(*   lru, res   the in-memory table / database;                            *)
(*   index      save_all, flush_all_updates: every bucket as in memory;    *)
(*              "addf" (add_entry on a full update section): bucket 03 as  *)
(*              it was BEFORE the call (the section is flushed and saved,  *)
(*              then the new entry goes to the empty section), the other   *)
(*              buckets stay as they were on disk;                         *)
(*   disk       the entry of the key that was put = the value handed to    *)
(*              put, every other entry as before, size = number of entries;*)
(*   journal    record_segment: the segments on disk followed by the new   *)
(*              one; save(): the segments held in memory.                  *)
(* Not judged when the save itself reported an error.                      *)
(***************************************************************************)
LastOp(h) == h.ops[Len(h.ops)]
ExpObj(h, o) ==     \* the admissible values of object o after the completed save
  CASE h.routine = "index" /\ LastOp(h) = "addf" ->
         \* (when the section was not full the call saves nothing: everything stays as it was on disk)
         IF o = "bucket03" THEN {Val(h.mem_pre, o), Val(h.old.proj, o)} ELSE {Val(h.old.proj, o)}
    [] h.routine = "disk" ->
         IF o = "entry:" \o h.save.k THEN {h.save.val}
         ELSE IF o = "size"
              THEN {ToString(h.old.sizen + (IF Val(h.old.proj, "entry:" \o h.save.k) = "none" THEN 1 ELSE 0))}
              ELSE {Val(h.old.proj, o)}
    [] OTHER -> {Val(h.mem_new, o)}
NewOk(h) ==
  IF ~h.save.ok THEN TRUE
  ELSE /\ h.new.ok /\ ~Has(h.new, "panic")
       /\ IF h.routine = "journal"
          THEN h.new.segs = (IF LastOp(h) = "wsave" THEN h.mem_segs ELSE h.old.segs \o <<h.save.seg>>)
          ELSE \A o \in (DOMAIN h.new.proj) \cup (DOMAIN h.mem_new) \cup (DOMAIN h.old.proj) :
                  Val(h.new.proj, o) \in ExpObj(h, o)

TInit == /\ l = 1 /\ hdr = [routine |-> ""] /\ seq = 0 /\ viol = <<>> /\ nDevA = 0 /\ nDevB = 0 /\ nDevD = 0
         /\ firstDev = <<>>
         /\ nOld = 0 /\ nNew = 0 /\ nSame = 0 /\ nStrictBad = 0

Step ==
  /\ l <= Len(Rec)
  /\ LET e == Rec[l] IN
     IF e.op = "new" THEN
        /\ hdr' = e /\ seq' = 0
        /\ viol' = IF NewOk(e) THEN viol ELSE Append(viol, l)
        /\ UNCHANGED <<nDevA, nDevB, nDevD, firstDev, nOld, nNew, nSame, nStrictBad>>
     ELSE IF e.op = "hang" THEN     \* the recovery never returned (driver watchdog)
        /\ viol' = Append(viol, l)
        /\ UNCHANGED <<hdr, seq, nDevA, nDevB, nDevD, firstDev, nOld, nNew, nSame, nStrictBad>>
     ELSE
        LET ok    == Conforms(e)
            seqok == e.seq = seq + 1
            dA    == ~ok /\ DevF06a(e)
            dB    == ~ok /\ DevF06b(e)
            dD    == ~ok /\ DevF06d(e)
            soft  == e.mode # "c06"
            good  == (ok \/ dA \/ dB \/ dD) /\ seqok
        IN /\ hdr' = hdr /\ seq' = e.seq
           /\ viol' = IF good \/ (soft /\ seqok) THEN viol ELSE Append(viol, l)
           /\ nDevA' = IF ~soft /\ seqok /\ dA THEN nDevA + 1 ELSE nDevA
           /\ nDevB' = IF ~soft /\ seqok /\ ~dA /\ dB THEN nDevB + 1 ELSE nDevB
           /\ nDevD' = IF ~soft /\ seqok /\ ~dA /\ ~dB /\ dD THEN nDevD + 1 ELSE nDevD
           /\ firstDev' = IF ~soft /\ seqok /\ (dA \/ dB \/ dD) /\ Len(firstDev) < 20
                           THEN Append(firstDev, <<l, IF dA THEN "F06a" ELSE IF dB THEN "F06b" ELSE "F06d">>) ELSE firstDev
           /\ nStrictBad' = IF soft /\ ~ok THEN nStrictBad + 1 ELSE nStrictBad
           /\ nSame' = IF ok /\ IsOld(e) /\ IsNew(e) THEN nSame + 1 ELSE nSame
           /\ nOld' = IF ok /\ IsOld(e) /\ ~IsNew(e) THEN nOld + 1 ELSE nOld
           /\ nNew' = IF ok /\ ~IsOld(e) THEN nNew + 1 ELSE nNew
  /\ l' = l + 1

TNext == Step
Done == (l = Len(Rec) + 1) =>
  PrintT(<<"VERDICT", ToJson([events |-> Len(Rec), violations |-> viol, deviations |-> firstDev,
                              dev_F06a |-> nDevA, dev_F06b |-> nDevB, dev_F06d |-> nDevD,
                              rec_old |-> nOld, rec_new |-> nNew, rec_same |-> nSame,
                              strict_nonconforming |-> nStrictBad])>>)
=============================================================================
