---------------------------- MODULE T_Residency ----------------------------
(***************************************************************************)
(* Trace monitor (binding T) for executions of the real residency          *)
(* database (ResidencyContainer over ResidencyDb).  Total and              *)
(* resynchronising; judges every event with RStep of Residency.tla.        *)
(*                                                                         *)
(* Events (written by harness/src/bin/drv_index):                          *)
(*   {"op":"new","sys":"res","keys":["a",...]}                             *)
(*   {"op":"mark"|"unmark"|"span"|"cremove","k":..,"seq":n,"res":"ok"|..,  *)
(*    "obs":{"res":{key:bool},"q":{key:"true"|"false"|"err"},              *)
(*           "scan":[keys],"nscan":n,"count":n,"padres":n}}                *)
(*   {"op":"delete","ks":[..],"pad":n,..} {"op":"save"} {"op":"reload","ro":b} *)
(***************************************************************************)
EXTENDS Residency, Json, IOUtils

CONSTANT KnownDeviations
Rec == ndJsonDeserialize(IOEnv.TRACE)

VARIABLES l, r, names, seq, viol, devs

TInit == l = 1 /\ r = R0 /\ names = {} /\ seq = 0 /\ viol = <<>> /\ devs = <<>>

Step ==
  /\ l <= Len(Rec)
  /\ LET e == Rec[l] IN
     IF e.op = "new" THEN
        /\ names' = SeqSet(e.keys) /\ r' = R0 /\ seq' = 0
        /\ UNCHANGED <<viol, devs>>
     ELSE IF e.op = "hang" THEN
        /\ viol' = Append(viol, l)
        /\ UNCHANGED <<r, names, seq, devs>>
     ELSE
        LET j == RStep(r, names, e)
            seqok == e.seq = seq + 1
        IN /\ r' = IF j.ok THEN j.st ELSE RResync(j.st, names, e)
           /\ names' = names
           /\ seq' = e.seq
           /\ viol' = IF j.ok /\ seqok THEN viol ELSE Append(viol, l)
           /\ devs' = devs
  /\ l' = l + 1

TNext == Step
Done == (l = Len(Rec) + 1) =>
  PrintT(<<"VERDICT", ToJson([events |-> Len(Rec), violations |-> viol, deviations |-> devs])>>)
=============================================================================
