----------------------------- MODULE T_KvIndex -----------------------------
(***************************************************************************)
(* Trace monitor (binding T) for executions of the real IndexManager.      *)
(* Total and resynchronising: every event is consumed and judged with      *)
(* PStep of KvIndex.tla (the same operator MC_KvIndex checks the           *)
(* code-shaped model against); after an unexplained event the map is       *)
(* reset to the logged projection so that the rest of the run is still     *)
(* checked.                                                                *)
(*                                                                         *)
(* Events (one JSON object per line, written by harness/src/bin/drv_index):*)
(*   {"op":"new","sys":"index","keys":{"a":7,...}}          run boundary   *)
(*   {"op":..., args..., "seq":n, "res":"ok"|"err"|"true"|"false"|"panic", *)
(*    ["n":adds] ["cnt":removed],                                          *)
(*    "obs":{"look":{key:loc|"-"},"look1":{..},"has":{key:bool},           *)
(*           "ent":{key:loc},"niter":n,"count":n,"badbucket":n}}           *)
(*   {"op":"hang",...}              the call never returned (watchdog)     *)
(***************************************************************************)
EXTENDS KvIndex, Json, IOUtils

Rec == ndJsonDeserialize(IOEnv.TRACE)

VARIABLES l,      \* position in Rec
          p,      \* property-level state of the current run
          kb,     \* key universe of the current run: name -> bucket
          seq,    \* last sequence number seen in the current run
          viol, devs

TInit == l = 1 /\ p = P0(<<>>) /\ kb = <<>> /\ seq = 0 /\ viol = <<>> /\ devs = <<>>

Step ==
  /\ l <= Len(Rec)
  /\ LET e == Rec[l] IN
     IF e.op = "new" THEN
        /\ kb' = e.keys /\ p' = P0(e.keys) /\ seq' = 0
        /\ UNCHANGED <<viol, devs>>
     ELSE IF e.op = "hang" THEN
        /\ viol' = Append(viol, l)
        /\ UNCHANGED <<p, kb, seq, devs>>
     ELSE
        LET j == PStep(p, kb, e)
            seqok == e.seq = seq + 1
        IN /\ p' = j.st
           /\ kb' = kb
           /\ seq' = e.seq
           /\ viol' = IF j.ok /\ seqok THEN viol ELSE Append(viol, l)
           /\ devs' = IF j.ok /\ j.dev # "" THEN Append(devs, <<l, j.dev>>) ELSE devs
  /\ l' = l + 1

TNext == Step
Done == (l = Len(Rec) + 1) =>
  PrintT(<<"VERDICT", ToJson([events |-> Len(Rec), violations |-> viol, deviations |-> devs])>>)
=============================================================================
