---------------------------- MODULE T_PathCache ----------------------------
(***************************************************************************)
(* Trace monitor (binding T) for executions of the real CdnPathCache /     *)
(* CdnUrlBuilder / CdnBootstrap / configuration structures recorded by     *)
(* harness/src/bin/drv_pathcache.rs.  Total and resynchronising: every     *)
(* event is consumed and judged with the judges of PathCache.tla and       *)
(* CdnBoot.tla; the state after an event follows the observation.          *)
(*                                                                         *)
(*   {"op":"new","fam":F,..}            run boundary (cache: the           *)
(*                                      constructor, boot: the source)     *)
(*   {"op":..,args..,"seq":n,"res":..}  one per call                       *)
(*   {"op":"hang",..}                   driver watchdog: no return         *)
(*                                                                         *)
(* A deviation is accepted only when its finding is listed in              *)
(* KnownDeviations; its guard is in the judge (FX12a: a path that          *)
(* validation must reject was stored while the flag was on; FX12b: two     *)
(* instances of one table answer get_path differently and more than one    *)
(* key matches; FX12c: merge_with_fallback panics and a priority at the    *)
(* top of u32 is involved; FX12d: estimated_memory_usage panics and the    *)
(* exact value does not fit; FX12e: validate() = Ok with a NaN jitter      *)
(* factor and nothing else wrong; FX12f: the server list is the documented *)
(* one except that hosts repeat).                                          *)
(***************************************************************************)
EXTENDS CdnBoot, Json, IOUtils

CONSTANT KnownDeviations

Rec == ndJsonDeserialize(IOEnv.TRACE)

VARIABLES l,      \* position in Rec
          fam, st, U, uq, seq,
          viol, devs,   \* line numbers of violations / <<line, finding id>> of explained deviations (the first Keep of each)
          nviol, ndev   \* how many there were in all

Keep == 60
Ids == {"FX12a", "FX12b", "FX12c", "FX12d", "FX12e", "FX12f"}
TInit == /\ l = 1 /\ fam = "none" /\ st = 0 /\ U = <<>> /\ uq = 0 /\ seq = 0 /\ viol = <<>> /\ devs = <<>>
         /\ nviol = 0 /\ ndev = [x \in Ids |-> 0]
Flag(bad, ln) == /\ viol' = IF bad /\ nviol < Keep THEN Append(viol, ln) ELSE viol
                 /\ nviol' = IF bad THEN nviol + 1 ELSE nviol
RECURSIVE AddDevs(_, _, _)
AddDevs(ds, acc, cnt) ==
  IF ds = {} THEN [d |-> acc, n |-> cnt]
  ELSE LET id == CHOOSE x \in ds : TRUE IN
       AddDevs(ds \ {id}, IF cnt[id] < Keep THEN Append(acc, <<l, id>>) ELSE acc, [cnt EXCEPT ![id] = @ + 1])
Note(ds) == LET r == AddDevs(ds, devs, ndev) IN devs' = r.d /\ ndev' = r.n

\* v = [ok, devs, ..]: good iff the judge accepts and every deviation it used is a listed one
Accept(v) == v.ok /\ v.devs \subseteq KnownDeviations

Step ==
  /\ l <= Len(Rec)
  /\ LET e == Rec[l] IN
     IF e.op = "new" THEN
        /\ fam' = e.fam /\ seq' = 0
        /\ IF e.fam = "cache" THEN
              LET v == PcJudgeNew(e) IN
              /\ Flag(~Accept(v), l) /\ Note(IF Accept(v) THEN v.devs ELSE {})
              /\ st' = v.st /\ U' = e.U /\ uq' = (IF "uq" \in DOMAIN e THEN UqPrep(e.uq) ELSE 0)
           ELSE IF e.fam = "boot" THEN
              LET v == BootJudgeNew(e) IN
              /\ Flag(~Accept(v), l) /\ Note(IF Accept(v) THEN v.devs ELSE {})
              /\ st' = v.st /\ U' = <<>> /\ uq' = 0
           ELSE /\ Flag(FALSE, l) /\ Note({}) /\ st' = 0 /\ U' = <<>> /\ uq' = 0
     ELSE IF e.op = "hang" THEN       \* the call never returned: the run ends here
        /\ Flag(TRUE, l) /\ Note({})
        /\ UNCHANGED <<fam, st, U, uq, seq>>
     ELSE
        LET v == CASE fam = "cache" -> PcJudge(st, U, uq, e)
                   [] fam = "url"   -> UrlJudge(e)
                   [] fam = "boot"  -> BootJudge(st, e)
                   [] fam = "cfg"   -> CfgJudge(e)
                   [] fam = "env"   -> EnvJudge(e)
                   [] OTHER         -> [ok |-> FALSE, devs |-> {}]
            ds   == v.devs
            good == v.ok /\ ds \subseteq KnownDeviations /\ e.seq = seq + 1
        IN /\ Flag(~good, l) /\ Note(IF good THEN ds ELSE {})
           /\ st' = (IF fam = "cache" THEN v.st ELSE st) /\ seq' = e.seq
           /\ UNCHANGED <<fam, U, uq>>
  /\ l' = l + 1

TNext == Step
Done == (l = Len(Rec) + 1) =>
  PrintT(<<"VERDICT", ToJson([events |-> Len(Rec), violations |-> viol, deviations |-> devs, nviol |-> nviol,
                              n_FX12a |-> ndev["FX12a"], n_FX12b |-> ndev["FX12b"], n_FX12c |-> ndev["FX12c"],
                              n_FX12d |-> ndev["FX12d"], n_FX12e |-> ndev["FX12e"], n_FX12f |-> ndev["FX12f"]])>>)
=============================================================================
