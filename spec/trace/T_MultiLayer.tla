---------------------------- MODULE T_MultiLayer ----------------------------
(***************************************************************************)
(* Trace monitor (binding T) for executions of the real                    *)
(* MultiLayerCacheImpl<RibbitKey> recorded by harness/src/bin/drv_multilayer.*)
(* Total and resynchronising: every event is consumed and judged with      *)
(* Verdict of MultiLayer.tla (part 1); the layer contents are taken from   *)
(* the logged projection after every call, the ghost record is a function  *)
(* of the operations and results only.                                     *)
(*                                                                         *)
(* Events:                                                                 *)
(*   {"op":"new","kinds":[..],"caps":[..],"budgets":[..],"policies":[..],   *)
(*    "sizes":{name:bytes},"hooks":b,"keys":[..]}              run boundary *)
(*   {"op":..., args, "seq":n, "res":s, ("rs":[..]), ("obs":[{k:v},..])}    *)
(*   {"op":"hang","during":{op..},..}   the call never returned (watchdog) *)
(***************************************************************************)
EXTENDS MultiLayer, Json, IOUtils

CONSTANT KnownDeviations
Rec == ndJsonDeserialize(IOEnv.TRACE)

VARIABLES l,      \* position in Rec
          C,      \* configuration of the current run
          S,      \* layer contents (sequence of key -> value name)
          gh,     \* ghost record
          seq,    \* last sequence number seen in the current run
          ended,  \* the run was ended by a hang: nothing may follow in it
          viol, devs

SetOfSeq(q) == {q[i] : i \in 1..Len(q)}
C0 == [kinds |-> <<"mem">>, caps |-> <<1>>, hooks |-> FALSE, budget |-> <<0>>, policy |-> <<"lru">>, sizes |-> [v1 |-> 1]]
S0(c, keys) == [i \in 1..Len(c.kinds) |-> [k \in keys |-> None]]

\* The machine of MultiLayer.tla part 2 is not used here: its variables are parked in their initial
\* state (the cfg substitutes TKinds / TCaps for Kinds / Caps and gives the other constants dummies).
TKinds == <<"mem">>
TCaps  == <<1>>
TBudgets == <<0>>
TPolicies == <<"lru">>
TSizes == [v1 |-> 1]

TInit == /\ MInit
         /\ l = 1 /\ C = C0 /\ S = S0(C0, {}) /\ gh = G0({}) /\ seq = 0 /\ ended = FALSE
         /\ viol = <<>> /\ devs = <<>>

WellFormed(e) ==    \* the projection has the shape of the configuration
  "obs" \in DOMAIN e => Len(e.obs) = Len(C.kinds) /\ \A i \in 1..Len(e.obs) : DOMAIN e.obs[i] = DOMAIN S[i]

Step ==
  /\ l <= Len(Rec)
  /\ LET e == Rec[l] IN
     IF e.op = "new" THEN
        LET c == [kinds |-> e.kinds, caps |-> e.caps, hooks |-> e.hooks,
                  budget |-> e.budgets, policy |-> e.policies, sizes |-> e.sizes] IN
        /\ C' = c /\ S' = S0(c, SetOfSeq(e.keys)) /\ gh' = G0(SetOfSeq(e.keys)) /\ seq' = 0 /\ ended' = FALSE
        /\ UNCHANGED <<viol, devs>>
     ELSE IF e.op = "hang" THEN
        \* "every call returns" is broken; explained only by the listed self-deadlock
        LET known == "F12a" \in KnownDeviations /\ ~ended /\ "op" \in DOMAIN e.during /\ HangF12a(gh, S, e.during) IN
        /\ viol' = IF known THEN viol ELSE Append(viol, l)
        /\ devs' = IF known THEN Append(devs, <<l, "F12a">>) ELSE devs
        /\ ended' = TRUE
        /\ UNCHANGED <<C, S, gh, seq>>
     ELSE
        LET fault == e.op \in FaultOps
            wf    == WellFormed(e) /\ (IF fault THEN "now" \in DOMAIN e ELSE "obs" \in DOMAIN e)
            M     == IF ~wf THEN S ELSE IF fault THEN FaultNext(C, S, e) ELSE e.obs
            v     == IF ~wf \/ ended \/ e.seq # seq + 1 THEN "viol"
                     ELSE IF fault THEN "ok"
                     ELSE Verdict(C, gh, S, e, M, KnownDeviations)
        IN /\ S' = M
           /\ gh' = IF wf THEN GhostAfter(C, gh, S, e, M) ELSE gh
           /\ seq' = e.seq
           /\ viol' = IF v = "viol" THEN Append(viol, l) ELSE viol
           /\ devs' = IF v \notin {"ok", "viol"} THEN Append(devs, <<l, v>>) ELSE devs
           /\ UNCHANGED <<C, ended>>
  /\ l' = l + 1

TNext == Step /\ UNCHANGED mvars
Done == (l = Len(Rec) + 1) =>
  PrintT(<<"VERDICT", ToJson([events |-> Len(Rec), violations |-> viol, deviations |-> devs])>>)
=============================================================================
