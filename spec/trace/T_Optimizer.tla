---------------------------- MODULE T_Optimizer ----------------------------
(***************************************************************************)
(* Trace monitor (binding T) for executions of the real optimisation layer *)
(* of the CDN streaming module recorded by harness/src/bin/drv_optimizer.rs.*)
(* Total and resynchronising: every event is consumed and judged with       *)
(* OJudge of Optimizer.tla; the state after an event is the one the judge   *)
(* returns (it follows the observation).                                    *)
(*                                                                         *)
(*   {"op":"new","fam":F,"cfg":{..}}                         run boundary  *)
(*   {"op":<operation>,args..,"seq":n,"res":{..},"obs":{..}} one per call  *)
(*   {"op":"hang",..}                    driver watchdog: no return        *)
(***************************************************************************)
EXTENDS Optimizer, Json, IOUtils

Rec == ndJsonDeserialize(IOEnv.TRACE)

VARIABLES l,      \* position in Rec
          fam, cfg, st, seq,
          viol, devs,   \* line numbers of violations / <<line, finding id>> of explained deviations (the first Keep of each)
          nviol, ndev   \* how many there were in all

Keep == 60
Ids == {"FX09a", "FX09b", "FX09c", "FX09d", "FX09e", "FX09f", "FX09g", "FX09h", "FX09i"}
TInit == /\ l = 1 /\ fam = "none" /\ cfg = 0 /\ st = 0 /\ seq = 0 /\ viol = <<>> /\ devs = <<>>
         /\ nviol = 0 /\ ndev = [x \in Ids |-> 0]
Flag(bad, ln) == /\ viol' = IF bad /\ nviol < Keep THEN Append(viol, ln) ELSE viol
                 /\ nviol' = IF bad THEN nviol + 1 ELSE nviol
Note(id)  == /\ devs' = IF id # "" /\ ndev[id] < Keep THEN Append(devs, <<l, id>>) ELSE devs
             /\ ndev' = IF id # "" THEN [ndev EXCEPT ![id] = @ + 1] ELSE ndev

Step ==
  /\ l <= Len(Rec)
  /\ LET e == Rec[l] IN
     IF e.op = "new" THEN
        \* a resource the driver could not even build is a tool problem, flagged
        /\ Flag(e.fam = "sblte" /\ (~e.built \/ ~e.ref_ok), l) /\ Note("")
        /\ fam' = e.fam /\ cfg' = e.cfg /\ st' = OSt0(e.fam, e.cfg) /\ seq' = 0
     ELSE IF e.op = "hang" THEN       \* the call never returned: the run ends here
        /\ Flag(TRUE, l) /\ Note("")
        /\ st' = OSt0(fam, cfg) /\ UNCHANGED <<fam, cfg, seq>>
     ELSE
        LET v    == OJudge(fam, cfg, st, e)
            good == v.ok /\ e.seq = seq + 1
        IN /\ Flag(~good, l) /\ Note(IF good THEN v.dev ELSE "")
           /\ st' = v.st /\ seq' = e.seq
           /\ UNCHANGED <<fam, cfg>>
  /\ l' = l + 1

TNext == Step
Done == (l = Len(Rec) + 1) =>
  PrintT(<<"VERDICT", ToJson([events |-> Len(Rec), violations |-> viol, deviations |-> devs, nviol |-> nviol,
                              n_FX09a |-> ndev["FX09a"], n_FX09b |-> ndev["FX09b"], n_FX09c |-> ndev["FX09c"],
                              n_FX09d |-> ndev["FX09d"], n_FX09e |-> ndev["FX09e"], n_FX09f |-> ndev["FX09f"],
                              n_FX09g |-> ndev["FX09g"], n_FX09h |-> ndev["FX09h"], n_FX09i |-> ndev["FX09i"]])>>)
=============================================================================
