---------------------------- MODULE T_Integrity ----------------------------
(***************************************************************************)
(* Trace monitor (bindings T and E) for executions recorded by             *)
(* harness/src/bin/drv_integrity.  Total: every event is consumed.         *)
(*                                                                         *)
(* Runs ("op":"new") are of three parts:                                   *)
(*  art   - one artifact built by the real builder ("bytes"), damaged in   *)
(*          every way of one fault class and loaded by one real loader.    *)
(*          The monitor derives the regions from the bytes with            *)
(*          Integrity!Regions and judges every recorded verdict with the   *)
(*          judgement rule.  A run with fault = "produce" evaluates        *)
(*          Integrity!ProduceOK on the bytes (format self-validation).     *)
(*  val   - the validation functions as pure functions: the result must be *)
(*          (Md5Digest(data) = key), MD5 being the TLA+ definition.        *)
(*  cache - operations on a validating cache with an environment that      *)
(*          damages the backing store; judged with the property predicates *)
(*          of Integrity (SafeGetP, ValidatedFlagP, PutSafeP, GoneAfterP)  *)
(*          on digests computed here from the recorded bytes.              *)
(*                                                                         *)
(* Known deviations (enabled by KnownDeviations):                          *)
(*  F07a  update entry: the status byte is judged after normalisation      *)
(*  F07b  update section: no loader checks the guard                       *)
(*  F07c  archive index: footer_hash_bytes damage panics in is_valid       *)
(*  F07d  multi-layer cache: no validation above 100 MiB                   *)
(***************************************************************************)
EXTENDS Integrity, TLC, Json, IOUtils

CONSTANT KnownDeviations
Rec == ndJsonDeserialize(IOEnv.TRACE)

VARIABLES l,       \* position in Rec
          mode,    \* part of the current run
          run,     \* index of the current run's "new" event
          regs,    \* art: regions of the undamaged artifact
          expj,    \* art: number of judged positions / lengths the run must report (-1: not counted)
          seenj,   \* art: number reported so far
          seq,     \* last sequence number of the run
          pre,     \* cache: observation after the previous event (<<>> at the start of a run)
          viol, devs, cnt

Bump(c, key, n) == IF n = 0 THEN c ELSE IF key \in DOMAIN c THEN [c EXCEPT ![key] = @ + n] ELSE c @@ (key :> n)
Count(S) == Cardinality(S)
Known(f) == f \in KnownDeviations
H == Rec[run]                       \* the current run's header
Pow2(i) == 2 ^ i

\* the findings of a set, each paired with the current line
SetToSeqT(S) == LET RECURSIVE F(_)
                    F(T) == IF T = {} THEN <<>> ELSE LET x == CHOOSE y \in T : TRUE IN <<<<l, x>>>> \o F(T \ {x})
                IN F(S)

\* ------------------------------------------------------------------ art
ArtBytes == H.bytes
ArtWF(e) == e.len = Len(e.bytes) /\ e.kind \in Kinds /\ WellFormed(e.kind, e.bytes)
ExpectedJudged(e, R) ==
  CASE e.fault \in {"flip", "subst"} -> Count({p \in 0..(e.len - 1) : Visited(p, e.len, e.stride, e.edge) /\ FlipJudged(R, p)})
    [] e.fault = "trunc" -> Count({m \in 0..(e.len - 1) : Visited(m, e.len, e.stride, e.edge) /\ TruncJudged(R, m)})
    [] OTHER -> 0 - 1

\* which listed finding explains one accepted / panicking load (or "" for none)
ArtDev(pos, newbyte, code, judged) ==
  IF Known("F07a") /\ H.kind = "upd" /\ pos = 22 /\ code = 2 /\ UpdStatusClass(newbyte) = UpdStatusClass(IgB(ArtBytes, 22)) THEN "F07a"
  ELSE IF Known("F07b") /\ H.kind = "updsec" /\ judged /\ Accepted(code) THEN "F07b"
  ELSE IF Known("F07c") /\ H.kind = "aidx" /\ pos = AidxHashBytesPos(ArtBytes) /\ code = 4 THEN "F07c"
  ELSE ""

\* items of an event: <<position (or -1), new byte (or -1), judged, class, code>>
Items(e) ==
  CASE e.op = "flip"   -> [i \in 1..Len(e.v) |-> [pos |-> e.pos, nb |-> IgB(ArtBytes, e.pos) ^^ Pow2(i - 1),
                                                  j |-> FlipJudged(regs, e.pos), cls |-> PosClass(regs, e.pos), code |-> e.v[i]]]
    [] e.op = "subst"  -> [i \in 1..Len(e.v) |-> [pos |-> e.pos, nb |-> e.vals[i],
                                                  j |-> FlipJudged(regs, e.pos), cls |-> PosClass(regs, e.pos), code |-> e.v[i]]]
    [] e.op = "trunc"  -> [i \in 1..Len(e.v) |-> [pos |-> 0 - 1, nb |-> 0 - 1, j |-> TruncJudged(regs, e.m0 + i - 1),
                                                  cls |-> IF TruncJudged(regs, e.m0 + i - 1) THEN "prot" ELSE "other", code |-> e.v[i]]]
    [] e.op = "extend" -> [i \in 1..Len(e.v) |-> [pos |-> 0 - 1, nb |-> 0 - 1, j |-> ExtendJudged(H.kind),
                                                  cls |-> IF ExtendJudged(H.kind) THEN "prot" ELSE "other", code |-> e.v[i]]]
    [] OTHER -> <<>>
ShapeOK(e) ==
  CASE e.op = "flip"   -> H.fault = "flip" /\ Len(e.v) = 8 /\ e.pos \in 0..(H.len - 1)
    [] e.op = "subst"  -> H.fault = "subst" /\ Len(e.v) = Len(e.vals) /\ e.pos \in 0..(H.len - 1)
                          /\ \A i \in 1..Len(e.vals) : e.vals[i] \in 0..255 /\ e.vals[i] # IgB(ArtBytes, e.pos)
    [] e.op = "trunc"  -> H.fault = "trunc" /\ e.m0 >= 0 /\ e.m0 + Len(e.v) <= H.len
    [] e.op = "extend" -> H.fault = "extend" /\ Len(e.v) = 1 /\ e.n >= 1
    [] e.op = "check"  -> H.fault = "produce"
    [] OTHER -> FALSE
JudgedUnits(e, it) ==      \* what seenj counts: positions (flip, subst) or lengths (trunc)
  CASE e.op \in {"flip", "subst"} -> IF Len(it) > 0 /\ it[1].j THEN 1 ELSE 0
    [] e.op = "trunc" -> Count({i \in 1..Len(it) : it[i].j})
    [] OTHER -> 0

ArtEvent(e) ==
  LET shape == ShapeOK(e) /\ e.seq = seq + 1
      it    == IF shape THEN Items(e) ELSE <<>>
      I     == 1..Len(it)
      bad   == {i \in I : ~FaultOK(it[i].j, it[i].code)}
      dv(i) == ArtDev(it[i].pos, it[i].nb, it[i].code, it[i].j)
      \* a panic is never a clean rejection: outside the judged classes it is counted, not judged
      unexpl == {i \in bad : dv(i) = ""}
      fids  == {dv(i) : i \in bad} \ {""}
      key   == H.kind \o "_" \o H.fault \o "_"
      c1    == Bump(cnt, "faults", Len(it))
      c2    == Bump(c1, "judged", Count({i \in I : it[i].j}))
      c3    == Bump(c2, "judged_rejected", Count({i \in I : it[i].j /\ Rejected(it[i].code)}))
      c4    == Bump(c3, "unjudged_accepted", Count({i \in I : ~it[i].j /\ Accepted(it[i].code)}))
      c5    == Bump(c4, "unjudged_accepted_altered", Count({i \in I : ~it[i].j /\ it[i].code = 3}))
      c6    == Bump(Bump(c5, "panics", Count({i \in I : it[i].code = 4})), "huge_allocs", Count({i \in I : it[i].code = 5}))
      c7    == Bump(c6, "cls_" \o key \o "prot", Count({i \in I : it[i].cls = "prot"}))
      c8    == Bump(c7, "cls_" \o key \o "check", Count({i \in I : it[i].cls = "check"}))
      c9    == Bump(c8, "cls_" \o key \o "free", Count({i \in I : it[i].cls = "free"}))
      c10   == Bump(c9, "cls_" \o key \o "other", Count({i \in I : it[i].cls = "other"}))
      chk   == e.op = "check"
      pok   == chk /\ shape /\ ProduceOK(H.kind, ArtBytes, H.x)
      c11   == IF chk THEN Bump(Bump(c10, "produce_checked", 1), "spec_mismatch", IF pok THEN 0 ELSE 1) ELSE c10
  IN /\ viol' = IF ~shape \/ unexpl # {} THEN Append(viol, l) ELSE viol
     /\ devs' = IF shape /\ unexpl = {} /\ fids # {} THEN devs \o SetToSeqT(fids) ELSE devs
     /\ cnt' = c11
     /\ seenj' = seenj + JudgedUnits(e, it)
     /\ seq' = e.seq
     /\ UNCHANGED <<mode, run, regs, expj, pre>>

\* ------------------------------------------------------------------ val
DataDigest(c) == IF "b" \in DOMAIN c THEN Md5Digest(c.b) ELSE c.md5
ValEvent(e) ==
  LET eq   == DataDigest(e.data) = e.ck
      good == e.op = "validate" /\ e.seq = seq + 1 /\ ((e.res = "true" /\ eq) \/ (e.res = "false" /\ ~eq))
  IN /\ viol' = IF good THEN viol ELSE Append(viol, l)
     /\ cnt' = Bump(Bump(cnt, "val_true", IF e.res = "true" THEN 1 ELSE 0), "val_false", IF e.res = "false" THEN 1 ELSE 0)
     /\ seq' = e.seq
     /\ UNCHANGED <<mode, run, regs, expj, seenj, pre, devs>>

\* ---------------------------------------------------------------- cache
CacheNews == {i \in 1..Len(Rec) : Rec[i].op = "new" /\ Rec[i].part = "cache"}
ValTable  == IF CacheNews = {} THEN [nm \in {} |-> <<>>] ELSE Rec[IgMin(CacheNews)].vals
CkTable   == [nm \in DOMAIN ValTable |-> Md5Digest(ValTable[nm])]       \* evaluated once (constant level)
IsNone(c) == "none" \in DOMAIN c
BigLimit  == 104857600                                                   \* 100 MiB
IsBig(c)  == "n" \in DOMAIN c /\ c.n > BigLimit
\* MD5 of a recorded content: by the TLA+ definition for recorded bytes (values of the table are looked
\* up), by the driver's digest for contents too large to record
DigestOf(c) ==
  IF "b" \in DOMAIN c
  THEN LET M == {nm \in DOMAIN ValTable : ValTable[nm] = c.b} IN
       IF M # {} THEN CkTable[CHOOSE nm \in M : TRUE] ELSE Md5Digest(c.b)
  ELSE c.md5
CValidating == H.comp # "ml" \/ H.hooks # "none"
NLayers == Len(H.kinds)
PreAt(i, k) == IF pre = <<>> THEN NoC ELSE pre[i][k]
FirstPre(k) == LET S == {i \in 1..NLayers : ~IsNone(PreAt(i, k))} IN IF S = {} THEN 0 ELSE IgMin(S)

CacheEvent(e) ==
  LET panic == "panic" \in DOMAIN e.res
      shape == e.seq = seq + 1 /\ "obs" \in DOMAIN e /\ Len(e.obs) = NLayers
      isPut == e.op = "put_val"
      isGet == e.op = "get_val"
      \* ---- put_val
      putOk   == isPut /\ "ok" \in DOMAIN e.res
      matches == isPut /\ DigestOf(e.vc) = CkTable[e.ck]
      putGood == (isPut /\ CValidating) => PutSafeP(putOk, matches)
      putDev  == isPut /\ ~putGood /\ Known("F07d") /\ H.comp = "ml" /\ IsBig(e.vc)
      \* ---- get_val
      hasck   == isGet /\ e.ck # "none"
      isSome  == isGet /\ "some" \in DOMAIN e.res
      valid   == isSome /\ hasck /\ DigestOf(e.res.some) = CkTable[e.ck]
      p1      == (hasck /\ CValidating) => SafeGetP(isSome, valid)
      p2      == (hasck /\ isSome) => ValidatedFlagP(e.res.validated, valid)
      i       == IF hasck /\ shape THEN FirstPre(e.k) ELSE 0
      corrupt == i # 0 /\ DigestOf(PreAt(IF i = 0 THEN 1 ELSE i, e.k)) # CkTable[e.ck]
      same    == i # 0 /\ e.obs[IF i = 0 THEN 1 ELSE i][e.k] = PreAt(IF i = 0 THEN 1 ELSE i, e.k)
      p3      == (hasck /\ CValidating /\ H.comp = "ml") => GoneAfterP(corrupt, same)
      \* a content above the limit was handed out without being checked (and therefore left in place)
      getDev  == isGet /\ ~(p1 /\ p2 /\ p3) /\ Known("F07d") /\ H.comp = "ml" /\ isSome /\ IsBig(e.res.some)
      good    == shape /\ ~panic /\ putGood /\ p1 /\ p2 /\ p3
      dev     == shape /\ ~panic /\ (putDev \/ getDev) /\ (isPut \/ isGet)
      c1 == Bump(cnt, "cache_events", 1)
      c2 == Bump(c1, "gets_valid", IF valid THEN 1 ELSE 0)
      c3 == Bump(c2, "gets_refused", IF isGet /\ hasck /\ "err" \in DOMAIN e.res THEN 1 ELSE 0)
      c4 == Bump(c3, "gets_refused_corrupt", IF isGet /\ corrupt /\ ~isSome THEN 1 ELSE 0)
      c5 == Bump(c4, "puts_ok", IF putOk THEN 1 ELSE 0)
      c6 == Bump(c5, "puts_refused", IF isPut /\ ~putOk /\ ~matches THEN 1 ELSE 0)
      c7 == Bump(c6, "damages", IF e.op \in {"corrupt", "delete"} /\ "hit" \in DOMAIN e.res /\ e.res.hit THEN 1 ELSE 0)
      c8 == Bump(c7, "cac_corrupt_left_in_place", IF H.comp # "ml" /\ corrupt /\ same THEN 1 ELSE 0)
      c9 == Bump(c8, "gone_after_checked", IF H.comp = "ml" /\ CValidating /\ corrupt THEN 1 ELSE 0)
  IN /\ viol' = IF good \/ dev THEN viol ELSE Append(viol, l)
     /\ devs' = IF ~good /\ dev THEN Append(devs, <<l, "F07d">>) ELSE devs
     /\ cnt' = c9
     /\ pre' = IF shape THEN e.obs ELSE pre
     /\ seq' = e.seq
     /\ UNCHANGED <<mode, run, regs, expj, seenj>>

\* ------------------------------------------------------------------ runs
CoverageGap == mode = "art" /\ expj >= 0 /\ seenj # expj
Closed(c) == Bump(c, "coverage_gap", IF CoverageGap THEN 1 ELSE 0)

NewRun(e) ==
  LET c0 == Closed(cnt) IN
  /\ mode' = e.part /\ run' = l /\ seq' = 0 /\ pre' = <<>> /\ seenj' = 0
  /\ IF e.part = "art" THEN
        LET wf == ArtWF(e)
            R  == IF wf THEN Regions(e.kind, e.bytes) ELSE {}
        IN /\ regs' = R
           /\ expj' = IF wf THEN ExpectedJudged(e, R) ELSE 0 - 1
           /\ cnt' = Bump(Bump(Bump(c0, "runs_art", 1), "malformed_artifact", IF wf THEN 0 ELSE 1),
                          "baseline_rejected", IF e.base = 2 THEN 0 ELSE 1)
     ELSE IF e.part = "cache" THEN
        /\ regs' = {} /\ expj' = 0 - 1
        /\ cnt' = Bump(Bump(c0, "runs_cache", 1), "table_mismatch", IF e.vals = ValTable /\ e.cks = CkTable THEN 0 ELSE 1)
     ELSE /\ regs' = {} /\ expj' = 0 - 1 /\ cnt' = Bump(c0, "runs_val", 1)
  /\ UNCHANGED <<viol, devs>>

TInit == /\ l = 1 /\ mode = "none" /\ run = 1 /\ regs = {} /\ expj = 0 - 1 /\ seenj = 0 /\ seq = 0 /\ pre = <<>>
         /\ viol = <<>> /\ devs = <<>> /\ cnt = ("events_seen" :> 0)

Step ==
  /\ l <= Len(Rec)
  /\ LET e == Rec[l] IN
     IF e.op = "new" THEN NewRun(e)
     ELSE IF e.op = "hang" \/ mode = "none" THEN      \* a call that never returned, or an event outside any run
        /\ viol' = Append(viol, l) /\ UNCHANGED <<mode, run, regs, expj, seenj, seq, pre, devs, cnt>>
     ELSE IF mode = "art" THEN ArtEvent(e)
     ELSE IF mode = "val" THEN ValEvent(e)
     ELSE CacheEvent(e)
  /\ l' = l + 1

TNext == Step
Done == (l = Len(Rec) + 1) =>
  PrintT(<<"VERDICT", ToJson([events |-> Len(Rec), violations |-> viol, deviations |-> devs] @@ Closed(cnt))>>)
=============================================================================
