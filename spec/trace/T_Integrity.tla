---------------------------- MODULE T_Integrity ----------------------------
(***************************************************************************)
(* Trace monitor (bindings T and E) for executions recorded by             *)
(* harness/src/bin/drv_integrity.  Total: every event is consumed.         *)
(*                                                                         *)
(* Runs ("op":"new") are of three parts:                                   *)
(*  art   - one artifact built by the real builder ("bytes"), damaged in   *)
(*          every way of one fault class and loaded by one real loader.    *)
(*          The monitor derives the regions from the bytes with            *)
(*          Integrity!Regions and judges every recorded verdict with the   *)
(*          judgement rule.  A run with fault = "produce" evaluates        *)
(*          Integrity!ProduceOK on the bytes (format self-validation).     *)
(*  val   - the validation functions as pure functions: the result must be *)
(*          (Md5Digest(data) = key), MD5 being the TLA+ definition.        *)
(*  conc  - like cache, plus "race" events: a validating read of the      *)
(*          multi-layer cache with one operation of another user in        *)
(*          between its looks (the reader parked at a scheduling point);   *)
(*          judged with SafeGetP / ValidatedFlagP (Integrity section 5:    *)
(*          ValidatedOnly holds on every interleaving).                    *)
(*  cache - operations on a validating cache with an environment that      *)
(*          damages the backing store; judged with the property predicates *)
(*          of Integrity (SafeGetP, ValidatedFlagP, PutSafeP, GoneAfterP)  *)
(*          on digests computed here from the recorded bytes.              *)
(*                                                                         *)
(* Known deviations (enabled by KnownDeviations):                          *)
(*  F07a  update entry: the status byte is judged after normalisation      *)
(*  F07b  update section: no loader checks the guard                       *)
(*  F07c  archive index: footer_hash_bytes damage panics in is_valid       *)
(*  F07d  multi-layer cache: no validation above 100 MiB                   *)
(***************************************************************************)
EXTENDS Integrity, TLC, Json, IOUtils

CONSTANT KnownDeviations
Rec == ndJsonDeserialize(IOEnv.TRACE)

VARIABLES l,       \* position in Rec
          mode,    \* part of the current run
          run,     \* index of the current run's "new" event
          regs,    \* art: regions of the undamaged artifact
          expj,    \* art: number of judged positions / lengths the run must report (-1: not counted)
          seenj,   \* art: number reported so far
          seq,     \* last sequence number of the run
          pre,     \* cache: observation after the previous event (<<>> at the start of a run)
          viol, devs,
          kc,      \* fixed counters
          cnt      \* counters with computed names (coverage classes)

Bump(c, key, n) == IF n = 0 THEN c ELSE IF key \in DOMAIN c THEN [c EXCEPT ![key] = @ + n] ELSE c @@ (key :> n)
Count(S) == Cardinality(S)
Known(f) == f \in KnownDeviations
H == Rec[run]                       \* the current run's header
Pow2(i) == 2 ^ i

\* the findings of a set, each paired with the current line
SetToSeqT(S) == LET RECURSIVE F(_)
                    F(T) == IF T = {} THEN <<>> ELSE LET x == CHOOSE y \in T : TRUE IN <<<<l, x>>>> \o F(T \ {x})
                IN F(S)

\* ------------------------------------------------------------------ art
ArtBytes == H.bytes
ArtWF(e) == e.len = Len(e.bytes) /\ e.kind \in Kinds /\ WellFormed(e.kind, e.bytes)
ExpectedJudged(e, R) ==
  CASE e.fault \in {"flip", "subst"} -> Count({p \in 0..(e.len - 1) : Visited(p, e.len, e.stride, e.edge) /\ FlipJudged(R, p)})
    [] e.fault = "trunc" -> Count({m \in 0..(e.len - 1) : Visited(m, e.len, e.stride, e.edge) /\ TruncJudged(R, m)})
    [] OTHER -> 0 - 1

\* which listed finding explains one accepted / panicking load (or "" for none)
ArtDev(pos, newbyte, code, judged) ==
  IF Known("F07a") /\ H.kind = "upd" /\ pos = 22 /\ code = 2 /\ UpdStatusClass(newbyte) = UpdStatusClass(IgB(ArtBytes, 22)) THEN "F07a"
  ELSE IF Known("F07b") /\ H.kind = "updsec" /\ judged /\ Accepted(code) THEN "F07b"
  ELSE IF Known("F07c") /\ H.kind = "aidx" /\ pos = AidxHashBytesPos(ArtBytes) /\ code = 4 THEN "F07c"
  ELSE ""

\* ---- an event = the verdict codes of a block of concrete faults:
\*   flip   ps[a] = position, v[a][i] = code of flipping bit i-1
\*   subst  ps[a] = position, vals[a][i] = new byte, v[a][i] = code
\*   trunc  ms[a] = new length, v[a] = code;  extend  ns[a] bytes of fills[a] appended, v[a] = code
Sum(n, F(_)) == LET RECURSIVE G(_, _)
                    G(a, acc) == IF a > n THEN acc ELSE G(a + 1, acc + F(a))
                IN G(1, 0)
Ascending(q) == \A a \in 1..(Len(q) - 1) : q[a] < q[a + 1]
ShapeOK(e) ==
  CASE e.op = "flip"   -> /\ H.fault = "flip" /\ Len(e.ps) >= 1 /\ Len(e.v) = Len(e.ps) /\ Ascending(e.ps)
                          /\ \A a \in 1..Len(e.ps) : e.ps[a] \in 0..(H.len - 1) /\ Len(e.v[a]) = 8
    [] e.op = "subst"  -> /\ H.fault = "subst" /\ Len(e.ps) >= 1 /\ Len(e.v) = Len(e.ps) /\ Len(e.vals) = Len(e.ps) /\ Ascending(e.ps)
                          /\ \A a \in 1..Len(e.ps) : /\ e.ps[a] \in 0..(H.len - 1) /\ Len(e.v[a]) = Len(e.vals[a])
                                                     /\ \A i \in 1..Len(e.vals[a]) : e.vals[a][i] \in 0..255 /\ e.vals[a][i] # IgB(ArtBytes, e.ps[a])
    [] e.op = "trunc"  -> /\ H.fault = "trunc" /\ Len(e.ms) >= 1 /\ Len(e.v) = Len(e.ms) /\ Ascending(e.ms)
                          /\ \A a \in 1..Len(e.ms) : e.ms[a] \in 0..(H.len - 1)
    [] e.op = "extend" -> H.fault = "extend" /\ Len(e.ns) >= 1 /\ Len(e.v) = Len(e.ns) /\ \A a \in 1..Len(e.ns) : e.ns[a] >= 1
    [] e.op = "check"  -> H.fault = "produce"
    [] OTHER -> FALSE
NewByte(e, a, i) == IF e.op = "flip" THEN IgB(ArtBytes, e.ps[a]) ^^ Pow2(i - 1) ELSE e.vals[a][i]
Tally(kk, n, nj, nrej, nuacc, nualt, np, nh) ==
  [kk EXCEPT !.faults = @ + n, !.judged = @ + nj, !.judged_rejected = @ + nrej, !.unjudged_accepted = @ + nuacc,
             !.unjudged_accepted_altered = @ + nualt, !.panics = @ + np, !.huge_allocs = @ + nh]

ArtEvent(e) ==
  LET shape == ShapeOK(e) /\ e.seq = seq + 1
      posEv == e.op \in {"flip", "subst"}
      chk   == e.op = "check"
      nA    == IF ~shape \/ chk THEN 0 ELSE Len(e.v)
      A     == 1..nA
      \* codes of unit a (a position: several faults; a length: one)
      cs(a) == IF posEv THEN e.v[a] ELSE <<e.v[a]>>
      jd(a) == IF posEv THEN FlipJudged(regs, e.ps[a])
               ELSE IF e.op = "trunc" THEN TruncJudged(regs, e.ms[a]) ELSE ExtendJudged(H.kind)
      cl(a) == IF posEv THEN PosClass(regs, e.ps[a]) ELSE IF jd(a) THEN "prot" ELSE "other"
      JA    == {a \in A : jd(a)}
      bad   == {<<a, i>> \in UNION {{<<a, i>> : i \in 1..Len(cs(a))} : a \in JA} : ~Rejected(cs(a)[i])}
      dv(x) == ArtDev(IF posEv THEN e.ps[x[1]] ELSE 0 - 1, IF posEv THEN NewByte(e, x[1], x[2]) ELSE 0 - 1, cs(x[1])[x[2]], TRUE)
      unexpl == {x \in bad : dv(x) = ""}
      fids  == {dv(x) : x \in bad} \ {""}
      N(P(_, _)) == Sum(nA, LAMBDA a : Count({i \in 1..Len(cs(a)) : P(a, i)}))
      nAll  == Sum(nA, LAMBDA a : Len(cs(a)))
      nJ    == Sum(nA, LAMBDA a : IF jd(a) THEN Len(cs(a)) ELSE 0)
      k2    == Tally(kc, nAll, nJ, nJ - Count(bad),
                     N(LAMBDA a, i : ~jd(a) /\ Accepted(cs(a)[i])), N(LAMBDA a, i : ~jd(a) /\ cs(a)[i] = 3),
                     N(LAMBDA a, i : cs(a)[i] = 4), N(LAMBDA a, i : cs(a)[i] = 5))
      pok   == chk /\ shape /\ ProduceOK(H.kind, ArtBytes, H.x)
      pre_  == "cls_" \o H.kind \o "_" \o H.fault \o "_"
      NC(c) == Sum(nA, LAMBDA a : IF cl(a) = c THEN Len(cs(a)) ELSE 0)
  IN /\ viol' = IF ~shape \/ unexpl # {} THEN Append(viol, l) ELSE viol
     /\ devs' = IF shape /\ unexpl = {} /\ fids # {} THEN devs \o SetToSeqT(fids) ELSE devs
     /\ kc' = IF chk THEN [kc EXCEPT !.produce_checked = @ + 1, !.spec_mismatch = @ + (IF pok THEN 0 ELSE 1)] ELSE k2
     /\ cnt' = IF chk \/ ~shape THEN cnt
               ELSE Bump(Bump(Bump(Bump(cnt, pre_ \o "prot", NC("prot")), pre_ \o "check", NC("check")), pre_ \o "free", NC("free")),
                         pre_ \o "other", NC("other"))
     /\ seenj' = seenj + Count(JA)
     /\ seq' = e.seq
     /\ UNCHANGED <<mode, run, regs, expj, pre>>

\* ------------------------------------------------------------------ val
DataDigest(c) == IF "b" \in DOMAIN c THEN Md5Digest(c.b) ELSE c.md5
ValEvent(e) ==
  LET eq   == DataDigest(e.data) = e.ck
      good == e.op = "validate" /\ e.seq = seq + 1 /\ ((e.res = "true" /\ eq) \/ (e.res = "false" /\ ~eq))
  IN /\ viol' = IF good THEN viol ELSE Append(viol, l)
     /\ kc' = [kc EXCEPT !.val_true = @ + (IF e.res = "true" THEN 1 ELSE 0), !.val_false = @ + (IF e.res = "false" THEN 1 ELSE 0)]
     /\ seq' = e.seq
     /\ UNCHANGED <<mode, run, regs, expj, seenj, pre, devs, cnt>>

\* ---------------------------------------------------------------- cache
CacheNews == {i \in 1..Len(Rec) : Rec[i].op = "new" /\ Rec[i].part \in {"cache", "conc"}}
ValTable  == IF CacheNews = {} THEN [nm \in {} |-> <<>>] ELSE Rec[IgMin(CacheNews)].vals
CkTable   == [nm \in DOMAIN ValTable |-> Md5Digest(ValTable[nm])]       \* evaluated once (constant level)
IsNone(c) == "none" \in DOMAIN c
BigLimit  == 104857600                                                   \* 100 MiB
IsBig(c)  == "n" \in DOMAIN c /\ c.n > BigLimit
\* MD5 of a recorded content: by the TLA+ definition for recorded bytes (values of the table are looked
\* up), by the driver's digest for contents too large to record
DigestOf(c) ==
  IF "b" \in DOMAIN c
  THEN LET M == {nm \in DOMAIN ValTable : ValTable[nm] = c.b} IN
       IF M # {} THEN CkTable[CHOOSE nm \in M : TRUE] ELSE Md5Digest(c.b)
  ELSE c.md5
CValidating == H.comp # "ml" \/ H.hooks # "none"
NLayers == Len(H.kinds)
PreAt(i, key) == IF pre = <<>> THEN NoC ELSE pre[i][key]
FirstPre(key) == LET S == {i \in 1..NLayers : ~IsNone(PreAt(i, key))} IN IF S = {} THEN 0 ELSE IgMin(S)

CacheEvent(e) ==
  LET panic == "panic" \in DOMAIN e.res
      shape == e.seq = seq + 1 /\ "obs" \in DOMAIN e /\ Len(e.obs) = NLayers
      isPut == e.op = "put_val"
      isRace == e.op = "race"          \* a validating read with another user's operation in between (part conc)
      isGet == e.op = "get_val" \/ isRace
      \* ---- put_val
      putOk   == isPut /\ "ok" \in DOMAIN e.res
      matches == isPut /\ DigestOf(e.vc) = CkTable[e.ck]
      putGood == (isPut /\ CValidating) => PutSafeP(putOk, matches)
      putDev  == isPut /\ ~putGood /\ Known("F07d") /\ H.comp = "ml" /\ IsBig(e.vc)
      \* ---- get_val
      hasck   == isGet /\ e.ck # "none"
      isSome  == isGet /\ "some" \in DOMAIN e.res
      valid   == isSome /\ hasck /\ DigestOf(e.res.some) = CkTable[e.ck]
      p1      == (hasck /\ CValidating) => SafeGetP(isSome, valid)
      p2      == (hasck /\ isSome) => ValidatedFlagP(e.res.validated, valid)
      \* (the entry the read met is known from the previous observation only when nothing ran in between)
      i       == IF hasck /\ shape /\ ~isRace THEN FirstPre(e.k) ELSE 0
      corrupt == i # 0 /\ DigestOf(PreAt(IF i = 0 THEN 1 ELSE i, e.k)) # CkTable[e.ck]
      same    == i # 0 /\ e.obs[IF i = 0 THEN 1 ELSE i][e.k] = PreAt(IF i = 0 THEN 1 ELSE i, e.k)
      p3      == (hasck /\ CValidating /\ H.comp = "ml") => GoneAfterP(corrupt, same)
      \* a content above the limit was handed out without being checked (and therefore left in place)
      getDev  == isGet /\ ~(p1 /\ p2 /\ p3) /\ Known("F07d") /\ H.comp = "ml" /\ isSome /\ IsBig(e.res.some)
      good    == shape /\ ~panic /\ putGood /\ p1 /\ p2 /\ p3
      dev     == shape /\ ~panic /\ (putDev \/ getDev) /\ (isPut \/ isGet)
      B(x) == IF x THEN 1 ELSE 0
  IN /\ viol' = IF good \/ dev THEN viol ELSE Append(viol, l)
     /\ devs' = IF ~good /\ dev THEN Append(devs, <<l, "F07d">>) ELSE devs
     /\ kc' = [kc EXCEPT !.cache_events = @ + 1, !.gets_valid = @ + B(valid),
                         !.gets_refused = @ + B(isGet /\ hasck /\ "err" \in DOMAIN e.res),
                         !.gets_refused_corrupt = @ + B(isGet /\ corrupt /\ ~isSome),
                         !.puts_ok = @ + B(putOk), !.puts_refused = @ + B(isPut /\ ~putOk /\ ~matches),
                         !.damages = @ + B(e.op \in {"corrupt", "delete"} /\ "hit" \in DOMAIN e.res /\ e.res.hit),
                         !.cac_corrupt_left_in_place = @ + B(H.comp # "ml" /\ corrupt /\ same),
                         !.gone_after_checked = @ + B(H.comp = "ml" /\ CValidating /\ corrupt),
                         !.races = @ + B(isRace), !.races_parked = @ + B(isRace /\ e.parked),
                         !.races_refused = @ + B(isRace /\ "err" \in DOMAIN e.res)]
     /\ pre' = IF shape THEN e.obs ELSE pre
     /\ seq' = e.seq
     /\ UNCHANGED <<mode, run, regs, expj, seenj, cnt>>

\* ------------------------------------------------------------------ runs
CoverageGap == mode = "art" /\ expj >= 0 /\ seenj # expj
Closed(kk) == [kk EXCEPT !.coverage_gap = @ + (IF CoverageGap THEN 1 ELSE 0)]

NewRun(e) ==
  LET k0 == Closed(kc) IN
  /\ mode' = e.part /\ run' = l /\ seq' = 0 /\ pre' = <<>> /\ seenj' = 0
  /\ IF e.part = "art" THEN
        LET wf == ArtWF(e)
            R  == IF wf THEN Regions(e.kind, e.bytes) ELSE {}
        IN /\ regs' = R
           /\ expj' = IF wf THEN ExpectedJudged(e, R) ELSE 0 - 1
           /\ kc' = [k0 EXCEPT !.runs_art = @ + 1, !.malformed_artifact = @ + (IF wf THEN 0 ELSE 1),
                               !.baseline_rejected = @ + (IF e.base = 2 THEN 0 ELSE 1)]
     ELSE IF e.part \in {"cache", "conc"} THEN
        /\ regs' = {} /\ expj' = 0 - 1
        /\ kc' = [k0 EXCEPT !.runs_cache = @ + 1, !.table_mismatch = @ + (IF e.vals = ValTable /\ e.cks = CkTable THEN 0 ELSE 1)]
     ELSE /\ regs' = {} /\ expj' = 0 - 1 /\ kc' = [k0 EXCEPT !.runs_val = @ + 1]
  /\ UNCHANGED <<viol, devs, cnt>>

K0 == [faults |-> 0, judged |-> 0, judged_rejected |-> 0, unjudged_accepted |-> 0, unjudged_accepted_altered |-> 0,
       panics |-> 0, huge_allocs |-> 0, produce_checked |-> 0, spec_mismatch |-> 0, runs_art |-> 0, runs_cache |-> 0,
       runs_val |-> 0, malformed_artifact |-> 0, baseline_rejected |-> 0, table_mismatch |-> 0, coverage_gap |-> 0,
       val_true |-> 0, val_false |-> 0, cache_events |-> 0, gets_valid |-> 0, gets_refused |-> 0, gets_refused_corrupt |-> 0,
       puts_ok |-> 0, puts_refused |-> 0, damages |-> 0, cac_corrupt_left_in_place |-> 0, gone_after_checked |-> 0,
       races |-> 0, races_parked |-> 0, races_refused |-> 0]
TInit == /\ l = 1 /\ mode = "none" /\ run = 1 /\ regs = {} /\ expj = 0 - 1 /\ seenj = 0 /\ seq = 0 /\ pre = <<>>
         /\ viol = <<>> /\ devs = <<>> /\ kc = K0 /\ cnt = [x \in {} |-> 0]

Step ==
  /\ l <= Len(Rec)
  /\ LET e == Rec[l] IN
     IF e.op = "new" THEN NewRun(e)
     ELSE IF e.op = "hang" \/ mode = "none" THEN      \* a call that never returned, or an event outside any run
        /\ viol' = Append(viol, l) /\ UNCHANGED <<mode, run, regs, expj, seenj, seq, pre, devs, kc, cnt>>
     ELSE IF mode = "art" THEN ArtEvent(e)
     ELSE IF mode = "val" THEN ValEvent(e)
     ELSE CacheEvent(e)
  /\ l' = l + 1

TNext == Step
Done == (l = Len(Rec) + 1) =>
  PrintT(<<"VERDICT", ToJson([events |-> Len(Rec), violations |-> viol, deviations |-> devs] @@ Closed(kc) @@ cnt)>>)
=============================================================================
