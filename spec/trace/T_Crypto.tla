------------------------------ MODULE T_Crypto ------------------------------
(***************************************************************************)
(* Trace monitor for C09 (bindings E and T): judges every recorded call of *)
(* the cipher / hash primitives and SIMD helpers of cascette-rs.           *)
(*                                                                         *)
(*  - stateless calls {"op":"f","fn":..,args..,"ok":..,"res":..}: the      *)
(*    result must equal the executable definition (Lookup3, Salsa20, Rc4,  *)
(*    Md5, Simd) evaluated by TLC on the recorded arguments;               *)
(*  - streaming cipher instances {"op":"init",..} {"op":"apply",..}*: the  *)
(*    keystream-composition machine of Cipher.tla, instantiated with the   *)
(*    real keystream of the instance's parameters (Salsa20.tla / Rc4.tla); *)
(*    every chunk's output must be the chunk XOR-ed with the keystream at  *)
(*    the position reached so far.                                         *)
(*                                                                         *)
(* Total: every event is consumed; a call that panicked (ok = false) or    *)
(* never returned (op = "hang") is a violation, like a wrong result or a   *)
(* gap in the per-run sequence numbers.  The stream position is a function *)
(* of the inputs only (sum of the chunk lengths), so there is nothing to   *)
(* resynchronise after a non-conforming event: the rest of the run is      *)
(* still judged against the true keystream.                                *)
(*                                                                         *)
(* The keystream of the most recent parameter set is cached in `kc' and    *)
(* extended on demand (an evaluation strategy, not a relaxation: it is the *)
(* same function of (parameters, offset)).                                 *)
(*                                                                         *)
(* 32-bit values are logged as [hi16, lo16], byte strings as arrays, and   *)
(* SIMD results as the list of distinct outcomes with the CPU-feature      *)
(* subsets (bit masks, 0 = portable path) that produced each.              *)
(***************************************************************************)
EXTENDS Cipher, Lookup3, Salsa20, Rc4, Md5, Simd, TLC, Json, IOUtils

CONSTANT KnownDeviations      \* ids of findings listed as known (findings.d): enables the named deviations below
Rec == ndJsonDeserialize(IOEnv.TRACE)

\* pos, out: inherited from Cipher (the current cipher instance)
VARIABLE m      \* the monitor's state, one record (so that TLC evaluates the judgement of an event once):
                \*   l    position in Rec
                \*   seq  last sequence number seen in the current run
                \*   cur  parameters of the current cipher instance
                \*   pos  its stream position (copied to Cipher's variable pos)
                \*   out  expected output of the last application (copied to Cipher's variable out)
                \*   kc   keystream cache [p |-> parameters, ks |-> bytes so far, g |-> RC4 generator after them]
                \*   viol, devs  verdict lists

Has(e, f) == f \in DOMAIN e
RangeOf(s) == {s[i] : i \in DOMAIN s}

\* ------------------------------------------------------------ keystreams
NoParams == [kind |-> "none", key |-> <<>>, iv |-> <<>>, blk |-> WZero, ctr |-> Ctr0]
SalsaParams(key, iv, blk, ctr) == [kind |-> "salsa20", key |-> key, iv |-> iv, blk |-> blk, ctr |-> ctr]
Arc4Params(key) == [kind |-> "arc4", key |-> key, iv |-> <<>>, blk |-> WZero, ctr |-> Ctr0]
ParamsOf(e) ==
  IF e.kind = "arc4" THEN Arc4Params(e.key)
  ELSE SalsaParams(e.key, e.iv, e.blk, IF Has(e, "ctr") THEN e.ctr ELSE Ctr0)

KcFresh(p) == [p |-> p, ks |-> <<>>, g |-> IF p.kind = "arc4" THEN RcInit(p.key) ELSE 0]
\* the cache for parameters p holding at least n keystream bytes
KcEnsure(c, p, n) ==
  LET b == IF c.p = p THEN c ELSE KcFresh(p)
  IN IF Len(b.ks) >= n THEN b
     ELSE IF p.kind = "arc4"
       THEN LET r == RcGen(b.g, n - Len(b.ks), b.ks) IN [p |-> p, ks |-> r.ks, g |-> r.g]
       ELSE [p |-> p, g |-> 0,
             ks |-> b.ks \o SBlocks(p.key, p.iv, p.blk, p.ctr, Len(b.ks) \div 64, (n + 63) \div 64)]

\* --------------------------------------------------------- pure functions
ChecksumASeed == <<15723, 59761>>          \* 0x3D6BE971
GuardBit == <<32768, 0>>                   \* 0x80000000

J96Ok(data, r) ==
  LET h == HashLittle2(data, WZero, WZero)      \* <<pc, pb>>
  IN r.h64 = <<h[1][1], h[1][2], h[2][1], h[2][2]>> /\ r.h32 = h[1]

\* Guarded blocks of a saved .idx file (IDX journal v7).  Header block: block hash =
\* hashlittle(header, 0) (the pc of hashlittle2 with zero seeds).  Entry block: block hash =
\* the pc of hashlittle2 chained entry by entry, starting from pc = pb = 0 (the repository's
\* kmt_file.rs: "the sorted section uses per-entry hashlittle2() hash accumulation"; this is
\* what CascLib's guarded-block check of the EKey entries recomputes).
RECURSIVE ChainHash(_, _, _, _)
ChainHash(d, n, off, st) ==
  IF n = 0 \/ off + n > Len(d) THEN st[1]
  ELSE ChainHash(d, n, off + n, HashLittle2(SubSeq(d, off + 1, off + n), st[1], st[2]))
IdxEntryLen(h) == IF Len(h) >= 7 THEN h[5] + h[6] + h[7] ELSE 0     \* size + offset + key field lengths
IdxHeaderOk(f) ==
  /\ Len(f.header) = f.hsize /\ Len(f.entries) = f.esize
  /\ f.hhash = HashLittle(f.header, WZero)
IdxFileOk(f) ==
  IdxHeaderOk(f) /\ f.ehash = ChainHash(f.entries, IdxEntryLen(f.header), 0, <<WZero, WZero>>)
(* Dev_F09a: IndexManager::save_index stores hashlittle(entry_data, 0) - one hash over the
   whole entry block - as the entry block's hash. *)
IdxFileF09a(f) == IdxHeaderOk(f) /\ f.ehash = HashLittle(f.entries, WZero)
DevF09a(e) ==
  /\ "F09a" \in KnownDeviations /\ e.op = "f" /\ e.ok /\ e.fn = "idx_blocks"
  /\ \A i \in 1..Len(e.res) : IdxFileOk(e.res[i]) \/ IdxFileF09a(e.res[i])

\* all feature subsets produced one outcome, the portable path (mask 0) among them
OneOutcome(e) == Len(e.res) = 1 /\ 0 \in RangeOf(e.res[1].feats)
Forced(e, P(_)) == OneOutcome(e) /\ e.res[1].ok /\ P(e.res[1].r)

PureOk(e, ks) ==
  CASE e.fn = "hashlittle"   -> e.res = HashLittle(e.data, e.seed)
    [] e.fn = "hashlittle2"  -> e.res = HashLittle2(e.data, e.pc, e.pb)
    [] e.fn = "jenkins96"    -> J96Ok(e.data, e.res)
    [] e.fn = "md5keys"      -> LET d == Md5Digest(e.data) IN e.res.content = d /\ e.res.encoding = d
    [] e.fn \in {"salsa20", "arc4"} -> e.res = Whole(LAMBDA i : ks[i + 1], e.data)
    [] e.fn = "roundtrip"    -> e.res = e.data
    [] e.fn = "local_header" ->
         LET b == e.res IN Len(b) = 30 /\ SubSeq(b, 23, 26) = WToLE(HashLittle(SubSeq(b, 1, 22), ChecksumASeed))
    [] e.fn = "update_entry" ->
         LET b == e.res IN Len(b) = 24 /\ SubSeq(b, 1, 4) = WToLE(WOr(HashLittle(SubSeq(b, 5, 23), WZero), GuardBit))
    [] e.fn = "idx_blocks"   -> \A i \in 1..Len(e.res) : IdxFileOk(e.res[i])
    [] e.fn = "memcmp"  ->
         IF Len(e.a) = Len(e.b) THEN Forced(e, LAMBDA r : r = MemcmpEq(e.a, e.b))
         ELSE OneOutcome(e) /\ (e.res[1].ok => e.res[1].r \in {-1, 1})
    [] e.fn = "memeq"   -> Forced(e, LAMBDA r : r = [i \in 1..Len(e.pairs) |-> MemEqual(e.pairs[i][1], e.pairs[i][2])])
    [] e.fn = "memmem"  -> Forced(e, LAMBDA r : r = Memmem(e.h, e.n))
    [] e.fn = "memset"  -> Forced(e, LAMBDA r : r = MemsetBuf(e.buf, e.off, e.n, e.v))
    [] e.fn = "memcpy"  ->
         IF Len(e.src) = e.n THEN Forced(e, LAMBDA r : MemcpyBufOk(e.buf, e.off, e.n, e.src, r))
         ELSE OneOutcome(e) /\ (e.res[1].ok => MemcpyBufOk(e.buf, e.off, e.n, e.src, e.res[1].r))
    [] e.fn = "batch_content_keys" -> Forced(e, LAMBDA r : r = [i \in 1..Len(e.inputs) |-> Md5Digest(e.inputs[i])])
    [] e.fn \in {"batch_j96_data", "batch_j96_paths"} ->
         Forced(e, LAMBDA r : Len(r) = Len(e.inputs) /\ \A i \in 1..Len(r) : J96Ok(e.inputs[i], r[i]))
    [] OTHER -> FALSE

\* ------------------------------------------------------------ one event
\* Judge(s, e): the monitor state after event e, field good = the event conforms
Keep(s, good) == [cur |-> s.cur, pos |-> s.pos, out |-> s.out, kc |-> s.kc, good |-> good]

Judge(s, e) ==
  CASE e.op = "init" ->
         [cur |-> ParamsOf(e), pos |-> 0, out |-> <<>>, kc |-> s.kc, good |-> e.ok]
    [] e.op = "apply" ->
         IF s.cur.kind = "none" THEN Keep(s, FALSE)
         ELSE LET c2 == KcEnsure(s.kc, s.cur, s.pos + Len(e.data))
                  x  == ApplyR(LAMBDA i : c2.ks[i + 1], s.pos, e.data)
              IN [cur |-> s.cur, pos |-> x.st, out |-> x.res, kc |-> c2, good |-> e.ok /\ e.res = x.res]
    [] e.op = "f" ->
         IF ~e.ok THEN Keep(s, FALSE)
         ELSE IF e.fn \in {"salsa20", "arc4"}
           THEN LET p  == IF e.fn = "arc4" THEN Arc4Params(e.key) ELSE SalsaParams(e.key, e.iv, e.blk, Ctr0)
                    c2 == KcEnsure(s.kc, p, Len(e.data))
                IN [cur |-> s.cur, pos |-> s.pos, out |-> s.out, kc |-> c2, good |-> PureOk(e, c2.ks)]
           ELSE Keep(s, PureOk(e, <<>>))
    [] OTHER -> Keep(s, FALSE)

After(s, e) ==
  IF e.op = "new" THEN
     [s EXCEPT !.l = s.l + 1, !.seq = 0, !.cur = NoParams, !.pos = 0, !.out = <<>>]
  ELSE IF e.op = "hang" THEN     \* the call never returned (driver watchdog); the run ends here
     [s EXCEPT !.l = s.l + 1, !.viol = Append(s.viol, s.l)]
  ELSE
     LET j == Judge(s, e)
         seqok == e.seq = s.seq + 1
         dA == ~j.good /\ DevF09a(e)            \* only the listed deviation explains the event
         good == (j.good \/ dA) /\ seqok
     IN [l |-> s.l + 1, seq |-> e.seq, cur |-> j.cur, pos |-> j.pos, out |-> j.out, kc |-> j.kc,
         viol |-> IF good THEN s.viol ELSE Append(s.viol, s.l),
         devs |-> IF good /\ dA THEN Append(s.devs, <<s.l, "F09a">>) ELSE s.devs]

TInit == /\ CInit
         /\ m = [l |-> 1, seq |-> 0, cur |-> NoParams, pos |-> 0, out |-> <<>>, kc |-> KcFresh(NoParams),
                 viol |-> <<>>, devs |-> <<>>]

Step ==
  /\ m.l <= Len(Rec)
  /\ m' = After(m, Rec[m.l])
  /\ pos' = m'.pos /\ out' = m'.out       \* the Cipher machine's variables follow the monitor

TNext == Step
Done == (m.l = Len(Rec) + 1) =>
  PrintT(<<"VERDICT", ToJson([events |-> Len(Rec), violations |-> m.viol, deviations |-> m.devs])>>)
=============================================================================
