---------------------------- MODULE T_Failover ----------------------------
(***************************************************************************)
(* Trace monitor (binding T) for executions of the real RibbitTactClient   *)
(* and CdnClient against the loopback mocks of drv_failover.  Total and    *)
(* resynchronising: every event is consumed; a query is *conforming* when  *)
(* an untagged outcome of Failover!Outcomes explains (result class, digest *)
(* of the parsed answer, the mocks' request log), a *deviation* when only  *)
(* an outcome tagged with a listed finding does, a *violation* otherwise.  *)
(*                                                                         *)
(* Events: see harness/src/bin/drv_failover.rs.  A `Refused` endpoint has  *)
(* no listener, so contacts with it cannot be observed: expected contact   *)
(* sequences are compared after removing refused endpoints.                *)
(***************************************************************************)
EXTENDS Failover, Json, IOUtils

Rec == ndJsonDeserialize(IOEnv.TRACE)

VARIABLES l,       \* position in Rec
          cfgv,    \* configuration of the current run (from its "new" event)
          stv,     \* abstract state of the current run (Failover!St0 ...)
          cdn,     \* CDN family: [cached |-> set of keys, seen |-> key -> requests so far]
          seq,     \* last sequence number seen in the current run
          viol, devs

NoCfg == [fam |-> "none", cache |-> "mem", ttl |-> "long", cls |-> "versions",
          beh |-> [https |-> "Refused", http |-> "Refused", tcp |-> "Refused"],
          beh2 |-> [https |-> "Refused", http |-> "Refused", tcp |-> "Refused"],
          docs |-> [https |-> <<"", "">>, http |-> <<"", "">>, tcp |-> <<"", "">>],
          resp |-> [len |-> 0, nl |-> {}, mime_at |-> 0, nb512 |-> FALSE, prefix |-> {}],
          script |-> <<200>>, bodies |-> <<"", "", "">>]
Cdn0 == [cached |-> {}, seen |-> [k \in 1..3 |-> 0]]

CfgOfQuery(e) ==
  [NoCfg EXCEPT !.fam = e.fam, !.cache = e.cache, !.ttl = e.ttl, !.cls = e.cls, !.beh = e.beh, !.beh2 = e.beh2, !.docs = e.docs,
                !.resp = [len |-> e.resp.len, nl |-> SetOfSeq(e.resp.nl), mime_at |-> e.resp.mime_at, nb512 |-> e.resp.nb512,
                          prefix |-> {<<e.resp.prefix[i][1], e.resp.prefix[i][2]>> : i \in 1..Len(e.resp.prefix)}]]
CfgOfCdn(e) == [NoCfg EXCEPT !.fam = "cdn", !.cache = e.cache, !.script = e.script, !.bodies = e.bodies]

KnownBehs(c) == \A ep \in EPs : c.beh[ep] \in AllBeh /\ c.beh2[ep] \in AllBeh

\* the part of a contact sequence the mocks can see
Proj(st, c) == SelectSeq(c, LAMBDA ep : st.beh[ep] # "Refused")

\* The statement orders the protocols; it does not forbid asking the same endpoint again before moving on
\* (how often one protocol is retried is C14's subject): adjacent repeats in the request log are one contact.
RECURSIVE Collapse(_)
Collapse(q) == IF Len(q) <= 1 THEN q
               ELSE IF q[1] = q[2] THEN Collapse(Tail(q)) ELSE <<q[1]>> \o Collapse(Tail(q))

Matches(e, st, o) ==
  /\ o.res = e.res.class
  /\ o.res = "ok" => o.doc = e.res.digest
  /\ Proj(st, o.contacted) = Collapse(e.contacted)

\* [kind |-> "ok" | "dev" | "viol", dev |-> id, st |-> next abstract state]
JudgeQuery(e) ==
  IF ~KnownBehs(cfgv) \/ e.p \notin 1..Len(stv.cache) \/ e.res.class \notin {"ok", "err", "panic"} \/ e.t0 > e.t1
  THEN [kind |-> "viol", dev |-> "", st |-> stv]
  ELSE
  LET sq   == At(stv, e.t0, e.t1)      \* the interval of this query on the driver's monotonic clock
      any  == IF e.res.class = "ok" THEN {e.res.digest} ELSE {}
      outs == {o \in Outcomes(cfgv, sq, e.p, any) : Matches(e, sq, o)}
      good == {o \in outs : o.dev = ""}
  IN IF good # {} THEN [kind |-> "ok", dev |-> "", st |-> After(cfgv, sq, e.p, CHOOSE o \in good : TRUE)]
     ELSE IF outs # {} THEN LET o == CHOOSE x \in outs : TRUE IN [kind |-> "dev", dev |-> o.dev, st |-> After(cfgv, sq, e.p, o)]
     ELSE \* resynchronise: an answer that came from the network is what the cache now holds
          [kind |-> "viol", dev |-> "",
           st |-> IF e.res.class = "ok" /\ e.contacted # <<>>
                  THEN [stv EXCEPT !.cache[e.p] = Entry(e.res.digest, "have", stv.gen, e.t0, e.t1)] ELSE stv]

JudgeDownload(e) ==
  LET k == e.k
      known == k \in 1..3 /\ e.res.class \in {"ok", "err"}
      ok == /\ known
            /\ CdnExplains(cfgv.script, k \in cdn.cached, cdn.seen[k], e.reqs, e.res.class)
            /\ e.res.class = "ok" => e.res.digest = cfgv.bodies[k]
            /\ e.other_reqs = 0
      c2 == IF ~known THEN cdn
            ELSE [cached |-> IF e.res.class = "ok" THEN cdn.cached \cup {k} ELSE cdn.cached,
                  seen |-> [cdn.seen EXCEPT ![k] = @ + Len(e.reqs)]]
  IN [kind |-> IF ok THEN "ok" ELSE "viol", cdn |-> c2]

TInit == /\ l = 1 /\ cfgv = NoCfg /\ stv = St0(NoCfg) /\ cdn = Cdn0 /\ seq = 0 /\ viol = <<>> /\ devs = <<>>

Step ==
  /\ l <= Len(Rec)
  /\ l' = l + 1
  /\ LET e == Rec[l] IN
     IF e.op = "new" THEN
        LET c == IF e.fam = "cdn" THEN CfgOfCdn(e) ELSE CfgOfQuery(e) IN
        /\ cfgv' = c /\ stv' = St0(c) /\ cdn' = Cdn0 /\ seq' = 0
        /\ UNCHANGED <<viol, devs>>
     ELSE
        LET seqok == e.seq = seq + 1 IN
        /\ seq' = e.seq
        /\ cfgv' = cfgv
        /\ CASE e.op = "query" /\ cfgv.fam \notin {"cdn", "none"} ->
                  LET j == JudgeQuery(e) IN
                  /\ stv' = j.st /\ cdn' = cdn
                  /\ viol' = IF j.kind = "viol" \/ ~seqok THEN Append(viol, l) ELSE viol
                  /\ devs' = IF j.kind = "dev" /\ seqok THEN Append(devs, <<l, j.dev>>) ELSE devs
             [] e.op \in {"tick", "wait"} /\ cfgv.fam \notin {"cdn", "none"} ->   \* time is read from the queries' own stamps
                  /\ stv' = stv /\ cdn' = cdn /\ devs' = devs
                  /\ viol' = IF seqok THEN viol ELSE Append(viol, l)
             [] e.op = "reopen" /\ cfgv.fam \notin {"cdn", "none"} ->
                  /\ stv' = ReopenSt(cfgv, stv) /\ cdn' = cdn /\ devs' = devs
                  /\ viol' = IF seqok THEN viol ELSE Append(viol, l)
             [] e.op = "flip" /\ cfgv.fam \notin {"cdn", "none"} ->
                  /\ stv' = FlipSt(cfgv, stv) /\ cdn' = cdn /\ devs' = devs
                  /\ viol' = IF seqok THEN viol ELSE Append(viol, l)
             [] e.op = "download" /\ cfgv.fam = "cdn" ->
                  LET j == JudgeDownload(e) IN
                  /\ cdn' = j.cdn /\ stv' = stv /\ devs' = devs
                  /\ viol' = IF j.kind = "viol" \/ ~seqok THEN Append(viol, l) ELSE viol
             [] e.op = "reopen" /\ cfgv.fam = "cdn" ->
                  /\ cdn' = (IF cfgv.cache = "disk" THEN cdn ELSE [cdn EXCEPT !.cached = {}])
                  /\ stv' = stv /\ devs' = devs
                  /\ viol' = IF seqok THEN viol ELSE Append(viol, l)
             [] OTHER ->   \* client_failed, unknown operations, events outside a run: never conforming
                  /\ UNCHANGED <<stv, cdn, devs>>
                  /\ viol' = Append(viol, l)

TNext == Step
Done == (l = Len(Rec) + 1) =>
  PrintT(<<"VERDICT", ToJson([events |-> Len(Rec), violations |-> viol, deviations |-> devs])>>)
=============================================================================
