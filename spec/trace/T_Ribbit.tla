------------------------------ MODULE T_Ribbit ------------------------------
(***************************************************************************)
(* Trace monitor (binding T) for executions of the real cascette-ribbit    *)
(* server and the project's own clients, recorded by                       *)
(* harness/src/bin/drv_ribbit.rs.  Total: every event is consumed and      *)
(* judged with the operators of Ribbit.tla (Newest, Columns, Denotes,      *)
(* RespOk, IsValid, BadOutcomeOk) and the listed deviations.  There is     *)
(* little to resynchronise: requests are independent of each other, the    *)
(* monitor state is the database of the run and the class of every open    *)
(* raw connection, both taken from the program echo, never from results.   *)
(*                                                                         *)
(*   {"op":"new","fam":f,"cfg":{hosts,path},"db":[build..],"accepted":b}   *)
(*   {"op":"query","seq":n,"tr":"v1|v2|http","product":p,"ep":e,"res":R}   *)
(*        R = {"out":"rows","rows":[[{"n","k","v","raw"}..]..]}            *)
(*          | {"out":"err"|"panic"|"timeout",..}                           *)
(*   {"op":"open","seq":n,"c":c,"tr":"tcp|http","n":k,"res":{connected}}   *)
(*   {"op":"send","seq":n,"c":c,"cls":class,"res":{sent}}                  *)
(*   {"op":"finish","seq":n,"c":c,"res":{"outs":[{out,status,rows,..}..]}} *)
(*   {"op":"end","seq":n,"res":{"panics":[..],"server_exited":b,           *)
(*                              "tcp_exited":b}}                           *)
(*   {"op":"hang",..}                      driver watchdog                 *)
(***************************************************************************)
EXTENDS Ribbit, TLC, Json, IOUtils

Rec == ndJsonDeserialize(IOEnv.TRACE)

\* conn, order: inherited from Ribbit, unused by the monitor (it tracks raw connections in `raw`)
VARIABLES l,        \* position in Rec
          db, cfg,  \* database / configuration of the current run (program echo)
          fam,
          graded,   \* FALSE: the run's database is outside the grid of Ribbit.tla - nothing can be judged
          live,     \* FALSE: the database was rejected at start-up - no further events are expected
          raw,      \* raw[c] = [tr, cls, n]: raw connections opened and not yet finished ("cls" = "none" before send)
          exhausted,\* a connection group was opened with the descriptor limit lowered (family "flood")
          ended,    \* the run has delivered its "end" event
          seq,
          viol, devs, nungraded, nquery, nrows

NoCfg == [hosts |-> "", path |-> ""]

TInit == /\ l = 1 /\ db = <<>> /\ cfg = NoCfg /\ fam = "none" /\ graded = FALSE /\ live = FALSE
         /\ raw = <<>> /\ exhausted = FALSE /\ ended = TRUE /\ seq = 0
         /\ viol = <<>> /\ devs = <<>> /\ nungraded = 0 /\ nquery = 0 /\ nrows = 0
         /\ conn = [c \in Conns |-> Idle] /\ order = <<>>

Has(c) == \E i \in 1..Len(raw) : raw[i].c = c
Get(c) == raw[CHOOSE i \in 1..Len(raw) : raw[i].c = c]
Drop(c) == SelectSeq(raw, LAMBDA x : x.c # c)

\* ---- judging a request sent through the project's own client ---------------
StrCols(ep) == IF ep = "cdns" THEN {"Path", "Hosts", "ConfigPath"} ELSE {"VersionsName"}
SepIn(cols, ep) == \E n \in StrCols(ep) : Attr(cols[n]).sep
NaIn(cols, ep)  == \E n \in StrCols(ep) : Attr(cols[n]).na

\* the verdict on `res` if build b is the one that has to be served: "ideal", a finding id, or "no"
ExplainB(b, tr, ep, res) ==
  LET cols == Columns(b, cfg, ep)
      path == PathOf(b, cfg) IN
  IF res.out = "rows" /\ RespOk(res.rows, cols, ep) THEN "ideal"
  \* F15a: a '|' or line feed inside an emitted string shifts / splits the row: the client rejects the
  \* document or reads rows that are not the record
  ELSE IF Known("F15a") /\ SepIn(cols, ep) /\ res.out \in {"err", "rows"} THEN "F15a"
  \* F15b: BuildId is declared DEC but `build` is only checked for emptiness
  ELSE IF Known("F15b") /\ ep # "cdns" /\ ~IsDec(b.build) /\ res.out = "err" THEN "F15b"
  \* F15d: KeyRing is declared HEX but `keyring` is not validated at all
  ELSE IF Known("F15d") /\ ep # "cdns" /\ Opt(b.keyring) # "" /\ ~IsHex(Opt(b.keyring)) /\ res.out = "err" THEN "F15d"
  \* F15e: the client trims the row, so trailing white space of the last column (ConfigPath) is lost
  ELSE IF /\ Known("F15e") /\ ep = "cdns" /\ Attr(path).trimmed # path /\ res.out = "rows"
          /\ RespOk(res.rows, [cols EXCEPT !.ConfigPath = Attr(path).trimmed], ep) THEN "F15e"
  \* F15h: RibbitClient slices the response text at byte 512, which panics inside a multi-byte character
  ELSE IF Known("F15h") /\ tr \in {"v1", "v2"} /\ NaIn(cols, ep) /\ res.out = "panic" THEN "F15h"
  ELSE "no"

Best(S) == IF "ideal" \in S THEN "ideal" ELSE IF S \ {"no"} # {} THEN CHOOSE x \in S \ {"no"} : TRUE ELSE "no"

\* result: sequence of finding ids that explain the event (<<>> = conforms to the ideal specification),
\* or <<"VIOLATION">>
JudgeQuery(e) ==
  LET r   == [cls |-> "valid", tr |-> e.tr, product |-> e.product, ep |-> e.ep]
      res == e.res
      dead == exhausted /\ Known("F15g") /\ e.tr \in {"v1", "v2"} /\ res.out = "err" IN
  IF ~IsValid(db, r) THEN
     \* unknown product / endpoint: the client must come back with an error, not with rows
     IF res.out = "err" THEN <<>> ELSE <<"VIOLATION">>
  ELSE IF r.ep = "summary" THEN
     IF res.out = "rows" /\ SummaryOk(res.rows, db) THEN <<>>
     ELSE IF Known("F15a") /\ (\E p \in Products(db) : Attr(p).sep) /\ res.out \in {"err", "rows"} THEN <<"F15a">>
     ELSE IF dead THEN <<"F15g">>
     ELSE <<"VIOLATION">>
  ELSE
     LET ideal == Best({ExplainB(b, e.tr, e.ep, res) : b \in Newest(db, e.product)})
         \* F15c: the build served is the one whose build_time string sorts last
         lexed == IF Known("F15c") THEN Best({ExplainB(b, e.tr, e.ep, res) : b \in LexNewest(db, e.product)}) ELSE "no"
     IN IF ideal = "ideal" THEN <<>>
        ELSE IF ideal # "no" THEN <<ideal>>
        ELSE IF lexed = "ideal" THEN <<"F15c">>
        ELSE IF lexed # "no" THEN <<"F15c", lexed>>
        \* F15g: the TCP accept loop ended at the first accept error; TCP requests are refused from then on
        ELSE IF dead THEN <<"F15g">>
        ELSE <<"VIOLATION">>

\* ---- judging what a raw socket saw for a malformed / unknown request ------------
JudgeFinish(c, outs) ==
  IF c.cls = "none" \/ c.cls = "valid" THEN <<"VIOLATION">>   \* not a program of this specification
  ELSE IF \A i \in 1..Len(outs) : BadOutcomeOk(c.tr, outs[i]) THEN <<>>
  \* F15f: the HTTP listener never times out a request that is not finished
  ELSE IF /\ Known("F15f") /\ c.tr = "http" /\ c.cls \in Unterminated
          /\ \A i \in 1..Len(outs) : BadOutcomeOk(c.tr, outs[i]) \/ outs[i].out = "open" THEN <<"F15f">>
  ELSE <<"VIOLATION">>

Flag(j) == j = <<"VIOLATION">>
AddDevs(d, j, at) == IF Flag(j) \/ j = <<>> THEN d ELSE d \o [i \in 1..Len(j) |-> <<at, j[i]>>]

Step ==
  /\ l <= Len(Rec)
  /\ LET e == Rec[l] IN
     IF e.op = "new" THEN
        LET ingrid == DbInGrid(e.db, e.cfg)
            \* the server may refuse a database - but not one that is plain in every field
            good   == ~ingrid \/ e.accepted \/ ~DbPlain(e.db, e.cfg) IN
        /\ db' = e.db /\ cfg' = e.cfg /\ fam' = e.fam /\ graded' = ingrid /\ live' = e.accepted
        /\ raw' = <<>> /\ exhausted' = FALSE /\ ended' = ~e.accepted /\ seq' = 0
        \* the previous run must have been completed
        /\ viol' = (IF ended THEN viol ELSE Append(viol, l - 1)) \o (IF good THEN <<>> ELSE <<l>>)
        /\ nungraded' = IF ingrid THEN nungraded ELSE nungraded + 1
        /\ UNCHANGED <<devs, nquery, nrows>>
     ELSE IF ~graded THEN
        /\ nungraded' = nungraded + 1
        /\ ended' = (ended \/ e.op \in {"end", "hang"})
        /\ UNCHANGED <<db, cfg, fam, graded, live, raw, exhausted, seq, viol, devs, nquery, nrows>>
     ELSE IF e.op = "hang" \/ ~live THEN
        \* the program did not finish within the driver's deadline, or events after a rejected database
        /\ viol' = Append(viol, l) /\ ended' = TRUE
        /\ UNCHANGED <<db, cfg, fam, graded, live, raw, exhausted, seq, devs, nungraded, nquery, nrows>>
     ELSE
        LET seqok == e.seq = seq + 1 IN
        /\ seq' = e.seq
        /\ UNCHANGED <<db, cfg, fam, graded, live, nungraded>>
        /\ IF e.op = "query" THEN
              LET j == JudgeQuery(e) IN
              /\ viol' = IF Flag(j) \/ ~seqok THEN Append(viol, l) ELSE viol
              /\ devs' = AddDevs(devs, j, l)
              /\ nquery' = nquery + 1
              /\ nrows' = IF e.res.out = "rows" THEN nrows + Len(e.res.rows) ELSE nrows
              /\ UNCHANGED <<raw, exhausted, ended>>
           ELSE IF e.op = "open" THEN
              \* every connection is established (the kernel completes the handshake whatever the server does)
              LET good == ~Has(e.c) /\ e.res.connected = e.n IN
              /\ raw' = Append(raw, [c |-> e.c, tr |-> e.tr, cls |-> "none", n |-> e.n])
              \* family flood: the driver leaves the server descriptors for only half of this group
              /\ exhausted' = (exhausted \/ fam = "flood")
              /\ viol' = IF good /\ seqok THEN viol ELSE Append(viol, l)
              /\ UNCHANGED <<devs, ended, nquery, nrows>>
           ELSE IF e.op = "send" THEN
              LET good == Has(e.c) /\ Get(e.c).cls = "none" /\ (e.cls \in CompleteBad \/ e.cls \in Unterminated) IN
              /\ raw' = IF Has(e.c) THEN [i \in 1..Len(raw) |-> IF raw[i].c = e.c THEN [raw[i] EXCEPT !.cls = e.cls] ELSE raw[i]] ELSE raw
              /\ viol' = IF good /\ seqok THEN viol ELSE Append(viol, l)
              /\ UNCHANGED <<exhausted, devs, ended, nquery, nrows>>
           ELSE IF e.op = "finish" THEN
              LET j == IF Has(e.c) THEN JudgeFinish(Get(e.c), e.res.outs) ELSE <<"VIOLATION">> IN
              /\ raw' = Drop(e.c)
              /\ viol' = IF Flag(j) \/ ~seqok THEN Append(viol, l) ELSE viol
              /\ devs' = AddDevs(devs, j, l)
              /\ UNCHANGED <<exhausted, ended, nquery, nrows>>
           ELSE IF e.op = "end" THEN
              \* never crashes: no panic on a server thread, both listener tasks are still running
              LET clean == e.res.panics = <<>> /\ ~e.res.server_exited
                  \* F15g: the TCP accept loop returned at the first accept error
                  devG  == clean /\ e.res.tcp_exited /\ Known("F15g") /\ exhausted
                  good  == clean /\ (~e.res.tcp_exited \/ devG) IN
              /\ viol' = IF good /\ seqok THEN viol ELSE Append(viol, l)
              /\ devs' = IF devG THEN Append(devs, <<l, "F15g">>) ELSE devs
              /\ ended' = TRUE
              /\ UNCHANGED <<raw, exhausted, nquery, nrows>>
           ELSE
              /\ viol' = Append(viol, l)
              /\ UNCHANGED <<raw, exhausted, devs, ended, nquery, nrows>>
  /\ l' = l + 1
  /\ UNCHANGED <<conn, order>>

TNext == Step
Done == (l = Len(Rec) + 1) =>
  PrintT(<<"VERDICT", ToJson([events |-> Len(Rec), violations |-> IF ended THEN viol ELSE Append(viol, Len(Rec)),
                              deviations |-> devs, ungraded |-> nungraded, queries |-> nquery, rows |-> nrows])>>)
=============================================================================
