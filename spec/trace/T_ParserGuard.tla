--------------------------- MODULE T_ParserGuard ---------------------------
(***************************************************************************)
(* Trace monitor (binding T) for C02: one event per call of a real parser  *)
(* of cascette-rs in an isolated child process (harness/src/bin/drv_parse).*)
(*                                                                         *)
(* Event (ndjson, written by the parent process of the driver):            *)
(*   {"op":"parse","id":n,"src":"fixture|model|mut|replay","fmt":f,        *)
(*    "seed":s,"how":m,"dg":md5,"len":bytes,"decomp":bool,                 *)
(*    "h":{field: limbs},  header fields of the input (layout table)       *)
(*    "v":{field: class}   (src = model) the boundary vector of TLC        *)
(*    "o":"ok|err|panic|abort|hang","why":"alloc|capacity|stack|...",      *)
(*    "mc":message class,"loc":source file of a panic,                     *)
(*    "peak_kib":n,"largest_kib":n,"ms":n,"more":bool,"rerun":bool}        *)
(* "rt" and "bprog" events of the same trace belong to C08 and are only    *)
(* counted here.                                                           *)
(*                                                                         *)
(* Judgement of a parse event, exactly the property:                       *)
(*   outcome in {ok, err}  /\  peak and largest single request within      *)
(*   AllocBoundKiB(len, decomp)                                            *)
(* A non-conforming event is a *deviation* iff a listed finding explains   *)
(* it: by its guard on the concrete header fields (DevExplains), or - for  *)
(* a model vector - because the abstract parser of ParserGuard.tla with    *)
(* that finding's guard skipped produces the same symptom on the same      *)
(* vector.  Everything else is a violation.  Events are independent (no    *)
(* state to resynchronise); continuity of the per-worker id sequence is    *)
(* checked so that a dropped event is noticed.                             *)
(***************************************************************************)
EXTENDS ParserGuard, TLC, Json, IOUtils

CONSTANT Stride      \* number of worker shards of the driver run (ids advance by it)
Rec == ndJsonDeserialize(IOEnv.TRACE)

VARIABLES l, lastid, viol, devs, nparse

Outcomes == {"ok", "err", "panic", "abort", "hang"}
WellFormed(e) ==
  /\ {"id", "src", "fmt", "len", "decomp", "h", "o", "why", "mc", "loc", "peak_kib", "largest_kib"} \subseteq DOMAIN e
  /\ e.o \in Outcomes /\ e.len >= 0 /\ e.peak_kib >= 0 /\ e.largest_kib >= 0

FinalSymptom(s, fmt) ==
  IF s.out = "panic" THEN "panic"
  ELSE IF s.out = "stack" THEN "stack"
  ELSE IF s.out = "abort" \/ s.peak > AllocBoundKiB(L, Decomp(fmt)) THEN "alloc"
  ELSE "none"
\* vectors come back from JSON as records over the head format's field names
VecOf(e) == e.v
ModelFids(e) ==
  IF e.src = "model" /\ "v" \in DOMAIN e /\ Row(e.fmt) # <<>> /\ FieldNames(e.fmt) \subseteq DOMAIN e.v
  THEN {Row(e.fmt)[s.i].dev : s \in {t \in Finals(e.fmt, VecOf(e), KnownDeviations) :
                                         t.out # "ok" /\ FinalSymptom(t, e.fmt) = Symptom(e)}} \ {"-"}
  ELSE {}
GuardFids(e) == {fid \in KnownDeviations : DevExplains(fid, e)}

IdOk(e) == lastid = -1 \/ e.id = lastid \/ e.id = lastid + Stride \/ e.id < lastid

TInit == l = 1 /\ lastid = -1 /\ viol = <<>> /\ devs = <<>> /\ nparse = 0

Step ==
  /\ l <= Len(Rec)
  /\ LET e == Rec[l] IN
     IF e.op # "parse" THEN
        /\ viol' = IF "id" \in DOMAIN e /\ IdOk(e) THEN viol ELSE Append(viol, l)
        /\ lastid' = IF "id" \in DOMAIN e THEN e.id ELSE lastid
        /\ UNCHANGED <<devs, nparse>>
     ELSE IF ~WellFormed(e) THEN
        /\ viol' = Append(viol, l)
        /\ lastid' = IF "id" \in DOMAIN e THEN e.id ELSE lastid
        /\ UNCHANGED <<devs, nparse>>
     ELSE
        LET sym  == Symptom(e)
            fids == IF sym = "none" THEN {} ELSE GuardFids(e) \cup ModelFids(e)
            good == (sym = "none" \/ fids # {}) /\ IdOk(e)
        IN /\ viol' = IF good THEN viol ELSE Append(viol, l)
           /\ devs' = IF good /\ sym # "none" THEN Append(devs, <<l, FirstOf(fids)>>) ELSE devs
           /\ lastid' = e.id
           /\ nparse' = nparse + 1
  /\ l' = l + 1

TNext == Step
Done == (l = Len(Rec) + 1) =>
  PrintT(<<"VERDICT", ToJson([events |-> Len(Rec), violations |-> viol, deviations |-> devs, judged |-> nparse])>>)
=============================================================================
