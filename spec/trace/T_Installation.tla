--------------------------- MODULE T_Installation ---------------------------
(***************************************************************************)
(* Trace monitor (binding T) for executions recorded by                    *)
(* harness/src/bin/drv_installation.  Total: every event is consumed and   *)
(* judged with the operators of Installation.tla; the state after an event *)
(* is computed from the recorded inputs and answers, so a non-conforming   *)
(* event does not derail the rest of the run.                              *)
(*                                                                         *)
(* A run starts with {"op":"new","fam":...} (the header: payload table,    *)
(* manifests, path table / key bytes / base listing) and continues with    *)
(* one event per call: the operation with its arguments, "seq", "res" and  *)
(* the read-back "obs".                                                    *)
(***************************************************************************)
EXTENDS Installation, Json, IOUtils

Rec == ndJsonDeserialize(IOEnv.TRACE)

VARIABLES l,      \* position in Rec
          hdr,    \* header of the current run
          st,     \* state of the family's specification
          seq,    \* last sequence number of the run
          viol, devs, cnt

Cnt0 == [nviol |-> 0, n_chain |-> 0, n_chain_ok |-> 0, n_exact |-> 0, n_nf |-> 0, n_alias |-> 0, n_verify |-> 0, n_stats |-> 0, n_raw |-> 0,
         n_stor |-> 0, n_refused |-> 0, n_binfo |-> 0, n_active |-> 0, n_val |-> 0, n_batch |-> 0, n_krfile |-> 0, n_krflip |-> 0,
         n_kifile |-> 0, n_kiflip |-> 0] @@ [d \in {"dev_" \o x : x \in AllDevs} |-> 0]
Bump(c, f, b) == IF b THEN [c EXCEPT ![f] = @ + 1] ELSE c
BumpDevs(c, ds) == [f \in DOMAIN c |-> IF \E x \in ds : f = "dev_" \o x THEN c[f] + 1 ELSE c[f]]

Fam(h) == IF h.fam = "kmt" THEN h.sub ELSE h.fam
S0Of(h) == CASE Fam(h) = "inst" -> InS0 [] Fam(h) = "stor" -> SmS0 [] Fam(h) = "res" -> KrS0 [] Fam(h) = "idx" -> KiS0 [] OTHER -> <<>>

\* the judgement of one event: [ok, devs, st]
Judge(h, s, e) ==
  CASE Fam(h) = "inst" ->
         IF s.dead THEN [ok |-> TRUE, devs |-> {}, st |-> s]
         ELSE LET j == InJudge(h, s, e) IN [ok |-> j.ok, devs |-> j.devs, st |-> InSettle(InAfter(h, s, e), e, j.devs)]
    [] Fam(h) = "stor"  -> SmJudge(h, s, e)
    [] Fam(h) = "binfo" -> [ok |-> BiOK(e), devs |-> {}, st |-> s]
    [] Fam(h) = "val"   -> IF e.op = "format" THEN [ok |-> VaFormatOK(e), devs |-> {}, st |-> Append(s, e.cfg)]
                           ELSE [ok |-> VaBatchOK(s, e), devs |-> {}, st |-> s]
    [] Fam(h) = "res"   -> LET j == KrJudge(h, s, e) IN [ok |-> j.ok, devs |-> j.devs, st |-> KrAfter(s, e)]
    [] Fam(h) = "idx"   -> LET j == KiJudge(h, s, e) IN [ok |-> j.ok, devs |-> j.devs, st |-> KiAfter(h, s, e)]
    [] OTHER -> [ok |-> FALSE, devs |-> {}, st |-> s]

\* anti-vacuity counters
Count(c, h, s, e, j) ==
  CASE Fam(h) = "inst" ->
         LET chain == e.op \in {"read_p", "read_f"}
             okr   == "md5" \in DOMAIN e
         IN Bump(Bump(Bump(Bump(Bump(Bump(Bump(Bump(c, "n_chain", chain), "n_chain_ok", chain /\ okr /\ j.devs = {}),
                 "n_exact", e.op = "read_e" /\ okr), "n_nf", e.res = "err:NotFound"),
                 "n_alias", e.op = "read_p" /\ hdr.paths[e.s].base = "-"), "n_verify", e.op = "verify"), "n_stats", e.op = "stats"),
                 "n_raw", e.op = "raw" /\ e.res = "ok")
    [] Fam(h) = "stor"  -> Bump(Bump(c, "n_stor", TRUE), "n_refused", e.op = "open" /\ e.res # "ok")
    [] Fam(h) = "binfo" -> Bump(Bump(c, "n_binfo", TRUE), "n_active", e.res = "ok" /\ e.d.active.some)
    [] Fam(h) = "val"   -> Bump(Bump(c, "n_val", e.op = "format"), "n_batch", e.op = "batch")
    [] Fam(h) = "res"   -> Bump(Bump(c, "n_krfile", e.op = "save"), "n_krflip", e.op = "reload" /\ s.flt # <<>>)
    [] Fam(h) = "idx"   -> Bump(Bump(c, "n_kifile", e.op = "save"), "n_kiflip", e.op = "reload" /\ s.flt # <<>>)
    [] OTHER -> c

TInit == l = 1 /\ hdr = <<>> /\ st = <<>> /\ seq = 0 /\ viol = <<>> /\ devs = <<>> /\ cnt = Cnt0

Flag(v) == IF Len(v) < 200 THEN Append(v, l) ELSE v
Step ==
  /\ l <= Len(Rec)
  /\ LET e == Rec[l] IN
     IF e.op = "new" THEN
        /\ hdr' = e /\ st' = S0Of(e) /\ seq' = 0 /\ devs' = devs
        /\ LET bad == "res" \in DOMAIN e /\ e.res # "ok" IN
           /\ viol' = IF bad THEN Flag(viol) ELSE viol
           /\ cnt' = Bump(cnt, "nviol", bad)
     ELSE IF e.op = "hang" THEN
        /\ viol' = Flag(viol) /\ cnt' = Bump(cnt, "nviol", TRUE) /\ UNCHANGED <<hdr, st, seq, devs>>
     ELSE
        \E j \in {Judge(hdr, st, e)} :
           LET good == j.ok /\ e.seq = seq + 1 /\ j.devs \subseteq KnownDeviations IN
           /\ hdr' = hdr /\ st' = j.st /\ seq' = e.seq
           /\ viol' = IF good THEN viol ELSE Flag(viol)
           /\ devs' = IF good /\ j.devs # {} /\ Len(devs) < 200 THEN Append(devs, <<l, CHOOSE x \in j.devs : TRUE>>) ELSE devs
           /\ cnt' = Count(BumpDevs(Bump(cnt, "nviol", ~good), IF good THEN j.devs ELSE {}), hdr, st, e, j)
  /\ l' = l + 1

TNext == Step
View == l
Done == (l = Len(Rec) + 1) =>
  PrintT(<<"VERDICT", ToJson([events |-> Len(Rec), violations |-> viol, deviations |-> devs] @@ cnt)>>)
=============================================================================
