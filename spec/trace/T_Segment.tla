----------------------------- MODULE T_Segment -----------------------------
(***************************************************************************)
(* Trace monitor (binding T) for executions of the real segment allocator, *)
(* the pure segment functions and DynamicContainer's use of them.  Total   *)
(* and resynchronising: every event is consumed and judged with the        *)
(* operators of Segment.tla; the directory (`flen`) is always taken from   *)
(* the logged listing and the allocator's segment list is rebuilt from the *)
(* logged getters after a non-conforming event, so the rest of a run is    *)
(* still judged.                                                           *)
(*                                                                         *)
(* Events (one JSON object per line, written by drv_segment):              *)
(*  {"op":"new","kind":"alloc","max":M,"pre":[[i,len]..],"load":b,         *)
(*   "res":{"ok":true}|{"err":..}, "obs":O}              run boundary      *)
(*  {"op":"alloc","size":S,"w":0|1[,"big":..],"seq":k,                     *)
(*   "res":{"ok":[seg,off]}|{"err":kind}|{"outcome":"panic",..},           *)
(*   "created":[{"i","len","keys":[[9 bytes]x16],"gen":b}..],              *)
(*   ["wrote":{"ok":b,"seg":i,"end":n}], "obs":O}                          *)
(*  {"op":"freeze"|"thaw","i":i,"res":{"ok":b},"obs":O}                    *)
(*  {"op":"load","res":{"ok":true},"obs":O}                                *)
(*  {"op":"reopen","max":M,"load":b,"res":..,"obs":O}                      *)
(*     O = {"count":n,"segs":[{"ix","st":"T"|"F","wp"}..],"beyond":b,      *)
(*          "files":[[i,len]..],"other":n}                                 *)
(*  {"op":"new","kind":"fn"}; {"op":"bucket"|"path"|"parse"|"codec"|       *)
(*   "header"|"space", args.., "res":{"v":..}|{"outcome":"panic"}}         *)
(*  {"op":"new","kind":"dyn","limit":L,"maxsize":S,"pre":..,"res":..,      *)
(*   "obs":Q}; {"op":"write","len":n,..}; {"op":"reopen",..}               *)
(*     Q = {"count","limit","maxsize","files","other",                     *)
(*          "heads":[{"i","keys"}..]}                                      *)
(*  {"op":"hang",..}                        the call never returned        *)
(*                                                                         *)
(* Known deviations (granted only when listed in KnownDeviations; each is  *)
(* a relaxation of one conjunct of the judge under a precise guard, see    *)
(* AllocOKd / DynOKd in Segment.tla):                                      *)
(*  FX01a  allocate hands out a range in an index below segment_count()    *)
(*         that has no data file (a gap left by load_existing); guard: the *)
(*         target has no file before and after the call, everything else   *)
(*         (bounds, disjointness, other files) is in order.                *)
(*  FX01b  a size above SegSize - Hdr is not refused; guard: size > Cap,   *)
(*         the result is offset Hdr of a *new* segment below the limit -   *)
(*         or, for size = u64::MAX, a panic while a segment is Thawed or   *)
(*         can be created.  has_space_for: panic for size u64::MAX on a    *)
(*         Thawed segment.                                                 *)
(*  FX01c  a loaded file shorter than Hdr: after thaw the range starts     *)
(*         inside the header area (>= the file's length), the file is left *)
(*         without a header block.                                         *)
(*  FX01d  an allocator that has not loaded the directory creates segment  *)
(*         n over an existing file data.n (the file is replaced).          *)
(*  FX01e  DynamicContainer::write succeeds although the data file grows   *)
(*         beyond max_segment_size / lies at or beyond segment_limit.      *)
(*  FX01f  DynamicContainer::segment_count() after a write still shows the *)
(*         value of the last open().                                       *)
(*  FX01g  a data file created by DynamicContainer::write has no valid     *)
(*         segment header block.                                           *)
(***************************************************************************)
EXTENDS Segment, TLC, Json, IOUtils

CONSTANT KnownDeviations
Rec == ndJsonDeserialize(IOEnv.TRACE)

VARIABLES l, kind, s, seq, viol, devs, stats

Has(r, f) == f \in DOMAIN r
IsPanic(e) == Has(e.res, "outcome")
\* the listing [[index, length], ..] as a function (fast path: indices 0..n-1 in order, e.g. 1023 files)
FilesOf(q) == IF \A k \in DOMAIN q : q[k][1] = k - 1 THEN [i \in 0..(Len(q) - 1) |-> q[i + 1][2]]
              ELSE [i \in {q[k][1] : k \in DOMAIN q} |-> q[CHOOSE k \in DOMAIN q : q[k][1] = i][2]]
HeadsOf(q) == [i \in {q[k].i : k \in DOMAIN q} |-> q[CHOOSE k \in DOMAIN q : q[k].i = i].keys]
ObsA(e) == [count |-> e.obs.count, segs |-> e.obs.segs, beyond |-> e.obs.beyond]

AllocDevs == {"FX01a", "FX01b", "FX01c", "FX01d"} \cap KnownDeviations

\* rebuild the segment list from the getters where the model cannot explain them
Resync(st, o) ==
  [st EXCEPT !.segs =
     [i \in 1..Len(o.segs) |->
        IF i <= Len(st.segs) /\ (st.segs[i].st = "A" \/ (st.segs[i].st = o.segs[i].st /\ o.segs[i].wp >= SMin(Hi(st.segs[i]), Big)))
        THEN st.segs[i]
        ELSE [st |-> IF o.segs[i].st \in {"T", "F"} THEN o.segs[i].st ELSE "A", base |-> o.segs[i].wp, al |-> {}]]]
After(x, o) == IF ObsOK(x, o) THEN x ELSE Resync(x, o)

ResOf(e) ==
  IF IsPanic(e) THEN RPanic
  ELSE IF Has(e.res, "err") THEN RErr
  ELSE ROk(e.res.ok[1], e.res.ok[2])

RECURSIVE SeqOfSet(_)
SeqOfSet(S) == IF S = {} THEN <<>> ELSE LET m == CHOOSE x \in S : TRUE IN <<m>> \o SeqOfSet(S \ {m})

Stats0 == [alloc_ok |-> 0, alloc_err |-> 0, alloc_new |-> 0, alloc_written |-> 0, alloc_ideal |-> 0,
           frz_true |-> 0, frz_false |-> 0, loads |-> 0, reopens |-> 0, fn_ops |-> 0, dyn_writes |-> 0, dyn_opens |-> 0]
Bump(f) == [stats EXCEPT ![f] = @ + 1]

\* ---- kind "alloc": each Judge returns [good, dv (set of finding ids), st (model state after), stats] ----
JudgeAlloc(e) ==
  LET r    == ResOf(e)
      of   == FilesOf(e.obs.files)
      huge == Has(e, "big") /\ e.big = "u64max"
      okp  == AllocOKd(s, e.size, r, of, huge, {})
      Ds   == IF okp THEN {{}} ELSE {dd \in SUBSET AllocDevs : AllocOKd(s, e.size, r, of, huge, dd)}
      dv   == IF Ds = {} THEN {} ELSE CHOOSE dd \in Ds : \A ee \in Ds : Cardinality(dd) <= Cardinality(ee)
      hdrs == \A k \in DOMAIN e.created : e.created[k].len >= Hdr /\ HeaderOK(e.created[k].keys)
      s1   == AllocNext(s, e.size, r, of)
      o    == ObsA(e)
      s2   == After(s1, o)
      s3   == IF Has(e, "wrote") /\ e.wrote.ok THEN WroteR(s2, e.wrote.seg, e.wrote.end) ELSE s2
      isnew == r.kind = "ok" /\ r.seg >= Len(s.segs)
      ideal == AllocR(s, e.size).res = r
      st1  == [stats EXCEPT !.alloc_ok = @ + (IF r.kind = "ok" THEN 1 ELSE 0),
                            !.alloc_err = @ + (IF r.kind = "err" THEN 1 ELSE 0),
                            !.alloc_new = @ + (IF isnew THEN 1 ELSE 0),
                            !.alloc_written = @ + (IF Has(e, "wrote") /\ e.wrote.ok THEN 1 ELSE 0),
                            !.alloc_ideal = @ + (IF ideal THEN 1 ELSE 0)]
  IN [good |-> Ds # {} /\ hdrs /\ ObsOK(s1, o), dv |-> dv, st |-> s3, stats |-> st1]

JudgeFlip(e, x) ==        \* freeze / thaw; x = FreezeR / ThawR of the model
  LET of  == FilesOf(e.obs.files)
      o   == ObsA(e)
      gap == e.i < Len(s.segs) /\ s.segs[e.i + 1].st = "A"
      good == ~IsPanic(e) /\ (gap \/ e.res.ok = x.res) /\ ObsOK(x.st, o) /\ of = s.flen
  IN [good |-> good, dv |-> {}, st |-> [After(x.st, o) EXCEPT !.flen = of],
      stats |-> Bump(IF ~IsPanic(e) /\ e.res.ok THEN "frz_true" ELSE "frz_false")]

JudgeLoad(e, x, counter) ==
  LET of == FilesOf(e.obs.files)
      o  == ObsA(e)
      good == ~IsPanic(e) /\ Has(e.res, "ok") /\ ObsOK(x, o) /\ of = s.flen
  IN [good |-> good, dv |-> {}, st |-> [After(x, o) EXCEPT !.flen = of], stats |-> Bump(counter)]

\* ---- kind "fn" ----------------------------------------------------------------
Clamp(n) == SMin(n, Big)
JudgeFn(e) ==
  LET p == IsPanic(e)
      v == e.res.v
      spaceDev == e.op = "space" /\ p /\ "FX01b" \in KnownDeviations /\ Has(e, "big") /\ e.big = "u64max" /\ e.st = "T"
      good ==
        CASE e.op = "bucket" -> ~p /\ v = BucketHash(e.key, e.seed)
          [] e.op = "path"   -> ~p /\ v.name = NameOf(e.i) /\ v.in_base /\ v.parsed = (IF e.i < MaxSegs THEN e.i ELSE -1)
          [] e.op = "parse"  -> ~p /\ v = ParseName(e.name)
          [] e.op = "codec"  -> ~p /\ ((e.id < 1024 /\ e.off < SegSize) =>
                                          v.dec = <<e.id, e.off>> /\ v.enc[1] < 1024 /\ v.enc[2] < SegSize)
          [] e.op = "header" -> ~p /\ v.len = Hdr /\ HeaderOK(v.keys) /\ v.keys_back = v.keys /\ v.keys_raw = v.keys
                                   /\ v.bytes_back = TRUE
          [] e.op = "space"  -> spaceDev \/ (~p /\ v = (IF Has(e, "big") THEN FALSE ELSE HasSpace(e.st, e.wp, e.size)))
          [] OTHER -> FALSE
  IN [good |-> good, dv |-> IF spaceDev THEN {"FX01b"} ELSE {}, st |-> s, stats |-> Bump("fn_ops")]

\* ---- kind "dyn": s = [limit, maxsize, opened, flen] -----------------------------
DynDevs == {"FX01e", "FX01f", "FX01g"} \cap KnownDeviations
DynRes(e) == IF IsPanic(e) THEN "panic" ELSE IF Has(e.res, "ok") THEN "ok" ELSE "err"
DynObs(e) == [count |-> e.obs.count, limit |-> e.obs.limit, maxsize |-> e.obs.maxsize,
              files |-> FilesOf(e.obs.files), heads |-> HeadsOf(e.obs.heads)]
JudgeDyn(e, d, op, fl) ==
  LET o   == DynObs(e)
      r   == DynRes(e)
      okp == DynOKd(d, op, r, fl, o, {})
      Ds  == IF okp THEN {{}} ELSE {dd \in SUBSET DynDevs : DynOKd(d, op, r, fl, o, dd)}
      dv  == IF Ds = {} THEN {} ELSE CHOOSE dd \in Ds : \A ee \in Ds : Cardinality(dd) <= Cardinality(ee)
      opened == IF op # "write" /\ r = "ok" THEN FileTop(Loadable(o.files)) ELSE d.opened
  IN [good |-> Ds # {}, dv |-> dv, st |-> [d EXCEPT !.opened = opened, !.flen = o.files],
      stats |-> Bump(IF op = "write" THEN "dyn_writes" ELSE "dyn_opens")]

\* ---- the monitor ----------------------------------------------------------------
TInit == l = 1 /\ kind = "none" /\ s = 0 /\ seq = 0 /\ viol = <<>> /\ devs = <<>> /\ stats = Stats0

Judge(e) ==
  IF kind = "alloc" /\ e.op = "alloc" THEN JudgeAlloc(e)
  ELSE IF kind = "alloc" /\ e.op = "freeze" THEN JudgeFlip(e, FreezeR(s, e.i))
  ELSE IF kind = "alloc" /\ e.op = "thaw" THEN JudgeFlip(e, ThawR(s, e.i))
  ELSE IF kind = "alloc" /\ e.op = "load" THEN JudgeLoad(e, LoadR(s).st, "loads")
  ELSE IF kind = "alloc" /\ e.op = "reopen" THEN
       LET x0 == ReopenR(s, e.max).st IN JudgeLoad(e, IF e.load THEN LoadR(x0).st ELSE x0, "reopens")
  ELSE IF kind = "fn" THEN JudgeFn(e)
  ELSE IF kind = "dyn" /\ e.op \in {"write", "reopen"} THEN JudgeDyn(e, s, e.op, s.flen)
  ELSE [good |-> FALSE, dv |-> {}, st |-> s, stats |-> stats]

JudgeNew(e) ==
  IF e.kind = "alloc" THEN
     LET of == FilesOf(e.obs.files)
         s0 == S0(e.max, of)
         x  == IF e.load THEN LoadR(s0).st ELSE s0
         o  == ObsA(e)
     IN [good |-> Has(e.res, "ok") /\ ObsOK(x, o) /\ of = FilesOf(e.pre), dv |-> {}, st |-> After(x, o), stats |-> stats]
  ELSE IF e.kind = "dyn" THEN
     LET fl == FilesOf(e.pre)
         d0 == [limit |-> e.limit, maxsize |-> e.maxsize, opened |-> 0, flen |-> fl]
     IN JudgeDyn(e, d0, "open", fl)
  ELSE [good |-> e.kind = "fn", dv |-> {}, st |-> 0, stats |-> stats]

Step ==
  /\ l <= Len(Rec)
  /\ LET e == Rec[l] IN
     IF e.op = "hang" THEN
        /\ viol' = Append(viol, l)
        /\ UNCHANGED <<kind, s, seq, devs, stats>>
     ELSE
        LET isnew == e.op = "new"
            j     == IF isnew THEN JudgeNew(e) ELSE Judge(e)
            seqok == isnew \/ e.seq = seq + 1
            good  == j.good /\ seqok
        IN /\ kind' = IF isnew THEN e.kind ELSE kind
           /\ s' = j.st
           /\ seq' = IF isnew THEN 0 ELSE e.seq
           /\ viol' = IF good THEN viol ELSE Append(viol, l)
           /\ devs' = IF good /\ j.dv # {} THEN devs \o [k \in 1..Cardinality(j.dv) |-> <<l, SeqOfSet(j.dv)[k]>>] ELSE devs
           /\ stats' = j.stats
  /\ l' = l + 1

TNext == Step
TView == l
Done == (l = Len(Rec) + 1) =>
  PrintT(<<"VERDICT", ToJson([events |-> Len(Rec), violations |-> viol, deviations |-> devs] @@ stats)>>)
=============================================================================
