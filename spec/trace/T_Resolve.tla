----------------------------- MODULE T_Resolve -----------------------------
(***************************************************************************)
(* Trace monitor (binding T) for executions of the real resolution         *)
(* structures, written by harness/src/bin/drv_resolve.rs.                  *)
(*                                                                         *)
(*   {"op":"new", kind, configuration, n, layout, probes ...}   run start  *)
(*   {"op":"build","seq":1,"res":{"ok":true,"count":c}                     *)
(*                        | {"ok":false,"stage":s,"err":e}}                *)
(*   {"op":"lookup","seq":k,"sp":"c"|"e","a":a,"r":{flavour:[values]}}     *)
(*   {"op":"end","seq":k}                                                  *)
(*                                                                         *)
(* `new` replaces the map: model' = ModelOf(header) (bulk Insert), `build` *)
(* is Build, `lookup` is Lookup(a) for every flavour at once: each         *)
(* flavour's result must be Expect(header, model, sp, flavour, a) - the    *)
(* inserted value for a present key, nothing for an absent one, the same   *)
(* for single, batch, scan and resolver flavours.                          *)
(*                                                                         *)
(* Total: every event is consumed.  An event no action explains is a       *)
(* violation unless a deviation listed in KnownDeviations explains it:     *)
(*   structure-level deviations (F03a b d e f h i) have a guard on the      *)
(*   header                                                                *)
(*   only - the structure that was built is unusable, every event of the   *)
(*   run that does not conform is attributed to them;                      *)
(*   flavour-level deviations (F03c, F03g) name the flavours, the keys and *)
(*   the wrong result; everything else in the run is judged as usual.      *)
(***************************************************************************)
EXTENDS Resolve, Integers, Json, IOUtils

CONSTANT KnownDeviations
Rec == ndJsonDeserialize(IOEnv.TRACE)

\* model, built, cfg, res: inherited from Resolve (the map, build status, program header, last result)
VARIABLES l,        \* position in Rec
          seq,      \* last sequence number seen in the current run
          nlook,    \* lookup events seen in the current run
          viol, devs, stats

NoHdr == [kind |-> "none"]
Known(f) == f \in KnownDeviations

\* ------------------------------------------------------------------------
\* guards of the known deviations (on the program header)
\* ------------------------------------------------------------------------
\* F03a: a classic V2 root header whose two counts look like <header_size, version>
G_F03a(h) == h.kind \in {"root", "chain"} /\ h.ver = 2 /\ ClassicLooksExtended(h.n, h.named)
\* F03b: ArchiveGroupBuilder derives the chunk count from the byte total
G_F03b(h) == h.kind = "agroup" /\ h.path = "builder"
             /\ ChunksByBytes(h.n, AGroupRec, ChunkBytes) # ChunksByRecords(h.n, AGroupP)
\* F03c: the all-zero encoding key stored with espec index 0 is the reader's padding pattern; the reader drops
\* it and the rest of its page (it is the smallest key: the first page of the ekey table)
EspecIx0(h)   == ((FirstInserted(h.ord, h.m) \div 2) % 3) = 0     \* the all-zero key (rank 0) has the first-inserted espec
G_F03c(h)     == h.kind = "enc" /\ h.lay = "ends" /\ h.m >= 1 /\ EspecIx0(h)
LostByF03c(h) == Min2(h.m, EKeyP(h.kbe))
\* F03d: ArchiveIndex::write_to / CascFormat::build writes 16+4+4 records whatever the footer says
G_F03d(h) == h.kind = "aidx" /\ h.ser = "write_to" /\ (h.ks # 16 \/ h.ow # 4)
\* F03e: a path component of 255 bytes or more is written with length byte 0xFF = the node-value marker
G_F03e(h) == h.kind = "tvfs" /\ h.namelen > MaxNameFragment
\* F03f: the container table is laid out with an entry size that is not the one of the final header:
\*   - the EST offset width is taken before the EST exists (1 byte) although the table needs more
\*   - the patch-offset width is taken from a first estimate that the second estimate invalidates
EstBytes(h)  == h.nest * (h.estlen + 1)
G_F03f(h) == /\ h.kind = "tvfs"
             /\ \/ HasFlag(h.flags, 2) /\ h.nest > 0 /\ OffsSize(EstBytes(h)) # 1
                \/ HasFlag(h.flags, 4) /\ ~CftConsistent(h.flags, 1, h.n, OffsSize(h.n * CftEntry(h.flags, 1, 1)))
\* F03g: ContentResolver::resolve_path hashes the path as given, the root builder hashes the normalised path
G_F03g(h) == h.kind \in {"root", "chain"} /\ h.style = "raw"

\* F03h: EncodingBuilder accepts a content-key record that does not fit a page and writes a file the parser rejects
G_F03h(h) == h.kind = "enc" /\ ~Representable(h)
\* F03i: ArchiveIndexBuilder stores an offset that does not fit offset_bytes cut down to the field width
G_F03i(h) == h.kind = "aidx" /\ ~Representable(h)

StructDevs == <<"F03a", "F03b", "F03d", "F03e", "F03f", "F03h", "F03i">>
StructGuard(f, h) == CASE f = "F03a" -> G_F03a(h) [] f = "F03b" -> G_F03b(h) [] f = "F03d" -> G_F03d(h)
                       [] f = "F03e" -> G_F03e(h) [] f = "F03f" -> G_F03f(h) [] f = "F03h" -> G_F03h(h)
                       [] OTHER -> G_F03i(h)
\* the structure-level deviation that applies to this run ("" if none)
StructDev(h) == LET S == {i \in 1..Len(StructDevs) : Known(StructDevs[i]) /\ StructGuard(StructDevs[i], h)}
                IN IF S = {} THEN "" ELSE StructDevs[CHOOSE i \in S : \A j \in S : i <= j]

\* ------------------------------------------------------------------------
\* judging one event
\* ------------------------------------------------------------------------
Flavours(e) == DOMAIN e.r
BadFlavours(h, m, e) == {f \in Flavours(e) : e.r[f] # Expect(h, m, e.sp, f, e.a)}

\* flavour-level explanations of one wrong flavour result
ByF03c(h, e, f) == /\ Known("F03c") /\ G_F03c(h) /\ e.sp = "e"
                   /\ RankOf(e.a) < LostByF03c(h) /\ e.r[f] = <<>>
ByF03g(h, e, f) == /\ Known("F03g") /\ G_F03g(h) /\ e.sp = "c"
                   /\ f \in {"rpath", "p2e", "p2e2", "info"} /\ e.r[f] = <<>>
FlavourDev(h, e, bad) ==
  IF bad # {} /\ \A f \in bad : ByF03c(h, e, f) THEN "F03c"
  ELSE IF bad # {} /\ \A f \in bad : ByF03g(h, e, f) THEN "F03g"
  ELSE ""

BuildConforms(h, e) ==
  IF ~Representable(h) THEN e.res.ok = FALSE /\ e.res.stage \in {"build", "serialize"}   \* refused before any file exists
  ELSE \/ e.res.ok = TRUE /\ e.res.count = ExpectCount(h)
       \/ e.res.ok = FALSE /\ RefusalAllowed(h)
BuildByF03c(h, e) == /\ Known("F03c") /\ G_F03c(h) /\ e.res.ok = TRUE
                     /\ e.res.count = h.n * 100000 + (h.m - LostByF03c(h))

TInit == /\ l = 1 /\ model = <<>> /\ built = "none" /\ cfg = NoHdr /\ res = <<>>
         /\ seq = 0 /\ nlook = 0 /\ viol = <<>> /\ devs = <<>>
         /\ stats = [runs |-> 0, lookups |-> 0, flavours |-> 0, hits |-> 0, refusals |-> 0]

Flag(ok, dev) == /\ viol' = IF ok \/ dev # "" THEN viol ELSE Append(viol, l)
                 /\ devs' = IF ~ok /\ dev # "" THEN Append(devs, <<l, dev>>) ELSE devs

NProbes(h) == Len(h.probes) + (IF h.kind = "enc" THEN Len(h.eprobes) ELSE 0)

Step ==
  /\ l <= Len(Rec)
  /\ LET e == Rec[l] IN
     IF e.op = "new" THEN
        /\ cfg' = e /\ model' = ModelOf(e) /\ built' = "new" /\ res' = <<>>
        /\ seq' = 0 /\ nlook' = 0
        /\ stats' = [stats EXCEPT !.runs = @ + 1]
        \* a run that did not end with `end` lost events
        /\ Flag(built \in {"none", "ended"}, "")
     ELSE IF e.op = "build" THEN
        LET ok == built = "new" /\ e.seq = seq + 1 /\ BuildConforms(cfg, e)
            dev == IF built = "new" /\ e.seq = seq + 1
                   THEN (IF BuildByF03c(cfg, e) THEN "F03c" ELSE StructDev(cfg)) ELSE ""
        IN /\ built' = IF e.res.ok = TRUE THEN "built" ELSE "failed"
           /\ seq' = e.seq /\ res' = e.res
           /\ stats' = [stats EXCEPT !.refusals = @ + (IF e.res.ok = TRUE THEN 0 ELSE 1)]
           /\ Flag(ok, dev)
           /\ UNCHANGED <<cfg, model, nlook>>
     ELSE IF e.op = "lookup" THEN
        LET bad == BadFlavours(cfg, model, e)
            ok  == built = "built" /\ e.seq = seq + 1 /\ bad = {}
            dev == IF built = "built" /\ e.seq = seq + 1
                   THEN (LET fd == FlavourDev(cfg, e, bad) IN IF fd # "" THEN fd ELSE StructDev(cfg)) ELSE ""
        IN /\ seq' = e.seq /\ res' = e.r /\ nlook' = nlook + 1
           /\ stats' = [stats EXCEPT !.lookups = @ + 1, !.flavours = @ + Cardinality(Flavours(e)),
                                     !.hits = @ + (IF e.a \in DOMAIN model[e.sp] THEN 1 ELSE 0)]
           /\ Flag(ok, dev)
           /\ UNCHANGED <<cfg, model, built>>
     ELSE IF e.op = "end" THEN
        \* every probe of the program was answered (or the build was refused and nothing was asked)
        LET ok == /\ e.seq = seq + 1
                  /\ \/ built = "built" /\ nlook = NProbes(cfg)
                     \/ built = "failed" /\ nlook = 0
        IN /\ built' = "ended" /\ seq' = e.seq
           /\ Flag(ok, "")
           /\ UNCHANGED <<cfg, model, res, nlook, stats>>
     ELSE \* hang (driver watchdog) or anything unknown: never explained
        /\ Flag(FALSE, "")
        /\ built' = "ended"
        /\ UNCHANGED <<cfg, model, res, seq, nlook, stats>>
  /\ l' = l + 1

TNext == Step
Done == (l = Len(Rec) + 1) =>
  PrintT(<<"VERDICT", ToJson([events |-> Len(Rec), violations |-> viol, deviations |-> devs,
                              runs |-> stats.runs, lookups |-> stats.lookups, flavours |-> stats.flavours,
                              hits |-> stats.hits, refusals |-> stats.refusals,
                              open |-> IF built \in {"none", "ended"} THEN 0 ELSE 1])>>)
=============================================================================
