------------------------------- MODULE Ribbit -------------------------------
(***************************************************************************)
(* Property-level specification of the Ribbit service (cascette-ribbit     *)
(* server + cascette-protocol clients), property C15:                      *)
(*                                                                         *)
(*   what the server emits, the project's own client reads back as the     *)
(*   database says; malformed / unknown requests get an error reply or a   *)
(*   closed connection and never crash or wedge the server.                *)
(*                                                                         *)
(* Part 1 is the concretisation grid: the concrete strings a database may  *)
(*   contain, with the attributes the property and the named deviations    *)
(*   talk about (TLC cannot look inside a string; checks/c15.py re-derives *)
(*   every attribute in Python at each run - "grid self-check").           *)
(* Part 2 is the functional core: Newest, Columns, Denotes, RespOk,        *)
(*   Respond - used by the trace monitor T_Ribbit to judge recorded        *)
(*   executions of the real server/client pair, and by the state machine.  *)
(* Part 3 is the state machine (connections, one server task per           *)
(*   connection, read time-outs) with its safety and liveness properties,  *)
(*   checked by TLC through MC_Ribbit.                                     *)
(***************************************************************************)
EXTENDS Naturals, Sequences, FiniteSets

CONSTANTS KnownDeviations,   \* ids of findings listed as known (enable Dev_ guards / behaviours)
          Arch               \* "task_per_conn" (the design) | "sequential" (contrast model)

Known(f)  == f \in KnownDeviations
RangeOf(q) == {q[i] : i \in 1..Len(q)}
Opt(q)    == IF q = <<>> THEN "" ELSE q[1]

(***************************************************************************)
(* 1. Concretisation grid                                                  *)
(***************************************************************************)
\* s: the string; sep: contains '|' or a line feed (the two BPSV separators);
\* trimmed: s without trailing white space; na: contains a non-ASCII character
G(s, sep, trimmed, na) == [s |-> s, sep |-> sep, trimmed |-> trimmed, na |-> na]
Pl(s) == G(s, FALSE, s, FALSE)

E200 == "éééééééééééééééééééééééééééééééééééééééééééééééééééééééééééééééééééééééééééééééééééééééééééééééééééééééééééééééééééééééééééééééééééééééééééééééééééééééééééééééééééééééééééééééééééééééééééééééééééééééé"
\* a complete forged row: the first line keeps 7 fields, the second one is a row for a region "zz"
Inject == "1.0|\nzz|00000000000000000000000000000000|00000000000000000000000000000000||666|forged"

StrTable == {
  Pl("1.14.2.42597"), Pl("11.0.7.58187"), Pl("2.5.4.44833"), Pl(" 1.0"), Pl("#1.0"), Pl("1.0\tx"),
  Pl("Checksum: aaaaaaaaaaaaaaaaaaaaaaaaaaaaaaaaaaaaaaaaaaaaaaaaaaaaaaaaaaaaaaaa"),
  G("1.0 ", FALSE, "1.0", FALSE), G("1.0\r", FALSE, "1.0", FALSE),
  G("1.0|beta", TRUE, "1.0|beta", FALSE), G("1.0\n2.0", TRUE, "1.0\n2.0", FALSE), G(Inject, TRUE, Inject, FALSE),
  G("café", FALSE, "café", TRUE), G(E200, FALSE, E200, TRUE), G("x" \o E200, FALSE, "x" \o E200, TRUE),
  \* CDN paths / hosts
  Pl(""), Pl("tpr/wow"), Pl("tpr/wow_classic"), Pl("tpr/cfg"), Pl(" tpr/lead"),
  G("tpr/wow ", FALSE, "tpr/wow", FALSE), G("\t", FALSE, "", FALSE), G("tpr/cfg ", FALSE, "tpr/cfg", FALSE),
  G("a|b", TRUE, "a|b", FALSE), G("p|q", TRUE, "p|q", FALSE), G("tpr/é", FALSE, "tpr/é", TRUE),
  Pl("cdn.example.com"), Pl("a.example b.example"), G("h|i", TRUE, "h|i", FALSE),
  \* product names
  Pl("wow"), Pl("wow_classic"), G("w|x", TRUE, "w|x", FALSE) }

InStr(s) == \E r \in StrTable : r.s = s
Attr(s)  == CHOOSE r \in StrTable : r.s = s

\* build numbers: canon = decimal rendering of the number the string denotes (absent = not a number an i64 holds)
DecTable == { [s |-> "42597", canon |-> "42597"], [s |-> "58187", canon |-> "58187"], [s |-> "44833", canon |-> "44833"],
              [s |-> "0", canon |-> "0"], [s |-> "-5", canon |-> "-5"], [s |-> "007", canon |-> "7"],
              [s |-> "9223372036854775807", canon |-> "9223372036854775807"] }
NotDec   == {"abc", "1.5", " 7", "99999999999999999999"}
IsDec(s)    == \E r \in DecTable : r.s = s
DecCanon(s) == (CHOOSE r \in DecTable : r.s = s).canon

\* hex strings: canon = lower-case hex of the bytes the string denotes
H1 == "0123456789abcdef0123456789abcdef"
H2 == "fedcba9876543210fedcba9876543210"
H3 == "11112222333344445555666677778888"
H4 == "99990000aaaabbbbccccddddeeeeffff"
HU == "ABCDEF0123456789ABCDEF0123456789"
HexTable == { [s |-> H1, canon |-> H1], [s |-> H2, canon |-> H2], [s |-> H3, canon |-> H3], [s |-> H4, canon |-> H4],
              [s |-> HU, canon |-> "abcdef0123456789abcdef0123456789"], [s |-> "abcdef", canon |-> "abcdef"] }
NotHex   == {"zz", "abc"}
IsHex(s)    == \E r \in HexTable : r.s = s
HexCanon(s) == (CHOOSE r \in HexTable : r.s = s).canon

\* build_time strings: t = the instant in minutes after 2024-01-01T00:00Z, lex = rank in string (byte) order
TsTable == { [s |-> "2024-01-01T00:00:00+00:00", t |-> 0,   lex |-> 2],
             [s |-> "2024-01-01T10:00:00+09:00", t |-> 60,  lex |-> 6],
             [s |-> "2024-01-01T05:00:00+00:00", t |-> 300, lex |-> 4],
             [s |-> "2024-01-01T03:00:00-05:00", t |-> 480, lex |-> 3],
             [s |-> "2024-01-01T12:00:00+00:00", t |-> 720, lex |-> 7],
             [s |-> "2023-12-31T23:30:00-01:30", t |-> 60,  lex |-> 1],
             [s |-> "2024-01-01T06:00:00Z",      t |-> 360, lex |-> 5] }
IsTs(s)   == \E r \in TsTable : r.s = s
TimeOf(s) == (CHOOSE r \in TsTable : r.s = s).t
LexOf(s)  == (CHOOSE r \in TsTable : r.s = s).lex

\* a build record: [id, product, version, build, bc, cc, keyring, pc, time, cdn_path]; keyring, pc, cdn_path are
\* optional: <<>> or <<string>>.  cfg = [hosts, path] (the server's default CDN configuration)
BuildInGrid(b) ==
  /\ InStr(b.product) /\ InStr(b.version) /\ (IsDec(b.build) \/ b.build \in NotDec)
  /\ IsHex(b.bc) /\ IsHex(b.cc) /\ IsTs(b.time)
  /\ (b.keyring = <<>> \/ b.keyring[1] = "" \/ IsHex(b.keyring[1]) \/ b.keyring[1] \in NotHex)
  /\ (b.pc = <<>> \/ IsHex(b.pc[1]))
  /\ (b.cdn_path = <<>> \/ InStr(b.cdn_path[1]))
DbInGrid(db, cfg) == (\A b \in RangeOf(db) : BuildInGrid(b)) /\ InStr(cfg.hosts) /\ InStr(cfg.path)

\* "ordinary": values like the ones in the repository's own fixtures - a database made of these only must be
\* accepted by the server (which other databases the validator admits is not part of the property: a stricter
\* validator conforms)
OrdinaryStr == {"1.14.2.42597", "11.0.7.58187", "2.5.4.44833", "tpr/wow", "tpr/wow_classic", "tpr/cfg",
                "cdn.example.com", "wow", "wow_classic"}
OrdinaryDec == {"42597", "58187", "44833"}
OrdinaryHex == {H1, H2, H3, H4}
BuildPlain(b) ==
  /\ b.product \in OrdinaryStr /\ b.version \in OrdinaryStr /\ b.build \in OrdinaryDec
  /\ b.bc \in OrdinaryHex /\ b.cc \in OrdinaryHex
  /\ (b.keyring = <<>> \/ b.keyring[1] \in OrdinaryHex)
  /\ (b.pc = <<>> \/ b.pc[1] \in OrdinaryHex)
  /\ (b.cdn_path = <<>> \/ b.cdn_path[1] \in OrdinaryStr)
DbPlain(db, cfg) == db # <<>> /\ (\A b \in RangeOf(db) : BuildPlain(b)) /\ cfg.hosts \in OrdinaryStr /\ cfg.path \in OrdinaryStr

(***************************************************************************)
(* 2. Functional core                                                      *)
(***************************************************************************)
Endpoints == {"versions", "cdns", "bgdl"}
Products(db)    == {b.product : b \in RangeOf(db)}
BuildsOf(db, p) == {b \in RangeOf(db) : b.product = p}
\* the newest build(s) of a product: by build *time*; which of several equally new builds is served is left open
Newest(db, p)    == {b \in BuildsOf(db, p) : \A o \in BuildsOf(db, p) : TimeOf(o.time) <= TimeOf(b.time)}
\* F15c: what the code serves - the build whose build_time *string* sorts last
LexNewest(db, p) == {b \in BuildsOf(db, p) : \A o \in BuildsOf(db, p) : LexOf(o.time) <= LexOf(b.time)}

PathOf(b, cfg) == IF b.cdn_path = <<>> THEN cfg.path ELSE b.cdn_path[1]
\* the database strings each column of a response row must carry (the region column and the derived
\* "Servers" column are left open: the property is about the database record)
Columns(b, cfg, ep) ==
  IF ep = "cdns"
  THEN [Path |-> PathOf(b, cfg), Hosts |-> cfg.hosts, ConfigPath |-> PathOf(b, cfg)]
  ELSE [BuildConfig |-> b.bc, CDNConfig |-> b.cc, KeyRing |-> Opt(b.keyring), BuildId |-> b.build,
        VersionsName |-> b.version, ProductConfig |-> Opt(b.pc)]
RegionCol(ep) == IF ep = "cdns" THEN "Name" ELSE "Region"

\* a typed value (kind k, canonical text v) read by the client denotes the database string s
Denotes(k, v, s) ==
  \/ k = "empty" /\ s = ""
  \/ k = "str" /\ s # "" /\ v = s
  \/ k = "dec" /\ IsDec(s) /\ v = DecCanon(s)
  \/ k = "hex" /\ IsHex(s) /\ v = HexCanon(s)

Idx(row, n) == {i \in 1..Len(row) : row[i].n = n}
Cell(row, n) == row[CHOOSE i \in Idx(row, n) : TRUE]
\* the column text the client hands out (get_raw); the driver logs it only where it differs from the canonical text v
RawOf(c) == IF "raw" \in DOMAIN c THEN c.raw ELSE c.v
\* every column carries the record: the typed value denotes the database string and the column text *is* that string
\* (upper-case hex, leading zeros of a number are part of the record)
RowOk(row, exp) ==
  \A n \in DOMAIN exp : /\ Cardinality(Idx(row, n)) = 1
                         /\ Denotes(Cell(row, n).k, Cell(row, n).v, exp[n])
                         /\ RawOf(Cell(row, n)) = exp[n]
KeyOf(row, col) == IF Cardinality(Idx(row, col)) = 1 /\ Cell(row, col).k = "str" THEN Cell(row, col).v ELSE ""
\* a response: at least one row, every row carries the record, one row per region
RespOk(rows, exp, ep) ==
  /\ Len(rows) >= 1
  /\ \A i \in 1..Len(rows) : RowOk(rows[i], exp) /\ KeyOf(rows[i], RegionCol(ep)) # ""
  /\ \A i, j \in 1..Len(rows) : i # j => KeyOf(rows[i], RegionCol(ep)) # KeyOf(rows[j], RegionCol(ep))
\* v1/summary: exactly the products of the database, one row each
SummaryOk(rows, db) ==
  /\ Len(rows) = Cardinality(Products(db))
  /\ {KeyOf(rows[i], "Product") : i \in 1..Len(rows)} = Products(db)

\* ---- requests ----------------------------------------------------------
\* a request: [cls |-> "valid", tr, product, ep] with tr in {"v1","v2","http"}, or a malformed class on a raw
\* transport tr in {"tcp","http"}
Unterminated == {"never_terminated", "silent"}
CompleteBad  == {"unknown_product", "unknown_product_v2", "unknown_endpoint", "unknown_version", "wrong_arity_short",
                 "wrong_arity_long", "empty", "eof", "oversized", "nonutf8", "nul", "bad_method", "nonutf8_pct", "garbage"}
IsValid(db, r)  == r.cls = "valid" /\ r.product \in Products(db) /\
                   (r.ep \in Endpoints \/ (r.ep = "summary" /\ r.tr = "v1"))
Complete(r)     == r.cls \notin Unterminated
RawTr(tr)       == IF tr = "http" THEN "http" ELSE "tcp"

\* the admissible answers of the server to a complete request
Respond(db, cfg, r) ==
  IF IsValid(db, r)
  THEN IF r.ep = "summary" THEN {[out |-> "summary"]}
       ELSE {[out |-> "rows", exp |-> Columns(b, cfg, r.ep)] : b \in Newest(db, r.product)}
  ELSE {[out |-> "error"], [out |-> "closed"]}

\* what a raw-socket observer may see for a malformed request: nothing and a close, or an error reply
\* (HTTP: status >= 400; TCP: bytes the project's client does not read rows from)
BadOutcomeOk(tr, o) ==
  \/ o.out = "closed"
  \/ o.out = "reply" /\ (IF tr = "http" THEN o.status >= 400 ELSE o.rows = 0)

(***************************************************************************)
(* 3. State machine                                                        *)
(***************************************************************************)
CONSTANTS Conns,     \* connection ids
          DB, CFG,   \* the database / configuration the server was started with
          Reqs       \* requests a client may send (MC instance)

VARIABLES conn,      \* conn[c]: [st |-> "idle"|"open"|"sent"|"answered"|"closed"|"done", tr, req, resp]
          order      \* connections in the order they were accepted (used by the contrast model only)
vars == <<conn, order>>

NoReq  == [cls |-> "none"]
NoResp == [out |-> "none"]
Idle   == [st |-> "idle", tr |-> "none", req |-> NoReq, resp |-> NoResp]

\* F15f: the HTTP listener has no read time-out
HasTimeout(tr) == tr = "tcp" \/ ~Known("F15f")

Init == conn = [c \in Conns |-> Idle] /\ order = <<>>

Connect(c, tr) ==
  /\ conn[c].st = "idle"
  /\ conn' = [conn EXCEPT ![c] = [@ EXCEPT !.st = "open", !.tr = tr]]
  \* the accept order only matters to the contrast model
  /\ order' = IF Arch = "sequential" THEN Append(order, c) ELSE order

Send(c, r) ==
  /\ conn[c].st = "open" /\ RawTr(r.tr) = conn[c].tr
  /\ conn' = [conn EXCEPT ![c] = [@ EXCEPT !.st = "sent", !.req = r]]
  /\ UNCHANGED order

\* connections accepted before c that the server has not finished with
Ahead(c) == {d \in Conns : d # c /\ conn[d].st \in {"open", "sent"} /\
               \E i, j \in 1..Len(order) : order[i] = d /\ order[j] = c /\ i < j}
MayServe(c) == Arch = "task_per_conn" \/ Ahead(c) = {}

\* the server task of connection c reads the complete request, answers it and closes
ServerHandle(c) ==
  /\ conn[c].st = "sent" /\ Complete(conn[c].req) /\ MayServe(c)
  /\ \E a \in Respond(DB, CFG, conn[c].req) :
       conn' = [conn EXCEPT ![c] = [@ EXCEPT !.st = IF a.out = "closed" THEN "closed" ELSE "answered", !.resp = a]]
  /\ UNCHANGED order

\* the read time-out of the server task of connection c fires
ServerTimeout(c) ==
  /\ conn[c].st = "open" \/ (conn[c].st = "sent" /\ ~Complete(conn[c].req))
  /\ HasTimeout(conn[c].tr) /\ MayServe(c)
  /\ conn' = [conn EXCEPT ![c] = [@ EXCEPT !.st = "closed", !.resp = [out |-> "closed"]]]
  /\ UNCHANGED order

\* the client goes away: a client with a valid request waits for its answer, the others may leave at any time
Close(c) ==
  /\ conn[c].st \in {"open", "sent", "answered", "closed"}
  /\ (conn[c].st = "sent" /\ IsValid(DB, conn[c].req)) => FALSE
  /\ conn' = [conn EXCEPT ![c] = [Idle EXCEPT !.st = "done"]]
  /\ UNCHANGED order

Next ==
  \E c \in Conns :
    \/ \E tr \in {"tcp", "http"} : Connect(c, tr)
    \/ \E r \in Reqs : Send(c, r)
    \/ ServerHandle(c) \/ ServerTimeout(c) \/ Close(c)

Fairness == \A c \in Conns : WF_vars(ServerHandle(c)) /\ WF_vars(ServerTimeout(c))
Spec == Init /\ [][Next]_vars /\ Fairness

\* ---- properties ---------------------------------------------------------
TypeOK == \A c \in Conns : conn[c].st \in {"idle", "open", "sent", "answered", "closed", "done"}
\* a valid request is never answered with anything but the rows of a newest build of its product
AnswerIsRecord ==
  \A c \in Conns : (conn[c].st = "answered" /\ IsValid(DB, conn[c].req) /\ conn[c].req.ep # "summary") =>
      /\ conn[c].resp.out = "rows"
      /\ \E b \in Newest(DB, conn[c].req.product) : conn[c].resp.exp = Columns(b, CFG, conn[c].req.ep)
\* a malformed request is never answered with data
BadGetsNoData ==
  \A c \in Conns : (conn[c].st \in {"answered", "closed"} /\ conn[c].req # NoReq /\ ~IsValid(DB, conn[c].req)) =>
      conn[c].resp.out \in {"error", "closed", "none"}
\* independence: whether the server can serve a connection does not depend on the other connections
Independence ==
  \A c \in Conns : (conn[c].st = "sent" /\ Complete(conn[c].req)) => ENABLED ServerHandle(c)
\* liveness (weak fairness of the server tasks only - clients may stay silent for ever)
ValidAnswered == \A c \in Conns : (conn[c].st = "sent" /\ IsValid(DB, conn[c].req)) ~> (conn[c].st = "answered")
BadServed     == \A c \in Conns : (conn[c].st = "sent" /\ Complete(conn[c].req)) ~> (conn[c].st \in {"answered", "closed", "done"})
\* no connection is held for ever by a client that never finishes its request
Held(c)   == conn[c].st = "open" \/ (conn[c].st = "sent" /\ ~Complete(conn[c].req))
NeverHeld == \A c \in Conns : Held(c) ~> ~Held(c)
=============================================================================
