------------------------------ MODULE CrashSave ------------------------------
(***************************************************************************)
(* C06, implementation-shaped: every save routine of cascette-rs as the    *)
(* sequence of file-system steps it performs, every recovery as a function *)
(* of the post-crash directory, over the crash-consistent file system of   *)
(* FS.tla.  TLC checks, for every crash instant (between and inside the    *)
(* steps) and every admissible disk state,                                 *)
(*        Recover(disk) \in {Old, New}  for every object                   *)
(* where Old / New are the numbers of the last completed save and of the   *)
(* save in progress.  The check is expected to FAIL for                    *)
(*   "lru", "lru_inplace"  (LruManager::checkpoint_to_disk: new generation *)
(*                          written in place, no fsync, previous deleted,  *)
(*                          recovery takes the highest generation only)    *)
(*   "journal"             (ExtractorCompactorBackup::record_segment:      *)
(*                          un-synced append, entries carry no validity    *)
(*                          mark: a zero-filled tail reads as segment 0)   *)
(*   "journal_save"        (ExtractorCompactorBackup::save: the journal is *)
(*                          truncated and rewritten in place, no fsync)    *)
(*   "disk_nosync"         (DiskCache::put without the per-file fsync: not *)
(*                          the current code; what a cache relying on the  *)
(*                          periodic background sync would do)             *)
(* - these counterexamples are CANDIDATE findings; what counts is the real *)
(* code on the scenarios that T_CrashFS derives from its real system calls.*)
(* "lru_fixed" is the repair of the checkpoint (temp file + fsync + rename, *)
(* delete the previous generation afterwards; fixes/F06a.patch) and        *)
(* "journal_fixed" the proposed repair of the journal (old content + entry *)
(* to a temp file, fsync, rename; fixes/F06b.patch): both must hold.       *)
(*                                                                         *)
(* Abstraction: the data of save k to file x is a sequence of 1-2 short    *)
(* writes with sources "s<k>:<x>:<i>"; a file shows "state k" iff its      *)
(* content is exactly the complete sequence of save k, anything else       *)
(* (prefix, zeros, mixture) is Broken.  This is the strictest reading of   *)
(* the loaders (none of them is assumed to validate anything), so a        *)
(* protocol that passes here is safe whatever the loader accepts.          *)
(***************************************************************************)
EXTENDS FS

CONSTANTS Routine,    \* "index" "res" "lru" "lru_inplace" "lru_fixed" "disk" "disk_nosync" "journal" "journal_fixed" "journal_save"
          MaxSaves,   \* saves per behaviour; a crash may hit any of them (0..MaxSaves-1 prior saves)
          Strict      \* TRUE: DirOpsPrefix crash model (informational)

VARIABLES fs,       \* FS.tla state
          n,        \* number of the save in progress (1..MaxSaves)
          proto,    \* its step sequence
          pc,       \* next step
          crashed   \* [on |-> FALSE] or [on |-> TRUE, disk |-> post-crash directory]

csvars == <<fs, n, proto, pc, crashed>>

Broken == 99
NumStr(k) == ToString(k)
Src(k, x, i) == "s" \o NumStr(k) \o ":" \o x \o ":" \o NumStr(i)

\* events
EOpen(x, creat, trunc) == [op |-> "open", name |-> x, creat |-> creat, trunc |-> trunc]
EWrite(x, off, len, src) == [op |-> "write", name |-> x, off |-> off, len |-> len, src |-> src]
ESync(x) == [op |-> "fsync", name |-> x]
ERename(a, b) == [op |-> "rename", from |-> a, to |-> b]
EUnlink(x) == [op |-> "unlink", name |-> x]
EMkdir(x) == [op |-> "mkdir", name |-> x]
EUtime(x, tag) == [op |-> "utime", name |-> x, src |-> tag]

\* complete content of save k in file role x: two writes (2 + 1 "bytes")
Complete(k, x) == <<Ext(Src(k, x, 1), 0, 2), Ext(Src(k, x, 2), 0, 1)>>
WriteAll(k, x, file) == <<EWrite(file, 0, 2, Src(k, x, 1)), EWrite(file, 2, 1, Src(k, x, 2))>>
StateOf(c, x) == IF \E k \in 1..MaxSaves : c = Complete(k, x)
                 THEN CHOOSE k \in 1..MaxSaves : c = Complete(k, x) ELSE Broken

\* temp file + write + fsync + rename
Atomic(k, x, tmp, final) == <<EOpen(tmp, TRUE, TRUE)>> \o WriteAll(k, x, tmp) \o <<ESync(tmp), ERename(tmp, final)>>

Buckets == <<"b1", "b2">>
Lru(k) == "gen" \o NumStr(k) \o ".lru"

(***************************************************************************)
(* The step sequences (one element per system call the routine makes)      *)
(***************************************************************************)
Protocols(k, f) ==
  CASE Routine = "index" ->
         \* save_all: one bucket after the other; save_index retries after a failed attempt
         LET ok(b)   == Atomic(k, b, b \o ".tmp", b \o ".idx")
             fail(b) == <<EOpen(b \o ".tmp", TRUE, TRUE), EWrite(b \o ".tmp", 0, 2, Src(k, b, 1)), EUnlink(b \o ".tmp")>>
         IN {ok("b1") \o ok("b2"), fail("b1") \o ok("b1") \o ok("b2"), ok("b1") \o fail("b2") \o ok("b2")}
    [] Routine = "res" -> {Atomic(k, "db", "key_state.tmp", "key_state")}
    [] Routine = "disk" ->
         \* put -> get_file_path (create_dir_all of the two hash levels) -> write_file (unique temp name)
         \* the expiry time is stored as the temp file's modification time before the fsync
         (LET tmp == "ab/cd/e." \o NumStr(k) \o ".tmp" IN
          {(IF k = 1 THEN <<EMkdir("ab"), EMkdir("ab/cd")>> ELSE <<>>)
             \o <<EOpen(tmp, TRUE, TRUE)>> \o WriteAll(k, "e", tmp)
             \o <<EUtime(tmp, Src(k, "e", 9)), ESync(tmp), ERename(tmp, "ab/cd/e")>>})
    [] Routine = "disk_nosync" ->
         \* the same without the fsync (what a cache that relies on a periodic global sync would do)
         (LET tmp == "ab/cd/e." \o NumStr(k) \o ".tmp" IN
          {(IF k = 1 THEN <<EMkdir("ab"), EMkdir("ab/cd")>> ELSE <<>>)
             \o <<EOpen(tmp, TRUE, TRUE)>> \o WriteAll(k, "e", tmp)
             \o <<EUtime(tmp, Src(k, "e", 9)), ERename(tmp, "ab/cd/e")>>})
    [] Routine = "lru" ->
         \* bump_generation + checkpoint_to_disk: tokio::fs::write(new generation); remove_file(previous)
         {<<EOpen(Lru(k), TRUE, TRUE)>> \o WriteAll(k, "lru", Lru(k)) \o (IF k > 1 THEN <<EUnlink(Lru(k - 1))>> ELSE <<>>)}
    [] Routine = "lru_inplace" ->
         \* checkpoint_to_disk without a bump (after a reload): the same generation is overwritten
         {<<EOpen(Lru(1), TRUE, TRUE)>> \o WriteAll(k, "lru", Lru(1))}
    [] Routine = "lru_fixed" ->
         {Atomic(k, "lru", Lru(k) \o ".tmp", Lru(k)) \o (IF k > 1 THEN <<EUnlink(Lru(k - 1))>> ELSE <<>>)}
    [] Routine = "journal" ->
         \* record_segment: open(create, append); header when the file is empty; the entry
         {<<EOpen("extract_bu", TRUE, FALSE)>>
            \o (IF k = 1 THEN <<EWrite("extract_bu", 0, 1, "hdr:v"), EWrite("extract_bu", 1, 1, "hdr:max")>> ELSE <<>>)
            \o <<EWrite("extract_bu", 2 * k, 2, Src(k, "seg", 1))>>}
    [] Routine = "journal_save" ->
         \* ExtractorCompactorBackup::save: File::create (truncate in place), header, all entries, no fsync
         {<<EOpen("extract_bu", TRUE, TRUE), EWrite("extract_bu", 0, 1, "hdr:v"), EWrite("extract_bu", 1, 1, "hdr:max")>>
            \o [i \in 1..k |-> EWrite("extract_bu", 2 * i, 2, Src(i, "seg", 1))]}
    [] Routine = "journal_fixed" ->
         \* read the journal, write header + old entries + the new entry to a temp file, fsync, rename
         {<<EOpen("extract_bu.tmp", TRUE, TRUE), EWrite("extract_bu.tmp", 0, 1, "hdr:v"), EWrite("extract_bu.tmp", 1, 1, "hdr:max")>>
            \o [i \in 1..k |-> EWrite("extract_bu.tmp", 2 * i, 2, Src(i, "seg", 1))]
            \o <<ESync("extract_bu.tmp"), ERename("extract_bu.tmp", "extract_bu")>>}

(***************************************************************************)
(* Recovery: what the loaders make of a directory                          *)
(***************************************************************************)
Names(d) == {r.name : r \in d.files}
File(d, x) == (CHOOSE r \in d.files : r.name = x).parts
FileMt(d, x) == (CHOOSE r \in d.files : r.name = x).mt

LruGens(d) == {k \in 1..MaxSaves : Lru(k) \in Names(d)}
MaxGen(d) == CHOOSE k \in LruGens(d) : \A j \in LruGens(d) : j <= k

\* journal: header valid, then whole 2-"byte" entries; entry i is valid iff it is exactly the data of save i
RECURSIVE JEntries(_, _)
JEntries(c, i) ==     \* c: content behind the header
  IF CLen(c) < 2 THEN i - 1
  ELSE IF Take(c, 2) = <<Ext(Src(i, "seg", 1), 0, 2)>> THEN JEntries(Drop(c, 2), i + 1)
  ELSE Broken
JournalState(c) ==
  IF CLen(c) < 2 THEN 0                                     \* too small: ignored
  ELSE IF Take(c, 2) # <<Ext("hdr:v", 0, 1), Ext("hdr:max", 0, 1)>>
       THEN IF Take(c, 1) = <<Ext("hdr:v", 0, 1)>> THEN Broken ELSE 0    \* wrong version: ignored
  ELSE JEntries(Drop(c, 2), 1)

\* object -> recovered state
Recover(d) ==
  CASE Routine = "index" ->
         [b \in {"b1", "b2"} |-> IF (b \o ".idx") \in Names(d) THEN StateOf(File(d, b \o ".idx"), b) ELSE 0]
    [] Routine = "res" ->
         [o \in {"db"} |-> IF "key_state" \in Names(d) THEN StateOf(File(d, "key_state"), "db") ELSE 0]
    [] Routine \in {"disk", "disk_nosync"} ->
         \* get on a new instance: the file under the key's name; its modification time is the expiry
         \* (a file that carries its write time has expired: the entry is gone, neither old nor new)
         [o \in {"e"} |-> IF "ab/cd/e" \notin Names(d) THEN 0
                          ELSE LET st == StateOf(File(d, "ab/cd/e"), "e")
                               IN IF st # Broken /\ FileMt(d, "ab/cd/e") = Src(st, "e", 9) THEN st ELSE Broken]
    [] Routine \in {"lru", "lru_inplace", "lru_fixed"} ->
         \* find_latest_lru_file + load_from_disk: highest generation, MD5 must match
         [o \in {"lru"} |-> IF LruGens(d) = {} THEN 0 ELSE StateOf(File(d, Lru(MaxGen(d))), "lru")]
    [] Routine \in {"journal", "journal_fixed", "journal_save"} ->
         [o \in {"journal"} |-> IF "extract_bu" \in Names(d) THEN JournalState(File(d, "extract_bu")) ELSE 0]

(***************************************************************************)
(* Behaviours                                                              *)
(***************************************************************************)
NoCrash == [on |-> FALSE]
CSInit == /\ fs = FsEmpty /\ n = 1 /\ pc = 1 /\ crashed = NoCrash
          /\ proto \in Protocols(1, FsEmpty)

DoStep == /\ ~crashed.on /\ pc <= Len(proto)
          /\ Assert(Applicable(fs, proto[pc]), <<"protocol step not applicable", proto[pc]>>)
          /\ fs' = ApplyEv(fs, proto[pc]) /\ pc' = pc + 1
          /\ UNCHANGED <<n, proto, crashed>>

\* the save returned; much later (everything has reached the disk) the next one starts
NextSave == /\ ~crashed.on /\ pc > Len(proto) /\ n < MaxSaves
            /\ fs' = FsQuiesce(fs) /\ n' = n + 1 /\ pc' = 1
            /\ proto' \in Protocols(n + 1, fs)
            /\ UNCHANGED crashed

Crash == /\ ~crashed.on
         /\ \E d \in CrashDisks(fs, Strict) : crashed' = [on |-> TRUE, disk |-> d]
         /\ UNCHANGED <<fs, n, proto, pc>>

CSNext == DoStep \/ NextSave \/ Crash

\* the property
OldOrNew == crashed.on => \A o \in DOMAIN Recover(crashed.disk) : Recover(crashed.disk)[o] \in {n - 1, n}
=============================================================================
