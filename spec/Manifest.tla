------------------------------ MODULE Manifest ------------------------------
(***************************************************************************)
(* Property C19: install / download / size manifests select exactly the    *)
(* tagged files.                                                           *)
(*                                                                         *)
(* Part 1  the SET MODEL: a manifest under construction is a sequence of   *)
(*         files <<id, size, priority>> and a sequence of tags             *)
(*         <<name, type, members>> (members = set of file ids).  The       *)
(*         builder operations are functions XxxR(m, ...) returning         *)
(*         [st |-> next model, valid |-> "yes" | "no" | "unspec"].         *)
(* Part 2  the QUERIES on the set model: FilesAll, FilesAny, SizeFor,      *)
(*         ByPriority, ByPrioRange, and MaskBytes = the on-disk bit        *)
(*         layout (file i is bit 0x80 >> (i mod 8) of byte i div 8).       *)
(* Part 3  a BYTE-LEVEL READER of the three container formats, written     *)
(*         from the format description (not from the library's parser):    *)
(*         ReadManifest(bytes) = header fields, entries, tag section.      *)
(* Part 4  a BYTE-LEVEL WRITER, used only by MC_Manifest to check the      *)
(*         reader against an independent transcription of the format.      *)
(* Part 5  the state machine over builder programs and the design-level    *)
(*         properties TLC checks on it.                                    *)
(*                                                                         *)
(* Sizes are 40-bit (download) / 32-bit (install) / up to 47-bit (totals); *)
(* TLC integers are 32-bit, so a size is a pair <<hi, lo>> with value      *)
(* hi * 2^24 + lo, 0 <= lo < 2^24.  File positions are 0-based, like the   *)
(* indices of the library's API.                                           *)
(***************************************************************************)
EXTENDS Naturals, Integers, Sequences, FiniteSets

\* ------------------------------------------------------------------------
\* sizes
\* ------------------------------------------------------------------------
B24 == 16777216
SzNorm(p)   == <<p[1] + (p[2] \div B24), p[2] % B24>>
SzAdd(a, b) == SzNorm(<<a[1] + b[1], a[2] + b[2]>>)
SzLeq(a, b) == a[1] < b[1] \/ (a[1] = b[1] /\ a[2] <= b[2])

\* ------------------------------------------------------------------------
\* Part 1: the set model
\* ------------------------------------------------------------------------
M0 == [files |-> <<>>, tags |-> <<>>, next |-> 0]

NFiles(m)   == Len(m.files)
AllPos(m)   == 0 .. (Len(m.files) - 1)
TagNames(m) == {m.tags[k].name : k \in 1..Len(m.tags)}
TagIx(m, t) == CHOOSE k \in 1..Len(m.tags) : m.tags[k].name = t
FileIds(m)  == {m.files[k].id : k \in 1..Len(m.files)}
SeqDrop(q, k) == [j \in 1..(Len(q) - 1) |-> IF j < k THEN q[j] ELSE q[j + 1]]

MOk(m)     == [st |-> m, valid |-> "yes"]
MRefuse(m) == [st |-> m, valid |-> "no"]      \* invalid arguments: the state must not change
MUnspec(m) == [st |-> m, valid |-> "unspec"]  \* outside the documented precondition: nothing is judged afterwards

AddFileR(m, sz, pr) ==
  MOk([m EXCEPT !.files = Append(m.files, [id |-> m.next, sz |-> sz, pr |-> pr]), !.next = m.next + 1])

\* tag names are unique within a manifest (documented precondition of add_tag)
AddTagR(m, t, ty) ==
  IF t \in TagNames(m) THEN MUnspec(m)
  ELSE MOk([m EXCEPT !.tags = Append(m.tags, [name |-> t, ty |-> ty, mem |-> {}])])

WithMem(m, t, S) == [m EXCEPT !.tags[TagIx(m, t)].mem = S]
MemOf(m, t)      == m.tags[TagIx(m, t)].mem

\* positional = TRUE is the size-manifest builder: tag_file(tag, file_index) names a
\* position that may be filled by a later add_entry (ids and positions coincide
\* there because that builder cannot remove entries)
AssocR(m, positional, i, t) ==
  IF t \notin TagNames(m) \/ i < 0 THEN MRefuse(m)
  ELSE IF positional THEN MOk(WithMem(m, t, MemOf(m, t) \cup {i}))
  ELSE IF i >= Len(m.files) THEN MRefuse(m)
  ELSE MOk(WithMem(m, t, MemOf(m, t) \cup {m.files[i + 1].id}))

DissocR(m, i, t) ==
  IF t \notin TagNames(m) \/ i < 0 \/ i >= Len(m.files) THEN MRefuse(m)
  ELSE MOk(WithMem(m, t, MemOf(m, t) \ {m.files[i + 1].id}))

\* positions above i shift down by one; every tag forgets the removed file
RemoveFileR(m, i) ==
  IF i < 0 \/ i >= Len(m.files) THEN MRefuse(m)
  ELSE LET id == m.files[i + 1].id IN
       MOk([m EXCEPT !.files = SeqDrop(m.files, i + 1),
                     !.tags  = [k \in 1..Len(m.tags) |-> [m.tags[k] EXCEPT !.mem = m.tags[k].mem \ {id}]]])

RemoveTagR(m, t) ==
  IF t \notin TagNames(m) THEN MRefuse(m)
  ELSE MOk([m EXCEPT !.tags = SeqDrop(m.tags, TagIx(m, t))])

\* build -> serialise -> parse -> builder from the parsed manifest: no change
ReopenR(m) == MOk(m)

RECURSIVE AddFilesR(_, _, _)
AddFilesR(m, fs, k) ==   \* fs: sequence of <<hi, lo, prio>>
  IF k > Len(fs) THEN MOk(m) ELSE AddFilesR(AddFileR(m, <<fs[k][1], fs[k][2]>>, fs[k][3]).st, fs, k + 1)

RECURSIVE AssocSetR(_, _, _, _, _)
AssocSetR(m, positional, t, is, k) ==
  IF k > Len(is) THEN MOk(m)
  ELSE LET r == AssocR(m, positional, is[k], t) IN
       IF r.valid # "yes" THEN MUnspec(m) ELSE AssocSetR(r.st, positional, t, is, k + 1)

ApplyOp(m, positional, e) ==
  CASE e.op = "add_file"    -> AddFileR(m, <<e.sz[1], e.sz[2]>>, e.pr)
    [] e.op = "add_files"   -> AddFilesR(m, e.files, 1)
    [] e.op = "add_tag"     -> AddTagR(m, e.t, e.ty)
    [] e.op = "assoc"       -> AssocR(m, positional, e.i, e.t)
    [] e.op = "assoc_set"   -> AssocSetR(m, positional, e.t, e.files, 1)
    [] e.op = "dissoc"      -> DissocR(m, e.i, e.t)
    [] e.op = "remove_file" -> RemoveFileR(m, e.i)
    [] e.op = "remove_tag"  -> RemoveTagR(m, e.t)
    [] e.op = "reopen"      -> ReopenR(m)
    [] OTHER                -> MOk(m)      \* build: no change

\* ------------------------------------------------------------------------
\* Part 2: queries on the set model
\* ------------------------------------------------------------------------
PosOfIds(m, S) == {p \in AllPos(m) : m.files[p + 1].id \in S}
Members(m, t)  == IF t \in TagNames(m) THEN PosOfIds(m, MemOf(m, t)) ELSE {}
\* a tag that does not exist has no files: an all-of query naming it selects nothing,
\* an any-of query ignores it
\* (position p is selected by tag t iff the id of the file at p is a member of t)
FilesAll(m, T) ==
  IF T \subseteq TagNames(m)
  THEN LET mems == {MemOf(m, t) : t \in T} IN {p \in AllPos(m) : \A S \in mems : m.files[p + 1].id \in S}
  ELSE {}
FilesAny(m, T) ==
  LET mems == {MemOf(m, t) : t \in T \cap TagNames(m)} IN {p \in AllPos(m) : \E S \in mems : m.files[p + 1].id \in S}

RECURSIVE SzSumFrom(_, _, _)
SzSumFrom(files, P, k) ==
  IF k > Len(files) THEN <<0, 0>>
  ELSE LET rest == SzSumFrom(files, P, k + 1) IN
       IF (k - 1) \in P THEN SzAdd(files[k].sz, rest) ELSE rest
SizeOfSet(m, P) == SzSumFrom(m.files, P, 1)
SizeFor(m, T)   == SizeOfSet(m, FilesAll(m, T))
TotalSize(m)    == SizeOfSet(m, AllPos(m))

\* download priorities: effective = priority - base_priority (version 3), as a signed byte
\* (saturating); categories Critical < 0, Essential = 0, High 1..2, Normal 3..5, Low >= 6
Clamp8(x)       == IF x < -128 THEN -128 ELSE IF x > 127 THEN 127 ELSE x
EffPrio(pr, bp) == Clamp8(pr - bp)
Category(p)     == IF p < 0 THEN "Critical" ELSE IF p = 0 THEN "Essential" ELSE IF p <= 2 THEN "High"
                   ELSE IF p <= 5 THEN "Normal" ELSE "Low"
Categories      == {"Critical", "Essential", "High", "Normal", "Low"}
ByPriority(m, bp, cat)     == {p \in AllPos(m) : Category(EffPrio(m.files[p + 1].pr, bp)) = cat}
ByPrioRange(m, bp, lo, hi) == {p \in AllPos(m) : LET x == EffPrio(m.files[p + 1].pr, bp) IN x >= lo /\ x <= hi}

\* the on-disk mask: file i is bit (0x80 >> (i mod 8)) of byte (i div 8); ceil(n/8) bytes;
\* bits at positions >= n are zero
RECURSIVE MaskByte(_, _, _)
MaskByte(S, b, k) == IF k > 7 THEN 0 ELSE (IF (8 * b + k) \in S THEN 2 ^ (7 - k) ELSE 0) + MaskByte(S, b, k + 1)
MaskBytes(S, n)   == LET SS == S \cap (0..(n - 1)) IN [b \in 1..((n + 7) \div 8) |-> MaskByte(SS, b - 1, 0)]

BitIsSet(byte, k)     == (byte \div (2 ^ (7 - k))) % 2 = 1
MaskMembers(mask, n)  == {i \in 0..(n - 1) : (i \div 8) + 1 <= Len(mask) /\ BitIsSet(mask[(i \div 8) + 1], i % 8)}
MaskStray(mask, n)    == {i \in n..(8 * Len(mask) - 1) : BitIsSet(mask[(i \div 8) + 1], i % 8)}
MaskOfTag(m, t)       == MaskBytes(Members(m, t), NFiles(m))

\* ------------------------------------------------------------------------
\* Part 3: byte-level reader.  b is a sequence of integers 0..255; offsets are 1-based.
\* ------------------------------------------------------------------------
U16(b, o)  == b[o] * 256 + b[o + 1]
U24(b, o)  == (b[o] * 256 + b[o + 1]) * 256 + b[o + 2]
Sz32(b, o) == <<b[o], U24(b, o + 1)>>                 \* 4-byte big-endian size as a pair
Sz40(b, o) == <<U16(b, o), U24(b, o + 2)>>            \* 5-byte big-endian size as a pair
I8(x)      == IF x >= 128 THEN x - 256 ELSE x
\* w-byte big-endian unsigned (1 <= w <= 8) as a pair; the bytes above bit 47 must be zero
RECURSIVE BeVal(_, _, _)
BeVal(b, o, w) == IF w = 0 THEN 0 ELSE BeVal(b, o, w - 1) * 256 + b[o + w - 1]
SzW(b, o, w) ==
  IF w <= 3 THEN <<0, BeVal(b, o, w)>>
  ELSE IF w <= 6 THEN <<BeVal(b, o, w - 3), U24(b, o + w - 3)>>
  ELSE <<BeVal(b, o + w - 6, 3), U24(b, o + w - 3)>>
SzWHighZero(b, o, w) == w <= 6 \/ (\A k \in 0..(w - 7) : b[o + k] = 0)
\* 4-byte big-endian count; counts >= 2^24 are outside what this reader handles
Cnt32Ok(b, o) == b[o] = 0
Cnt32(b, o)   == U24(b, o + 1)

UpperC == <<"A","B","C","D","E","F","G","H","I","J","K","L","M","N","O","P","Q","R","S","T","U","V","W","X","Y","Z">>
LowerC == <<"a","b","c","d","e","f","g","h","i","j","k","l","m","n","o","p","q","r","s","t","u","v","w","x","y","z">>
DigitC == <<"0","1","2","3","4","5","6","7","8","9">>
ChrOf(c) == IF c >= 65 /\ c <= 90 THEN UpperC[c - 64]
            ELSE IF c >= 97 /\ c <= 122 THEN LowerC[c - 96]
            ELSE IF c >= 48 /\ c <= 57 THEN DigitC[c - 47]
            ELSE IF c = 95 THEN "_" ELSE "?"
RECURSIVE CStrEnd(_, _)
CStrEnd(b, o) == IF o > Len(b) THEN 0 ELSE IF b[o] = 0 THEN o ELSE CStrEnd(b, o + 1)   \* offset of the NUL, 0 if none
RECURSIVE StrOf(_, _, _)
StrOf(b, o, z) == IF o >= z THEN "" ELSE ChrOf(b[o]) \o StrOf(b, o + 1, z)

RdFail == [ok |-> FALSE]

\* tag section: cnt tags, each  name NUL  type(u16 BE)  mask[ceil(n/8)]
RECURSIVE ReadTagsFrom(_, _, _, _)
ReadTagsFrom(b, o, cnt, n) ==
  IF cnt = 0 THEN [ok |-> TRUE, tags |-> <<>>, next |-> o]
  ELSE LET z  == CStrEnd(b, o)
           ml == (n + 7) \div 8
       IN IF z = 0 \/ z + 2 + ml > Len(b) THEN [ok |-> FALSE, tags |-> <<>>, next |-> o]
          ELSE LET tag  == [name |-> StrOf(b, o, z), ty |-> U16(b, z + 1), mask |-> SubSeq(b, z + 3, z + 2 + ml)]
                   rest == ReadTagsFrom(b, z + 3 + ml, cnt - 1, n)
               IN [ok |-> rest.ok, tags |-> <<tag>> \o rest.tags, next |-> rest.next]

\* install entries: path NUL  ckey[ckl]  size(u32 BE)  [file_type(u8) if version >= 2]
RECURSIVE ReadInstallEntries(_, _, _, _, _)
ReadInstallEntries(b, o, cnt, ckl, extra) ==
  IF cnt = 0 THEN [ok |-> TRUE, files |-> <<>>, next |-> o]
  ELSE LET z == CStrEnd(b, o) IN
       IF z = 0 \/ z + ckl + 4 + extra > Len(b) \/ ckl < 2 THEN [ok |-> FALSE, files |-> <<>>, next |-> o]
       ELSE LET f    == [id |-> U16(b, z + 1), sz |-> Sz32(b, z + 1 + ckl), pr |-> 0]
                rest == ReadInstallEntries(b, z + 1 + ckl + 4 + extra, cnt - 1, ckl, extra)
            IN [ok |-> rest.ok, files |-> <<f>> \o rest.files, next |-> rest.next]

\* "IN" ver ckl tag_count(u16) entry_count(u32) [v2: 6 more bytes]  tags  entries
ReadInstall(b) ==
  IF Len(b) < 10 \/ b[1] # 73 \/ b[2] # 78 \/ b[3] \notin {1, 2} \/ ~Cnt32Ok(b, 7) THEN RdFail
  ELSE LET ver == b[3]
           hl  == IF ver = 1 THEN 10 ELSE 16
           n   == Cnt32(b, 7)
           tg  == ReadTagsFrom(b, hl + 1, U16(b, 5), n)
       IN IF Len(b) < hl \/ ~tg.ok THEN RdFail
          ELSE LET en == ReadInstallEntries(b, tg.next, n, b[4], IF ver = 1 THEN 0 ELSE 1) IN
               IF ~en.ok THEN RdFail
               ELSE [ok |-> TRUE, kind |-> "install", ver |-> ver, n |-> n, files |-> en.files, tags |-> tg.tags,
                     exact |-> (en.next = Len(b) + 1), base |-> 0, total |-> <<0, 0>>]

\* "DL" ver ekl has_checksum entry_count(u32) tag_count(u16) [v2+: flag_size] [v3: base_priority(i8) reserved[3]]
\* entries: ekey[ekl] size(40 bit BE) priority(i8) [checksum u32] [flags[flag_size]]   then the tags
ReadDownload(b) ==
  IF Len(b) < 11 \/ b[1] # 68 \/ b[2] # 76 \/ b[3] \notin {1, 2, 3} \/ ~Cnt32Ok(b, 6) THEN RdFail
  ELSE LET ver == b[3]
           hl  == CASE ver = 1 -> 11 [] ver = 2 -> 12 [] OTHER -> 16
       IN IF Len(b) < hl THEN RdFail
          ELSE LET ekl == b[4]
                   n   == Cnt32(b, 6)
                   fl  == IF ver >= 2 THEN b[12] ELSE 0
                   es  == ekl + 5 + 1 + (IF b[5] # 0 THEN 4 ELSE 0) + fl
                   to  == hl + n * es + 1            \* offset of the tag section
               IN IF to > Len(b) + 1 \/ ekl < 2 THEN RdFail
                  ELSE LET tg == ReadTagsFrom(b, to, U16(b, 10), n) IN
                       IF ~tg.ok THEN RdFail
                       ELSE [ok |-> TRUE, kind |-> "download", ver |-> ver, n |-> n,
                             files |-> [k \in 1..n |-> LET o == hl + (k - 1) * es + 1 IN
                                          [id |-> U16(b, o), sz |-> Sz40(b, o + ekl), pr |-> I8(b[o + ekl + 5])]],
                             tags |-> tg.tags, exact |-> (tg.next = Len(b) + 1),
                             base |-> IF ver = 3 THEN I8(b[13]) ELSE 0, total |-> <<0, 0>>]

\* "DS" ver eks entry_count(u32) tag_count(u16)  v1: total(u64 BE) esize_bytes(u8) | v2: total(40 bit BE), esize 4 bytes
\* then the tags, then entries: ekey[eks] esize[esize_bytes]
ReadSize(b) ==
  IF Len(b) < 15 \/ b[1] # 68 \/ b[2] # 83 \/ b[3] \notin {1, 2} \/ ~Cnt32Ok(b, 5) THEN RdFail
  ELSE LET ver == b[3]
           hl  == IF ver = 1 THEN 19 ELSE 15
       IN IF Len(b) < hl THEN RdFail
          ELSE LET eks == b[4]
                   n   == Cnt32(b, 5)
                   esb == IF ver = 1 THEN b[19] ELSE 4
                   tot == IF ver = 1 THEN SzW(b, 11, 8) ELSE Sz40(b, 11)
                   tg  == ReadTagsFrom(b, hl + 1, U16(b, 9), n)
               IN IF ~tg.ok \/ esb < 1 \/ esb > 8 \/ eks < 2 \/ (ver = 1 /\ ~SzWHighZero(b, 11, 8)) THEN RdFail
                  ELSE LET es == eks + esb IN
                       IF tg.next + n * es > Len(b) + 1 THEN RdFail
                       ELSE LET files == [k \in 1..n |-> LET o == tg.next + (k - 1) * es IN
                                            [id |-> U16(b, o), sz |-> SzW(b, o + eks, esb), pr |-> 0]]
                            IN IF \E k \in 1..n : ~SzWHighZero(b, tg.next + (k - 1) * es + eks, esb) THEN RdFail
                               ELSE [ok |-> TRUE, kind |-> "size", ver |-> ver, n |-> n, files |-> files, tags |-> tg.tags,
                                     exact |-> (tg.next + n * es = Len(b) + 1), base |-> 0, total |-> tot]

ReadManifest(b) ==
  IF Len(b) < 2 THEN RdFail
  ELSE IF b[1] = 73 THEN ReadInstall(b)
  ELSE IF b[1] = 68 /\ b[2] = 76 THEN ReadDownload(b)
  ELSE IF b[1] = 68 /\ b[2] = 83 THEN ReadSize(b)
  ELSE RdFail

\* ---- what a serialized manifest must say, given the set model ---------------------------------
\* cfg: [kind, ver, cs, fl, base, esb, eks];  judged up to the order of the tags
TagTriples(m)   == {<<m.tags[k].name, m.tags[k].ty, MaskOfTag(m, m.tags[k].name)>> : k \in 1..Len(m.tags)}
TagTriplesRd(r) == {<<r.tags[k].name, r.tags[k].ty, r.tags[k].mask>> : k \in 1..Len(r.tags)}
FilesAgree(cfg, m, fs) ==
  /\ Len(fs) = Len(m.files)
  /\ \A k \in 1..Len(fs) :
       /\ fs[k].id = m.files[k].id
       /\ fs[k].sz = m.files[k].sz
       /\ (cfg.kind = "download" => fs[k].pr = m.files[k].pr)
BytesAgree(cfg, m, r) ==
  /\ r.ok /\ r.exact
  /\ r.kind = cfg.kind
  /\ (cfg.kind # "install" => r.ver = cfg.ver)     \* the install builder has no version parameter
  /\ r.n = NFiles(m)
  /\ FilesAgree(cfg, m, r.files)
  /\ Len(r.tags) = Len(m.tags)
  /\ TagTriplesRd(r) = TagTriples(m)
  /\ (cfg.kind = "download" /\ cfg.ver = 3 => r.base = cfg.base)
  /\ (cfg.kind = "size" => r.total = TotalSize(m))

\* ------------------------------------------------------------------------
\* Part 4: byte-level writer (model checking only: ReadManifest(Write(m)) must be m)
\* ------------------------------------------------------------------------
NameByte(t) == CHOOSE c \in 48..122 : ChrOf(c) = t          \* single-character names
KeyBytes(id, len) == [k \in 1..len |-> IF k = 1 THEN id \div 256 ELSE IF k = 2 THEN id % 256 ELSE 238]
Be16(x) == <<x \div 256, x % 256>>
Be24(x) == <<x \div 65536, (x \div 256) % 256, x % 256>>
Be32c(x) == <<0>> \o Be24(x)                                 \* a count < 2^24
BeSz32(p) == <<p[1]>> \o Be24(p[2])
BeSz40(p) == Be16(p[1]) \o Be24(p[2])
BeSzW(p, w) ==                                                \* w-byte big-endian of a pair < 2^47
  LET full == <<0, 0>> \o Be24(p[1]) \o Be24(p[2]) IN SubSeq(full, 9 - w, 8)
U8of(x) == IF x < 0 THEN x + 256 ELSE x
RECURSIVE FlatSeq(_, _)
FlatSeq(qs, k) == IF k > Len(qs) THEN <<>> ELSE qs[k] \o FlatSeq(qs, k + 1)
WrTags(m) == FlatSeq([k \in 1..Len(m.tags) |->
                        <<NameByte(m.tags[k].name), 0>> \o Be16(m.tags[k].ty) \o MaskOfTag(m, m.tags[k].name)], 1)
WriteInstall(m) ==
  <<73, 78, 1, 16>> \o Be16(Len(m.tags)) \o Be32c(NFiles(m)) \o WrTags(m)
  \o FlatSeq([k \in 1..NFiles(m) |-> <<102, 0>> \o KeyBytes(m.files[k].id, 16) \o BeSz32(m.files[k].sz)], 1)
WriteDownload(cfg, m) ==
  <<68, 76, cfg.ver, 16, IF cfg.cs THEN 1 ELSE 0>> \o Be32c(NFiles(m)) \o Be16(Len(m.tags))
  \o (IF cfg.ver >= 2 THEN <<cfg.fl>> ELSE <<>>)
  \o (IF cfg.ver = 3 THEN <<U8of(cfg.base), 0, 0, 0>> ELSE <<>>)
  \o FlatSeq([k \in 1..NFiles(m) |-> KeyBytes(m.files[k].id, 16) \o BeSz40(m.files[k].sz) \o <<U8of(m.files[k].pr)>>
                                     \o (IF cfg.cs THEN <<1, 2, 3, 4>> ELSE <<>>)
                                     \o [j \in 1..(IF cfg.ver >= 2 THEN cfg.fl ELSE 0) |-> 170]], 1)
  \o WrTags(m)
WriteSize(cfg, m) ==
  <<68, 83, cfg.ver, cfg.eks>> \o Be32c(NFiles(m)) \o Be16(Len(m.tags))
  \o (IF cfg.ver = 1 THEN BeSzW(TotalSize(m), 8) \o <<cfg.esb>> ELSE BeSz40(TotalSize(m)))
  \o WrTags(m)
  \o FlatSeq([k \in 1..NFiles(m) |-> KeyBytes(m.files[k].id, cfg.eks)
                                     \o BeSzW(m.files[k].sz, IF cfg.ver = 1 THEN cfg.esb ELSE 4)], 1)
WriteManifest(cfg, m) ==
  CASE cfg.kind = "install"  -> WriteInstall(m)
    [] cfg.kind = "download" -> WriteDownload(cfg, m)
    [] OTHER                 -> WriteSize(cfg, m)

\* ------------------------------------------------------------------------
\* Part 5: the state machine and the design-level properties
\* ------------------------------------------------------------------------
VARIABLE m

Init  == m = M0
Do(positional, e) == m' = ApplyOp(m, positional, e).st

\* tag membership only ever names files that exist (or, in the size builder, positions
\* named in advance), names are unique, ids are unique
WellFormed ==
  /\ \A j, k \in 1..Len(m.tags) : j # k => m.tags[j].name # m.tags[k].name
  /\ \A j, k \in 1..Len(m.files) : j # k => m.files[j].id # m.files[k].id
MembersExist == \A k \in 1..Len(m.tags) : m.tags[k].mem \subseteq FileIds(m)

\* the mask is a faithful, canonical encoding of the member set for every file count
MaskRoundTrip ==
  \A k \in 1..Len(m.tags) :
    LET t == m.tags[k].name
        mk == MaskOfTag(m, t)
    IN /\ Len(mk) = (NFiles(m) + 7) \div 8
       /\ MaskMembers(mk, NFiles(m)) = Members(m, t)
       /\ MaskStray(mk, NFiles(m)) = {}
       /\ \A j \in 1..Len(mk) : mk[j] \in 0..255

\* algebra of the queries
QueryAlgebra(T) ==
  /\ (T # {} => FilesAll(m, T) \subseteq FilesAny(m, T))
  /\ FilesAll(m, T) \subseteq AllPos(m) /\ FilesAny(m, T) \subseteq AllPos(m)
  /\ SzLeq(SizeFor(m, T), TotalSize(m))
  /\ \A t \in T : FilesAll(m, T) \subseteq FilesAll(m, {t})

\* priority categories partition the files
PrioPartition(bp) ==
  /\ UNION {ByPriority(m, bp, c) : c \in Categories} = AllPos(m)
  /\ \A c, d \in Categories : c # d => ByPriority(m, bp, c) \cap ByPriority(m, bp, d) = {}

\* the reader inverts the writer (both transcribed from the format description)
ReaderInvertsWriter(cfg) == BytesAgree(cfg, m, ReadManifest(WriteManifest(cfg, m)))

\* ------------------------------------------------------------------------
\* Part 6: code-shaped mask maintenance.  What the builders do to the byte vector of a
\* tag, transcribed from install/builder.rs, download/builder.rs, size/builder.rs and
\* install/tag.rs.  MC_Manifest carries one vector per tag next to the set model and
\* checks after every operation that it is MaskBytes(members, n) (refinement).
\* Defects = {} is the design without the listed findings; with a finding's id in
\* Defects the operator behaves like the unchanged code and TLC regenerates the witness.
\* ------------------------------------------------------------------------
ImplBits(mask)    == {i \in 0..(8 * Len(mask) - 1) : BitIsSet(mask[(i \div 8) + 1], i % 8)}
ImplMake(S, len)  == [b \in 1..len |-> MaskByte(S, b - 1, 0)]      \* the bits of S below 8*len, nothing else
\* InstallTag::add_file: the vector grows to hold bit i, then byte i/8 |= 0x80 >> (i%8)
ImplSetBit(mask, i)   == ImplMake(ImplBits(mask) \cup {i}, IF (i \div 8) + 1 > Len(mask) THEN (i \div 8) + 1 ELSE Len(mask))
\* InstallTag::remove_file: byte i/8 &= !(0x80 >> (i%8)) when the byte exists
ImplClearBit(mask, i) == ImplMake(ImplBits(mask) \ {i}, Len(mask))
\* builder.add_file: every vector shorter than ceil(n/8) is zero-extended
ImplGrow(mask, n)     == IF Len(mask) < (n + 7) \div 8 THEN ImplMake(ImplBits(mask), (n + 7) \div 8) ELSE mask
\* InstallManifestBuilder::remove_file(i): for every remaining position j the old position is j (j < i) or j + 1
ImplRemoveInstall(mask, nNew, i) ==
  ImplMake({j \in 0..(nNew - 1) : LET old == IF j < i THEN j ELSE j + 1 IN old < 8 * Len(mask) /\ old \in ImplBits(mask)},
           (nNew + 7) \div 8)
\* DownloadManifestBuilder::remove_file(i): walks every bit of the old vector, drops bit i, packs, resizes
ImplRemoveDownload(mask, nNew, i) ==
  ImplMake({IF o < i THEN o ELSE o - 1 : o \in ImplBits(mask) \ {i}}, (nNew + 7) \div 8)
\* SizeManifestBuilder::build: bit_mask.resize(ceil(n/8), 0) - bits named by tag_file beyond the last
\* entry that fall into the last byte survive (finding F19a); the design clears them
ImplSizeFinal(mask, n, defects) ==
  ImplMake(IF "F19a" \in defects THEN ImplBits(mask) ELSE ImplBits(mask) \cap (0..(n - 1)), (n + 7) \div 8)

\* one builder operation on the vectors `bm` (parallel to mm.tags) of a builder of the given shape;
\* mm is the set model BEFORE the operation, the operation is valid
ImplApplyOp(bm, shape, mm, e) ==
  LET n == NFiles(mm) IN
  CASE e.op = "add_file"    -> IF shape = "size" THEN bm ELSE [j \in 1..Len(bm) |-> ImplGrow(bm[j], n + 1)]
    [] e.op = "add_tag"     -> Append(bm, ImplMake({}, IF shape = "size" THEN 0 ELSE (n + 7) \div 8))
    [] e.op = "assoc"       -> [bm EXCEPT ![TagIx(mm, e.t)] = ImplSetBit(bm[TagIx(mm, e.t)], e.i)]
    [] e.op = "dissoc"      -> [bm EXCEPT ![TagIx(mm, e.t)] = ImplClearBit(bm[TagIx(mm, e.t)], e.i)]
    [] e.op = "remove_file" -> [j \in 1..Len(bm) |-> IF shape = "install" THEN ImplRemoveInstall(bm[j], n - 1, e.i)
                                                     ELSE ImplRemoveDownload(bm[j], n - 1, e.i)]
    [] e.op = "remove_tag"  -> SeqDrop(bm, TagIx(mm, e.t))
    [] OTHER                -> bm
\* the vectors as they are serialised
ImplFinal(bm, shape, mm, defects) ==
  IF shape = "size" THEN [j \in 1..Len(bm) |-> ImplSizeFinal(bm[j], NFiles(mm), defects)] ELSE bm
MasksRefine(bm, shape, mm, defects) ==
  /\ Len(bm) = Len(mm.tags)
  /\ \A j \in 1..Len(bm) : ImplFinal(bm, shape, mm, defects)[j] = MaskOfTag(mm, mm.tags[j].name)
=============================================================================
