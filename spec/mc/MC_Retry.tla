------------------------------ MODULE MC_Retry ------------------------------
(* Bounded exhaustive checking of Retry.tla and generation of programs (binding G).
   A program is an INITIAL state: a policy (or an environment, or nothing for the CDN client)
   and the script of outcomes the attempts will meet.  Every initial state is printed once. *)
EXTENDS Retry, TLC, Json

CONSTANTS Family,                              \* "exec" | "kinds" | "hostile" | "env" | "cdn"
          Maxes, Inits, Maxbs, Mults,          \* exec / hostile grids
          HintsMs, HintHuge,                   \* hints in ms (>= 0); whether "the largest Duration" is one too
          EnvMax, EnvInit, EnvMaxb, EnvMult, EnvJit,   \* env grid (tokens, "unset")
          CdnGrid                              \* cdn: "quick" | "full"
VARIABLE meta    \* what the program consists of besides the script (constant along a behaviour)

O(kind, code, h) == [kind |-> kind, code |-> code, h |-> h, dur |-> 0]
OkOut == O("Ok", 0, -1)
\* all sequences of k retryable outcomes followed by one that ends the run, k = 0..depth
ScriptsOver(R, T, depth) == UNION {{r \o <<t>> : r \in [1..k -> R], t \in T} : k \in 0..depth}

\* ---- exec / hostile: policy grid x scripts over {Timeout, RateLimited(h)} then {Ok, Parse}
Hints == HintsMs \cup {-1} \cup (IF HintHuge THEN {-2} ELSE {})   \* -1: RateLimited without hint
Pols == [max : Maxes, init : Inits, maxb : Maxbs, mult : Mults, jit : BOOLEAN]
ExecScripts(M, h) == ScriptsOver({O("Timeout", 0, -1), O("RateLimited", 0, h)}, {OkOut, O("Parse", 0, -1)}, M + 1)
HasRL(sc) == \E i \in 1..Len(sc) : sc[i].kind = "RateLimited"
Unsat(x) == IF x >= SAT THEN -2 ELSE x     \* the driver builds "the largest value" from -2

\* ---- kinds: every error variant in first and second position under one small policy
KindOuts ==
  {O("Timeout", 0, -1), O("Network", 0, -1), O("ServiceUnavailable", 0, -1), O("ServerError", 500, -1),
   O("ServerError", 503, -1), O("RateLimited", 0, -1), O("RateLimited", 0, 30)}
  \cup {O("HttpStatus", c, -1) : c \in {400, 401, 403, 404, 408, 410, 418, 429, 500, 501, 502, 503, 504}}
  \cup {O(k, 0, -1) : k \in {"Parse", "AllHostsFailed", "InvalidKey", "InvalidEndpoint", "RangeNotSupported",
                             "Other", "UnsupportedOnWasm", "Utf8", "Cache"}}
KindScripts == {<<a, b, OkOut>> : a \in KindOuts, b \in KindOuts} \cup {<<a, a, a, a>> : a \in KindOuts}
KindPols == {[max |-> 2, init |-> 10, maxb |-> 100, mult |-> "2", jit |-> j] : j \in BOOLEAN}

\* ---- env: RetryPolicy::from_env over a grid of variable values
EnvRows == [MAX_RETRIES : EnvMax, RETRY_BACKOFF : EnvInit, MAX_BACKOFF : EnvMaxb, MULT : EnvMult, JITTER : EnvJit]
T7 == [i \in 1..7 |-> O("Timeout", 0, -1)]
EnvScripts == {T7, <<O("Timeout", 0, -1), O("RateLimited", 0, 30), O("Timeout", 0, -1), OkOut>>}

\* ---- cdn: HTTP statuses served to CdnClient::download (default policy inside the client)
St(c) == [kind |-> "Status", code |-> c[1], ra |-> c[2], h |-> -1, dur |-> 0]
CdnRetry == IF CdnGrid = "quick" THEN {<<503, "none">>, <<429, "1">>}
            ELSE {<<503, "none">>, <<429, "none">>, <<429, "0">>, <<429, "1">>}
CdnTerm  == {<<200, "none">>, <<404, "none">>}
\* one answer of every status class followed by a success: the status -> error classification
StatusGrid == {<<c, "none">> : c \in {200, 201, 206, 400, 401, 403, 404, 408, 410, 416, 418, 429, 500, 501, 502, 503, 504, 599}}
              \cup {<<429, "abc">>, <<429, "2">>}
              \cup (IF CdnGrid = "quick" THEN {} ELSE {<<429, "18446744073709551615">>, <<429, "3">>, <<301, "none">>, <<304, "none">>})
CdnScripts == ScriptsOver({St(c) : c \in CdnRetry}, {St(c) : c \in CdnTerm}, DefaultPol.max + 1)
              \cup {<<St(c), St(<<200, "none">>)>> : c \in StatusGrid}

NoEnv == [MAX_RETRIES |-> "unset", RETRY_BACKOFF |-> "unset", MAX_BACKOFF |-> "unset", MULT |-> "unset", JITTER |-> "unset"]

MCInit ==
  \/ /\ Family \in {"exec", "hostile"}
     /\ \E p \in Pols, h \in Hints : \E sc \in ExecScripts(p.max, h) :
          /\ HasRL(sc) \/ h = -1
          /\ InitWith(p, sc) /\ meta = [fam |-> "exec", env |-> NoEnv]
  \/ /\ Family = "kinds"
     /\ \E p \in KindPols, sc \in KindScripts : InitWith(p, sc) /\ meta = [fam |-> "exec", env |-> NoEnv]
  \/ /\ Family = "env"
     /\ \E row \in EnvRows, sc \in EnvScripts : InitWith(EnvPol(row, DefaultPol), sc) /\ meta = [fam |-> "env", env |-> row]
  \/ /\ Family = "cdn"
     /\ \E sc \in CdnScripts : InitWith(DefaultPol, sc) /\ meta = [fam |-> "cdn", env |-> NoEnv]

\* one named disjunct per action of the machine, so that TLC's coverage reports them separately
MC_Call     == Call /\ UNCHANGED meta
MC_Sleep    == Sleep /\ UNCHANGED meta
MC_Return   == Return /\ UNCHANGED meta
MC_DevPanic == DevPanic /\ UNCHANGED meta      \* disabled by design while KnownDeviations = {}
MCNext == MC_Call \/ MC_Sleep \/ MC_Return \/ MC_DevPanic

Program ==
  CASE meta.fam = "exec" ->
         [fam |-> "exec", pol |-> [pol EXCEPT !.init = Unsat(@), !.maxb = Unsat(@)], outs |-> script]
    [] meta.fam = "env" -> [fam |-> "env", env |-> meta.env, outs |-> script]
    [] meta.fam = "cdn" -> [fam |-> "cdn", resp |-> [i \in 1..Len(script) |-> [code |-> script[i].code, ra |-> script[i].ra]]]

Emit == (phase = "ready" /\ st.n = 0) => PrintT(<<"PROGRAM", ToJson(Program)>>)

\* the generator's candidate waits are all accepted by the judge (ideal, or the listed deviation)
CandidatesJudged ==
  phase = "decide" /\ RetryDue(st, pol) =>
    \A d \in Candidates(pol, st.n - 1, st.k, HintOf(st.last)) :
      d < SAT => DelayOK(pol, st.n - 1, st.k, HintOf(st.last), d, Tol)
=============================================================================
