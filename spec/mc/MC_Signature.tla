---------------------------- MODULE MC_Signature ----------------------------
(***************************************************************************)
(* Bounded instance of Signature.tla.                                      *)
(*  (a) design level: the stated properties (Sound, Complete,              *)
(*      NeverUnsigned; the MIME-level clauses; injectivity of the endpoint *)
(*      names; the download machine's clauses) hold for the specification  *)
(*      (Fdev = {}) on the whole universe, and TLC refutes them for the    *)
(*      code-shaped variants (Fdev = {"FX07a"}, {"FX07b"}, ...) - the      *)
(*      counterexamples are printed as WITNESS programs and replayed on    *)
(*      the real code;                                                     *)
(*  (b) binding G: every element of the universe is printed as a PROGRAM   *)
(*      for harness/src/bin/drv_signature.rs.                              *)
(* One state = one program (families verify / mime / ids / req) or one     *)
(* operation sequence (family cdn).                                        *)
(***************************************************************************)
EXTENDS Signature, Json

CONSTANTS Family,     \* "verify" | "mime" | "ids" | "req" | "cdn"
          Wide,       \* thorough tier: larger universe
          Fdev,       \* deviations switched on (design level); {} = the specification
          D           \* cdn: length of the operation sequences

VARIABLE prog

\* --------------------------------------------------------------------------- certificates and signers
Cert(k, n, s, ski, alg, exp) == [key |-> k, name |-> n, serial |-> s, ski |-> ski, alg |-> alg, exp |-> exp]
CertList == << Cert(1, "A", 1, "a1b2c3d4", "rsa", FALSE),     \* 1 the signer's certificate
               Cert(2, "B", 2, "b2", "rsa", FALSE),            \* 2 somebody else's
               Cert(2, "A", 1, "a1b2c3d4", "rsa", FALSE),      \* 3 an impostor: same names, other key
               Cert(1, "A", 1, "a1b2c3d4", "ec", FALSE),       \* 4 same names, not an RSA key
               Cert(1, "A", 1, "a1b2c3d4", "rsa", TRUE),       \* 5 the signer's certificate, expired
               Cert(3, "C", 200, "", "rsa", FALSE) >>          \* 6 2048-bit key, no SKI extension, serial with the top bit set

SortedSeq(S) ==   \* a finite set of naturals as an ascending sequence
  LET RECURSIVE F(_)
      F(T) == IF T = {} THEN <<>> ELSE LET m == CHOOSE x \in T : \A y \in T : x <= y IN <<m>> \o F(T \ {m})
  IN F(S)
CertsOf(S) == LET q == SortedSeq(S) IN [i \in 1..Len(q) |-> CertList[q[i]]]
CertIdxSets == IF Wide THEN {S \in SUBSET (1..6) : Cardinality(S) <= 2}
               ELSE {{}, {1}, {2}, {3}, {4}, {5}, {1, 2}, {1, 3}, {1, 5}, {3, 4}}

Sid(t, n, s, k) == [sidt |-> t, sname |-> n, sserial |-> s, sski |-> k]
SidsQuick == {Sid("isn", "A", 1, ""), Sid("isn", "B", 2, ""), Sid("ski", "", 0, "a1b2c3d4"), Sid("ski", "", 0, "ffff")}
Sids == IF Wide THEN SidsQuick \cup {Sid("isn", "C", 200, ""), Sid("isn", "A", 2, ""), Sid("ski", "", 0, "b2")} ELSE SidsQuick

Mode(o, oc, a, md) == [over |-> o, oc |-> oc, attrs |-> a, md |-> md]
Modes == {Mode("content", 1, FALSE, 0),   \* made directly over content 1
          Mode("content", 2, FALSE, 0),   \*                         content 2
          Mode("attrs", 0, TRUE, 1),      \* made over signed attributes that name content 1 (the standard form)
          Mode("attrs", 0, TRUE, 2),
          Mode("content", 1, TRUE, 1),    \* attributes present but the value is over the content itself
          Mode("content", 1, TRUE, 2),    \* ... and the attributes name other content
          Mode("junk", 0, FALSE, 0)}      \* a number nobody signed
Signer(sid, dalg, by, m) ==
  [sidt |-> sid.sidt, sname |-> sid.sname, sserial |-> sid.sserial, sski |-> sid.sski, dalg |-> dalg, by |-> by,
   over |-> m.over, oc |-> m.oc, attrs |-> m.attrs, md |-> m.md]

Keys == IF Wide THEN 1..3 ELSE 1..2
Singles == {Signer(sid, dalg, by, m) : sid \in Sids, dalg \in {"sha256", "md5"}, by \in Keys, m \in Modes}
           \cup {Signer(Sid("isn", "A", 1, ""), dalg, 1, m) : dalg \in {"sha384", "sha512"}, m \in Modes}
Firsts  == {Signer(sid, "sha256", by, m) : sid \in {Sid("isn", "A", 1, ""), Sid("ski", "", 0, "a1b2c3d4")}, by \in 1..2,
                                          m \in {Mode("content", 1, FALSE, 0), Mode("attrs", 0, TRUE, 1)}}
Seconds == {Signer(Sid("isn", "B", 2, ""), "sha256", 2, Mode("content", 1, FALSE, 0)),    \* a second good signer
            Signer(Sid("isn", "B", 2, ""), "sha512", 2, Mode("content", 2, FALSE, 0)),    \* a second signer of other content
            Signer(Sid("isn", "A", 1, ""), "sha256", 1, Mode("junk", 0, FALSE, 0)),
            Signer(Sid("ski", "", 0, "ffff"), "sha256", 1, Mode("content", 1, FALSE, 0))} \* a signer nobody has a certificate for
SignerSeqs == {<<>>} \cup {<<s>> : s \in Singles} \cup {p \in Firsts \X Seconds : p[1] # p[2]}

Cms(cs, ss, ec, w) == [certs |-> cs, signers |-> ss, econtent |-> ec, wrap |-> w]
CmsU == {Cms(CertsOf(S), ss, ec, "signed") : S \in CertIdxSets, ss \in SignerSeqs, ec \in 0..2}
        \cup {Cms(CertsOf({1}), <<Signer(Sid("isn", "A", 1, ""), "sha256", 1, Mode("content", 1, FALSE, 0))>>, 0, "data")}

VerifyInit == prog \in {[kind |-> "verify", cms |-> c, data |-> d] : c \in CmsU, d \in 0..2}

\* --------------------------------------------------------------------------- MIME envelopes
GoodSigner  == Signer(Sid("isn", "A", 1, ""), "sha256", 1, Mode("content", 1, FALSE, 0))
OtherSigner == Signer(Sid("isn", "A", 1, ""), "sha256", 1, Mode("content", 2, FALSE, 0))
AttrSigner  == Signer(Sid("isn", "A", 1, ""), "sha256", 1, Mode("attrs", 0, TRUE, 1))
SkiSigner   == Signer(Sid("ski", "", 0, "a1b2c3d4"), "sha512", 1, Mode("content", 1, FALSE, 0))
NoCms == Cms(<<>>, <<>>, 0, "signed")
EnvCms == {Cms(CertsOf({1}), <<GoodSigner>>, 0, "signed"),      \* detached, over the data part
           Cms(CertsOf({1}), <<OtherSigner>>, 0, "signed"),     \* detached, over other bytes
           Cms(CertsOf({1}), <<OtherSigner>>, 2, "signed"),     \* attached: carries (and signs) other bytes
           Cms(CertsOf({1}), <<GoodSigner>>, 1, "signed"),      \* attached: carries the data part's bytes
           Cms(CertsOf({1}), <<AttrSigner>>, 0, "signed"),      \* detached with signed attributes
           Cms(CertsOf({3}), <<GoodSigner>>, 0, "signed"),      \* the embedded certificate has another key
           Cms(<<>>, <<SkiSigner>>, 0, "signed"),               \* no certificate embedded (what Blizzard sends)
           Cms(CertsOf({1}), <<SkiSigner>>, 0, "signed"),
           Cms(CertsOf({1}), <<>>, 0, "signed"),                \* nobody signed
           Cms(CertsOf({1}), <<GoodSigner>>, 0, "data")}        \* not a SignedData
Env(c, disp, sig, cms, enc, order, cks, mp) ==
  [c |-> c, disp |-> disp, sig |-> sig, cms |-> cms, enc |-> enc, order |-> order, cks |-> cks, mp |-> mp]
Disps == IF Wide THEN {"version", "cdns", "bgdl", "summary", "cert", "ocsp"} ELSE {"version", "cdns"}
CksKinds == {"none", "sha256", "sha256uc", "md5", "bad64", "bad32"}
EnvU == {Env(1, disp, "cms", cms, enc, order, cks, TRUE) :
            disp \in Disps, cms \in EnvCms, enc \in {"cte", "bin", "tline"}, order \in {"ds", "sd"}, cks \in CksKinds}
        \cup {Env(1, disp, sig, NoCms, enc, order, cks, TRUE) :
            disp \in Disps, sig \in {"none"} \cup JunkSigs, enc \in {"cte", "bin", "tline"}, order \in {"ds", "sd"}, cks \in CksKinds}
        \* a plain (not multipart) message; a 32-digit epilogue is left out here: whether it is a checksum at all is open
        \* (M2), and a parser that does not take it for one rightly sees it as part of the body
        \cup {Env(c, "version", "none", NoCms, "bin", "ds", cks, FALSE) : c \in 1..3, cks \in CksKinds \ {"md5", "bad32"}}
MimeInit == prog \in {[kind |-> "mime", env |-> e, sd |-> sd, legacy |-> (sd = "part")] : e \in EnvU, sd \in {"none", "part", "other"}}

\* --------------------------------------------------------------------------- identifiers of the certificate endpoints
IdAlphabet == {"a", "F", "0", "g", "/", " ", "\r", "\n"}
RECURSIVE Strings(_)
Strings(n) == IF n = 0 THEN {""} ELSE LET S == Strings(n - 1) IN S \cup {s \o ch : s \in {x \in S : Len(x) = n - 1}, ch \in IdAlphabet}
Ids == Strings(IF Wide THEN 3 ELSE 2) \cup {"a1b2c3d4", "0123456789abcdef0123456789abcdef01234567", "a1b2\r\nv1/summary", "a1b2\nv1/products/wow/versions", "../v1/summary"}
Vias == {"ski", "hash"}
PemAnswers == PemGood \cup PemBad \cup PemEither
IdsInit == prog \in {[kind |-> "pem", via |-> v, id |-> i, resp |-> [t |-> "pem", cert |-> CertList[1], cert2 |-> CertList[2]]] : v \in Vias, i \in Ids}
                    \cup {[kind |-> "pem", via |-> v, id |-> "a1b2c3d4", resp |-> [t |-> t, cert |-> CertList[c], cert2 |-> CertList[2]]] :
                              v \in Vias, t \in PemAnswers, c \in {1, 4, 6}}

\* C1 on the specification: injective, disjoint ranges, one line per hex identifier
EndpointNamesOK ==
  /\ \A a, b \in Ids : \A v, w \in Vias : CertCmd(v, a) = CertCmd(w, b) => a = b /\ v = w
  /\ \A a \in Ids : \A v \in Vias : IsHexId(a) => OneLine(CertCmd(v, a)) /\ StartsWith(CertCmd(v, a), "v1/") /\ TcpOnly(CertCmd(v, a))
\* ... and its refutation for the code-shaped construction (FX07d): not TCP-only names, several lines
AsIsEndpointNamesBroken ==
  /\ \E a \in Ids : IsHexId(a) /\ ~TcpOnly(AsIsCertCmd("ski", a))
  /\ \E a \in Ids : Lines(AsIsCertCmd("ski", a)) > 1

\* --------------------------------------------------------------------------- request formatting
GoodEndpoints == {"v1/products/wow/versions", "v1/products/wow_classic/cdns", "v1/products/wow/bgdl", "wow/versions", "/wow/cdns",
                  "v1/summary", "v1/certs/a1b2c3d4", "v1/ocsp/00ff", "v1/products/agent-beta.1/versions", "v1/products", "v1/productsx/y"}
BadEndpoints  == {"v1/products/wow/versions?x=1", "a b", "wow/versions#f", "wow\r\nv1/summary", "wow%2fversions", "v1/products/wow/versions\n",
                  "", "v1/products/wow/versions;x", "wow\\versions", "wow:1/versions", "@wow"}
TactCodes == {200, 204, 400, 403, 404, 410, 429, 500, 502, 503, 504}
ReqInit == prog \in {[kind |-> "req", client |-> "ribbit", ep |-> e, code |-> 200, body |-> "ok"] : e \in GoodEndpoints}
                    \cup {[kind |-> "req", client |-> "tact", ep |-> e, code |-> c, body |-> b] : e \in GoodEndpoints, c \in TactCodes, b \in {"ok", "junk"}}
                    \cup {[kind |-> "req", client |-> "unified", ep |-> e, code |-> 200, body |-> "ok"] : e \in GoodEndpoints \cup BadEndpoints}
ReqModelOK ==
  /\ \A e \in GoodEndpoints : ValidEndpoint(e) /\ StartsWith(TactPath(e), "/")
  /\ \A e \in BadEndpoints : ~ValidEndpoint(e)
  /\ \A e, f \in GoodEndpoints : TactPath(e) = TactPath(f) => (e = f \/ TactPath(e) \in {"/" \o e, e, "/" \o f, f})

\* --------------------------------------------------------------------------- download machine (ideal), A1 / A2 as invariants
K1 == "0123456789abcdef0123456789abcdef"
K2 == "0123456789abcdef0123456789abcdee"       \* same directory levels as K1
CdnOps == {[op |-> "idx", k |-> K1], [op |-> "dat", k |-> K1], [op |-> "idx", k |-> K2], [op |-> "reopen", k |-> ""]}
Scripts == {<<200>>, <<404, 200>>, <<503, 200>>, <<404>>}
VARIABLES script, cache, ops, stored, seen, last
cdnvars == <<script, cache, ops, stored, seen, last>>
CodeAt(i) == script[IF i <= Len(script) THEN i ELSE Len(script)]
SeenOf(p) == IF p \in DOMAIN seen THEN seen[p] ELSE 0
\* the ideal client: one request when not cached (retries are C14's: a retryable status is followed by the next answer)
RECURSIVE Fetch(_, _)
Fetch(p, n) == LET c == CodeAt(SeenOf(p) + n) IN
               IF c \in 200..299 \/ ~(c = 429 \/ c \in 500..599) \/ n >= 3 THEN <<n, c>> ELSE Fetch(p, n + 1)
CdnInit == /\ prog = [kind |-> "cdn"] /\ script \in Scripts /\ cache \in {"mem", "disk"} /\ ops = <<>> /\ stored = {} /\ seen = <<>>
           /\ last = [hit |-> FALSE, ok |-> TRUE, reqs |-> 0, path |-> ""]
CdnStep(o) ==
  /\ ops' = Append(ops, o)
  /\ UNCHANGED <<prog, script, cache>>
  /\ IF o.op = "reopen" THEN /\ stored' = IF cache = "mem" THEN {} ELSE stored
                             /\ UNCHANGED seen /\ last' = [hit |-> FALSE, ok |-> TRUE, reqs |-> 0, path |-> ""]
     ELSE LET p == CdnPath(o.op, "tpr/wow", o.k) IN
          IF <<o.op, o.k>> \in stored
          THEN /\ UNCHANGED <<stored, seen>> /\ last' = [hit |-> TRUE, ok |-> TRUE, reqs |-> 0, path |-> p]
          ELSE LET f == Fetch(p, 1)
                   ok == f[2] \in 200..299
               IN /\ stored' = IF ok THEN stored \cup {<<o.op, o.k>>} ELSE stored
                  /\ seen' = [q \in DOMAIN seen \cup {p} |-> IF q = p THEN SeenOf(p) + f[1] ELSE seen[q]]
                  /\ last' = [hit |-> FALSE, ok |-> ok, reqs |-> f[1], path |-> p]
CdnNext == \E o \in CdnOps : CdnStep(o)
CdnConstr == Len(ops) <= D
\* A1: the two URLs of one key differ and are injective in the key; A2: on the machine
UrlsDiffer == \A k \in {K1, K2} : /\ IndexPath("tpr/wow", k) # DataPath("tpr/wow", k)
                                  /\ \A j \in {K1, K2} : IndexPath("tpr/wow", k) = IndexPath("tpr/wow", j) => k = j
HitMeansNoRequest == last.hit => last.reqs = 0 /\ last.ok
OnlySuccessStored == \A x \in stored : \E i \in 1..SeenOf(CdnPath(x[1], "tpr/wow", x[2])) : CodeAt(i) \in 200..299
MissMeansRequest  == (~last.hit /\ last.path # "") => last.reqs >= 1
EmitCdn == Family = "cdn" /\ Len(ops) = D =>
             PrintT(<<"PROGRAM", ToJson([kind |-> "cdn", cache |-> cache, script |-> script, path |-> "tpr/wow", ops |-> ops])>>)

\* --------------------------------------------------------------------------- families
Init == CASE Family = "verify" -> VerifyInit /\ script = <<>> /\ cache = "" /\ ops = <<>> /\ stored = {} /\ seen = <<>> /\ last = [hit |-> FALSE]
          [] Family = "mime"   -> MimeInit /\ script = <<>> /\ cache = "" /\ ops = <<>> /\ stored = {} /\ seen = <<>> /\ last = [hit |-> FALSE]
          [] Family = "ids"    -> IdsInit /\ script = <<>> /\ cache = "" /\ ops = <<>> /\ stored = {} /\ seen = <<>> /\ last = [hit |-> FALSE]
          [] Family = "req"    -> ReqInit /\ script = <<>> /\ cache = "" /\ ops = <<>> /\ stored = {} /\ seen = <<>> /\ last = [hit |-> FALSE]
          [] Family = "cdn"    -> CdnInit
Next == IF Family = "cdn" THEN CdnNext ELSE UNCHANGED <<prog, script, cache, ops, stored, seen, last>>
Constr == IF Family = "cdn" THEN CdnConstr ELSE TRUE

Emit == Family # "cdn" => PrintT(<<"PROGRAM", ToJson(prog)>>)

\* --------------------------------------------------------------------------- design-level invariants
Witness(name) == PrintT(<<"WITNESS", ToJson([inv |-> name, F |-> Fdev, program |-> prog])>>)
SoundInv    == Family = "verify" => (Sound(prog.cms, prog.data, Fdev) \/ (Witness("Sound") /\ FALSE))
CompleteInv == Family = "verify" => (Complete(prog.cms, prog.data, Fdev) \/ (Witness("Complete") /\ FALSE))
UnsignedInv == Family = "verify" => NeverUnsigned(prog.cms, prog.data, Fdev)
\* the verifier's verdict set is never empty, and is a singleton wherever the signer -> certificate map is unambiguous
DeterminateInv == Family = "verify" => /\ Verdicts(prog.cms, prog.data, Fdev) # {}
                                       /\ (Unambiguous(prog.cms) /\ prog.data # 0 => Cardinality(Verdicts(prog.cms, prog.data, Fdev)) = 1)
MimeInv == Family = "mime" =>
  /\ MimeV1Allowed(prog.env, prog.sd, Fdev) # {}
  /\ NeverSignedWithoutPart(prog.env, prog.sd, Fdev)
  /\ WrongChecksumRejected(prog.env, prog.sd, Fdev)
  /\ (VerifiedMeansAuthentic(prog.env, prog.sd, Fdev) \/ (Witness("VerifiedMeansAuthentic") /\ FALSE))
\* M4: a valid detached signature over the data part is reported verified by default
DefaultVerifiesInv == Family = "mime" =>
  ((prog.sd = "none" /\ prog.env.mp /\ prog.env.sig = "cms" /\ prog.env.cms.econtent = 0 /\ Authentic(prog.env.cms, prog.env.c)
     /\ Unambiguous(prog.env.cms) /\ "err" \notin CksV1(prog.env, Fdev))
   => (\A r \in MimeV1Allowed(prog.env, prog.sd, Fdev) : r.class = "ok" /\ r.sig = "valid") \/ (Witness("DefaultVerifies") /\ FALSE))
IdsInv == Family = "ids" => EndpointNamesOK /\ AsIsEndpointNamesBroken
ReqInv == Family = "req" => ReqModelOK
CdnInv == Family = "cdn" => UrlsDiffer /\ HitMeansNoRequest /\ OnlySuccessStored /\ MissMeansRequest

\* --------------------------------------------------------------------------- refutation runs (Fdev # {})
\* The same clauses, restricted to the states in which the code-shaped variant's answer is determinate (no second
\* certificate that might be matched first) and no other deviation hides the one under study (no checksum, no binary
\* body): the counterexample TLC prints is then a program on which the real code must show exactly this deviation.
SoundW    == Family = "verify" /\ Verdicts(prog.cms, prog.data, Fdev) = {"valid"} /\ prog.data # 0
               => (Authentic(prog.cms, prog.data) \/ (Witness("Sound") /\ FALSE))
CompleteW == Family = "verify" /\ Cardinality(Verdicts(prog.cms, prog.data, Fdev)) = 1
               => (Complete(prog.cms, prog.data, Fdev) \/ (Witness("Complete") /\ FALSE))
Plain(e)  == e.cks = "none" /\ e.enc = "cte" /\ e.mp
AuthenticW == Family = "mime" /\ Plain(prog.env) /\ prog.sd = "part"
               => (VerifiedMeansAuthentic(prog.env, prog.sd, Fdev) \/ (Witness("VerifiedMeansAuthentic") /\ FALSE))
DefaultW  == Family = "mime" /\ Plain(prog.env) => DefaultVerifiesInv
=============================================================================
