----------------------------- MODULE MC_Bsdiff -----------------------------
(***************************************************************************)
(* Bounded exhaustive checking of Bsdiff.tla and generation of programs    *)
(* for drv_bsdiff (binding G).  Every *input* of the bounded space is an   *)
(* initial state; the patcher machine (PStep) is stepped to completion.    *)
(*                                                                         *)
(*  Family "pair": all (old, new) over two letters with |old|, |new| <=    *)
(*     MaxLen, each with every model builder configuration (SimpleB, and   *)
(*     ChunkedB for every maxBlock in MaxBlocks).  Checked: PInv on every  *)
(*     state; the machine's final result = Apply; and that result = new    *)
(*     (PairFinal - refuted when Defects = {"F16a"}, i.e. with the seek    *)
(*     field as the code writes it).  Each pair prints one PROGRAM.        *)
(*  Family "arb":  arbitrary (mostly malformed) small patches: all control *)
(*     blocks of <= ArbEntries triples over ArbX x ArbX x ArbZ, diff /     *)
(*     extra blocks from ArbDiffs / ArbExtras, sizes ArbSizes, old files   *)
(*     ArbOlds.  Checked: PInv; machine = Apply; Apply is total and        *)
(*     length-exact (a result has exactly new_size bytes or is Fail);      *)
(*     ApplyLen predicts success from lengths alone.  Each patch prints    *)
(*     one PROGRAM (the real patchers must fail or be length-exact on it). *)
(***************************************************************************)
EXTENDS Bsdiff, TLC, Json

CONSTANTS Family,
          MaxLen,        \* pair: longest old / new
          A0, A1,        \* the concrete bytes of the two letters (the model's own evaluation; programs carry letters)
          MaxBlocks, MinMatch, ExtraChunk,   \* chunked builder: max_diff_block_size values; 4 and 256 in the code
          Defects,       \* {} = the corrected design; {"F16a"} = build_chunked_patch as it is
          ArbOldLen, ArbX, ArbZPos, ArbZNeg, ArbEntries, ArbDiffBytes, ArbExtraBytes, ArbBlockLen, ArbSizes
VARIABLES m,             \* patcher machine state (or the marker "refused")
          inp,           \* input (never changes)
          fresh          \* TRUE in initial states only

Letters(n) == [1..n -> {0, 1}]
Strings    == UNION {Letters(n) : n \in 0..MaxLen}
Conc(s)    == [i \in 1..Len(s) |-> IF s[i] = 0 THEN A0 ELSE A1]
SeqsUpTo(S, n) == UNION {[1..k -> S] : k \in 0..n}
ArbOlds    == SeqsUpTo({A0, A1}, ArbOldLen)
ArbDiffs   == SeqsUpTo(ArbDiffBytes, ArbBlockLen)
ArbExtras  == SeqsUpTo(ArbExtraBytes, ArbBlockLen)

Configs == {[b |-> "simple", mb |-> 0]} \cup {[b |-> "chunked", mb |-> x] : x \in MaxBlocks}
Built(old, new, cfg) ==
  IF cfg.b = "simple" THEN SimpleB(new)
  ELSE ChunkedB(old, new, [maxBlock |-> cfg.mb, minMatch |-> MinMatch, extraChunk |-> ExtraChunk,
                           absSeek |-> "F16a" \in Defects])

ArbZ     == ArbZPos \cup {0 - v : v \in ArbZNeg}          \* (a cfg file cannot write negative numbers)
ArbCtrls == UNION {[1..k -> ArbX \X ArbX \X ArbZ] : k \in 0..ArbEntries}

Refused == [pc |-> "done", st |-> "refused", k |-> 1, out |-> <<>>, op |-> 0, dp |-> 0, ep |-> 0]

MCInit ==
  /\ fresh = TRUE
  /\ \/ /\ Family = "pair"
        /\ \E o \in Strings : \E n \in Strings : \E cfg \in Configs :
             LET P == Built(Conc(o), Conc(n), cfg) IN
             /\ inp = [o |-> o, n |-> n, cfg |-> cfg, old |-> Conc(o), new |-> Conc(n), P |-> P]
             /\ m = IF Refuses(P) THEN Refused ELSE PInit(P)
     \/ /\ Family = "arb"
        /\ \E old \in ArbOlds : \E c \in ArbCtrls : \E d \in ArbDiffs : \E e \in ArbExtras : \E s \in ArbSizes :
             LET P == Patch(c, d, e, s) IN
             /\ inp = [old |-> old, P |-> P]
             /\ m = PInit(P)

MCNext ==
  /\ m.pc # "done"
  /\ m' = PStep(m, inp.old, inp.P)
  /\ fresh' = FALSE
  /\ UNCHANGED inp

\* ---- what TLC checks --------------------------------------------------------
Live      == m.st # "refused"
MachInv   == Live => PInv(m, inp.P)
MachApply == (Live /\ m.pc = "done") => PResult(m) = Apply(inp.old, inp.P)
\* total and length-exact: whatever the patch, the result is Fail or exactly new_size bytes
LenExact  == fresh => LET r == Apply(inp.old, inp.P) IN
                        /\ r.ok \in BOOLEAN
                        /\ r.ok => Len(r.out) = inp.P.size
                        /\ r.ok <=> ApplyLen(inp.P.ctrl, Len(inp.P.diff), Len(inp.P.extra), inp.P.size)
\* the model builders' patches are correct (with Defects = {"F16a"} TLC refutes this)
PairFinal == (Family = "pair" /\ Live /\ m.pc = "done") => PResult(m) = Good(inp.new)
\* a builder refuses only the empty new file (the chunked builder: no control entry)
PairRefusal == (Family = "pair" /\ ~Live) => inp.n = <<>>
\* the shape attributed to F16a is what the defective builder writes, and is harmless exactly when no seek matters
ShapeLemma == (Family = "pair" /\ fresh /\ Live /\ inp.cfg.b = "chunked" /\ "F16a" \in Defects) =>
                \/ AbsSeekShape(inp.P.ctrl)
                \/ \A k \in 1..Len(inp.P.ctrl) : inp.P.ctrl[k][3] = 0

\* ---- unit checks of the 64-bit position arithmetic (evaluated once) -----------
M2s == <<2, 0, 0, 0, 0, 0, 0, 128>>                      \* -2 in sign-magnitude
M2c == <<254, 255, 255, 255, 255, 255, 255, 255>>        \* -2 in two's complement = -(2^63 - 2) in sign-magnitude
P2c == <<254, 255, 255, 255, 255, 255, 255, 127>>        \* +(2^63 - 2)
ASSUME /\ BigOf(0 - 1) = <<0 - 1, W - 1, W - 1>> /\ Near(BigOf(0 - 1)) = 0 - 1
       /\ Near(BigOf(0 - W)) = 0 - W /\ Near(BigOf(W - 1)) = W - 1 /\ Near(BigOf(W)) = 2 * W /\ Near(BigOf(0 - W - 1)) = 2 * W
       /\ BigAdd(BigOf(5), BigNeg(BigOf(7))) = BigOf(0 - 2)
       /\ BigAdd(BigOf(1073741824), BigOf(1073741824)) = <<0, 128, 0>>
       /\ Offtin64(M2s, 1) = BigOf(0 - 2) /\ Offtin(M2s, 1) = 0 - 2 /\ Small8(M2s, 1)
       /\ Offtin64(M2c, 1) = <<0 - 32768, 0, 2>> /\ Near(Offtin64(M2c, 1)) = 2 * W /\ ~Small8(M2c, 1)
       /\ BigAdd(Offtin64(M2c, 1), Offtin64(P2c, 1)) = BigOf(0)
       /\ Size8(M2c, 1) = 0 - 1 /\ Size8(P2c, 1) = 1073741824 /\ Size8(M2s, 1) = 0 - 2
\* a seek far away and back again is exact; without the way back every read is outside the old file
ASSUME LET far == <<0 - 70000, 5, 9>>
       IN /\ ApplyBig(<<5>>, Patch(<<<<0, 0, far>>, <<0, 0, BigNeg(far)>>, <<1, 0, BigOf(0)>>>>, <<1>>, <<>>, 1)) = Good(<<6>>)
          /\ ApplyBig(<<5>>, Patch(<<<<0, 0, far>>, <<1, 0, BigOf(0)>>>>, <<1>>, <<>>, 1)) = Good(<<1>>)
          /\ ApplyBig(<<5>>, Patch(<<<<0, 0, BigOf(0 - 1)>>, <<2, 0, BigOf(0)>>>>, <<1, 1>>, <<>>, 2)) = Good(<<1, 6>>)
          /\ ApplyBig(<<5>>, Patch(<<<<1073741824, 0, BigOf(0)>>>>, <<1>>, <<>>, 1)) = Fail
          /\ ApplyBig(<<5>>, CHOOSE P \in {Patch(CtrlBigOf(<<1, 0, 0, 0, 0, 0, 0, 0>> \o <<0, 0, 0, 0, 0, 0, 0, 0>> \o M2c), <<1>>, <<>>, 1)} : TRUE)
               = Good(<<6>>)

\* ---- program emission -------------------------------------------------------
Emit ==
  fresh =>
    IF Family = "pair"
    THEN inp.cfg.b # "simple" \/ PrintT(<<"PROGRAM", ToJson([kind |-> "ab", old |-> inp.o, new |-> inp.n])>>)
    ELSE PrintT(<<"PROGRAM", ToJson([kind |-> "arb", old |-> inp.old, ctrl |-> inp.P.ctrl, diff |-> inp.P.diff,
                                     extra |-> inp.P.extra, size |-> inp.P.size])>>)
=============================================================================
