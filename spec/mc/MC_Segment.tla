----------------------------- MODULE MC_Segment -----------------------------
(***************************************************************************)
(* Bounded exhaustive checking of Segment.tla and generation of programs   *)
(* for drv_segment (binding G).                                            *)
(*                                                                         *)
(* Family "alloc": the ideal allocator (AllocR / FreezeR / ThawR / LoadR / *)
(*   ReopenR) is explored over every operation sequence of length D on a   *)
(*   preset directory.  On every reachable state TLC checks that the       *)
(*   *judge* accepts what the ideal does (OkInv: AllocOK, ObsOK), the      *)
(*   design invariant Safe (ranges disjoint, inside their segment, behind  *)
(*   the header and behind what was loaded; segment count within the       *)
(*   limit) and the composition with C18's planner (PlannerSound: a merge  *)
(*   plan computed by Compaction!PlanImpl from the allocator's segment     *)
(*   list satisfies Compaction!PlanOK and lands behind every range the     *)
(*   allocator has handed out).  Every sequence of length D is printed as  *)
(*   a program.                                                            *)
(* Family "fn":  argument lists for the pure functions (every index        *)
(*   0..1099 for the file names, names around the accepted language, the   *)
(*   field limits of the codec, 512 + 72 + 17 keys for bucket_hash ...);   *)
(*   TLC checks the name round trip parse(name(i)) = i on the definitions. *)
(* Family "dyn": every sequence of D write / reopen operations for every   *)
(*   listed DynamicContainer configuration.                                *)
(***************************************************************************)
EXTENDS Segment, TLC, Json

CONSTANTS Family,    \* "alloc" | "fn" | "dyn"
          D,         \* program length (alloc, dyn)
          Max0,      \* max_segments of the first allocator object
          PreName,   \* which directory the program starts on (Presets)
          Load0,     \* load_existing() right after new()
          Sizes,     \* sizes allocate is called with
          WSizes,    \* ... those whose ranges the user may also write (small files only)
          Idx,       \* arguments of freeze / thaw
          ReMax,     \* max_segments of allocator objects created later
          Loads,     \* {TRUE}, or {TRUE, FALSE}: reopen without load_existing as well
          LoadOp     \* load_existing() on a live object is in the alphabet
VARIABLES s, hist, ok

C == INSTANCE Compaction

Presets == [empty    |-> <<>>,
            clean2   |-> <<<<0, 700>>, <<1, 480>>>>,
            gap      |-> <<<<0, 700>>, <<2, 480>>>>,
            gap0     |-> <<<<1, 600>>>>,
            short    |-> <<<<0, 100>>>>,
            short0   |-> <<<<0, 0>>, <<1, 479>>>>,
            full     |-> <<<<0, 1073741724>>>>,
            over     |-> <<<<0, 1073741825>>>>,
            last     |-> <<<<1022, 480>>>>,
            all      |-> [i \in 1..1023 |-> <<i - 1, 480>>],       \* every index taken
            foreign  |-> <<<<0, 700>>, <<1, 480>>, <<1023, 480>>>>]  \* plus names load_existing must ignore (Foreign)
\* "data.abc", "data.00", "index.000", "data.000.tmp", "data.00001", "Data.002"
Foreign == IF PreName = "foreign" THEN <<"data.abc", "data.00", "index.000", "data.000.tmp", "data.00001", "Data.002">> ELSE <<>>
Pre == Presets[PreName]
FilesOfPre(l) == [i \in {l[k][1] : k \in DOMAIN l} |-> l[CHOOSE k \in DOMAIN l : l[k][1] = i][2]]

\* what the getters of a conforming implementation would show (gap indices: anything, here Frozen)
ShowOf(st) ==
  [count |-> Len(st.segs), beyond |-> FALSE,
   segs |-> [i \in 1..Len(st.segs) |-> [ix |-> i - 1, st |-> IF st.segs[i].st = "A" THEN "F" ELSE st.segs[i].st,
                                           wp |-> SMin(Pos(st.segs[i]), Big)]]]

\* ---- family "alloc" ------------------------------------------------------------
Start == LET s0 == S0(Max0, FilesOfPre(Pre)) IN IF Load0 THEN LoadR(s0).st ELSE s0

DoAlloc(z, w) ==
  LET r == AllocR(s, z)
      small == z \in WSizes /\ r.res.kind = "ok" /\ r.res.off <= 100000
  IN /\ w = 1 => small
     /\ s' = IF w = 1 THEN WroteR(r.st, r.res.seg, r.res.off + z) ELSE r.st
     /\ ok' = (AllocOK(s, z, r.res, r.st.flen) /\ AllocNext(s, z, r.res, r.st.flen) = r.st /\ ObsOK(r.st, ShowOf(r.st)))
     /\ hist' = Append(hist, [op |-> "alloc", size |-> z, w |-> w])

DoFreeze(i) == LET r == FreezeR(s, i) IN
  s' = r.st /\ ok' = ObsOK(r.st, ShowOf(r.st)) /\ hist' = Append(hist, [op |-> "freeze", i |-> i])
DoThaw(i) == LET r == ThawR(s, i) IN
  s' = r.st /\ ok' = ObsOK(r.st, ShowOf(r.st)) /\ hist' = Append(hist, [op |-> "thaw", i |-> i])
DoLoad == LET r == LoadR(s) IN
  s' = r.st /\ ok' = ObsOK(r.st, ShowOf(r.st)) /\ hist' = Append(hist, [op |-> "load"])
DoReopen(m, ld) ==
  LET r0 == ReopenR(s, m).st
      r  == IF ld THEN LoadR(r0).st ELSE r0
  IN s' = r /\ ok' = ObsOK(r, ShowOf(r)) /\ hist' = Append(hist, [op |-> "reopen", max |-> m, load |-> ld])

AllocNextAct ==
  \/ \E z \in Sizes, w \in {0, 1} : DoAlloc(z, w)
  \/ \E i \in Idx : DoFreeze(i) \/ DoThaw(i)
  \/ LoadOp /\ DoLoad
  \/ \E m \in ReMax, ld \in Loads : DoReopen(m, ld)

\* ---- family "fn" -----------------------------------------------------------------
Codes(i) == NameOf(i)
NameVariants(i) ==
  LET d == DigitsOf(i)
      z(n) == [k \in 1..n |-> 48]
      padTo(n) == IF Len(d) >= n THEN d ELSE z(n - Len(d)) \o d
  IN <<NameOf(i), Prefix \o padTo(4), Prefix \o d, Prefix \o padTo(5), Prefix \o padTo(2),
       <<68>> \o SubSeq(NameOf(i), 2, Len(NameOf(i))),           \* "Data.NNN"
       NameOf(i) \o <<120>>,                                      \* "data.NNNx"
       Prefix \o <<43>> \o padTo(2),                              \* "data.+NN"
       Prefix \o <<32>> \o padTo(2),                              \* "data. NN"
       <<100, 97, 116, 97, 95>> \o padTo(3),                      \* "data_NNN"
       SubSeq(NameOf(i), 1, 4) \o padTo(3),                       \* "dataNNN"
       Prefix \o padTo(3) \o <<46, 116, 109, 112>>,               \* "data.NNN.tmp"
       Prefix \o SubSeq(padTo(3), 1, 2) \o <<1633>>               \* an Arabic-Indic digit
      >>
ParseIdx == {0, 1, 9, 10, 99, 100, 999, 1000, 1022, 1023, 1024, 2000, 9999}
SetToSeq(S) == LET RECURSIVE f(_)
                   f(T) == IF T = {} THEN <<>> ELSE LET m == MinOfSet(T) IN <<m>> \o f(T \ {m})
               IN f(S)
RECURSIVE Flat(_)
Flat(qq) == IF qq = <<>> THEN <<>> ELSE Head(qq) \o Flat(Tail(qq))

PathOps(c) == [k \in 1..100 |-> [op |-> "path", i |-> (c - 1) * 100 + k - 1]]          \* c in 1..11
ParseOps == Flat([k \in 1..Cardinality(ParseIdx) |->
                    LET v == NameVariants(SetToSeq(ParseIdx)[k]) IN [j \in 1..Len(v) |-> [op |-> "parse", name |-> v[j]]]])
CodecOps == Flat([a \in 1..6 |-> [b \in 1..7 |->
                    [op |-> "codec", id |-> <<0, 1, 1022, 1023, 1024, 65535>>[a],
                     off |-> <<0, 1, 480, 1073741823, 1073741824, 1073741825, Big>>[b]]]])
HeaderOps == Flat([a \in 1..6 |-> [b \in 1..3 |->
                    [op |-> "header", i |-> <<0, 1, 255, 256, 1022, 1023>>[a], ph |-> <<0, 171, 255>>[b]]]])
BucketOps(c) ==      \* c in 1..4
  CASE c = 1 -> [k \in 1..256 |-> [op |-> "bucket", key |-> [j \in 1..9 |-> k - 1], seed |-> 0]]
    [] c = 2 -> [k \in 1..256 |-> [op |-> "bucket", key |-> [j \in 1..9 |-> IF j = 1 + (k % 9) THEN k - 1 ELSE 0], seed |-> 1]]
    [] c = 3 -> [k \in 1..72 |-> [op |-> "bucket", key |-> [j \in 1..9 |-> IF j = 1 + ((k - 1) \div 8) THEN 2 ^ ((k - 1) % 8) ELSE 0],
                                  seed |-> 1]]
    [] OTHER -> Flat([n \in 1..18 |-> [sd \in 1..4 |->
                    [op |-> "bucket", key |-> IF n = 1 THEN <<>> ELSE [j \in 1..(n - 1) |-> (37 * j + 11 * n) % 256], seed |-> <<0, 1, 15, 255>>[sd]]]])
SpaceOps == Flat(Flat([a \in 1..2 |-> [b \in 1..7 |-> [c \in 1..8 |->
                    [op |-> "space", st |-> <<"T", "F">>[a],
                     wp |-> <<0, 480, 481, 536870912, 1073741823, 1073741824, 1073741825>>[b],
                     size |-> <<0, 1, 479, Cap - 1, Cap, Cap + 1, SegSize, 536870912>>[c]]]]]))
       \o <<[op |-> "space", st |-> "T", wp |-> 480, size |-> Big, big |-> "u64max"],
            [op |-> "space", st |-> "F", wp |-> 480, size |-> Big, big |-> "u64max"],
            [op |-> "space", st |-> "T", wp |-> 0, size |-> Big, big |-> "u64max"],
            [op |-> "space", st |-> "T", wp |-> 480, size |-> Big, big |-> "2^63"]>>
FnChunks == 19
FnOps(c) ==
  CASE c \in 1..11 -> PathOps(c)
    [] c = 12 -> ParseOps
    [] c = 13 -> CodecOps
    [] c = 14 -> HeaderOps
    [] c \in 15..18 -> BucketOps(c - 14)
    [] OTHER -> SpaceOps

NameLemma == /\ \A i \in 0..(MaxSegs - 1) : ParseName(NameOf(i)) = i
             /\ \A i \in MaxSegs..1100 : ParseName(NameOf(i)) = -1
             /\ \A i \in 0..99 : ParseName(Prefix \o DigitsOf(i)) = -1             \* fewer than 3 digits
             /\ \A i \in 0..999 : ParseName(Prefix \o <<48>> \o SubSeq(NameOf(i), 6, 8)) = i   \* 4 digits with a leading zero

\* ---- family "dyn" ----------------------------------------------------------------
DynConfigs == {<<l, m, p>> : l \in {0, 1, 2}, m \in {600, 4096}, p \in {"empty", "clean2"}}
DynOps == {[op |-> "write", len |-> 10], [op |-> "write", len |-> 700], [op |-> "reopen"]}

\* ---- the state machine --------------------------------------------------------------
MCInit ==
  IF Family = "alloc" THEN s = Start /\ hist = <<>> /\ ok = (Safe(Start) /\ ObsOK(Start, ShowOf(Start)))
  ELSE IF Family = "fn" THEN s \in 1..FnChunks /\ hist = FnOps(s) /\ ok = NameLemma
  ELSE s \in DynConfigs /\ hist \in [1..D -> DynOps] /\ ok = TRUE
MCNext == Family = "alloc" /\ AllocNextAct

Constr == Family = "alloc" => Len(hist) <= D

OkInv   == ok
SafeInv == Family = "alloc" => Safe(s)

\* composition with C18: the planner reads SegmentInfo.write_position as the bytes a segment uses
Unit  == 1048576
SizeU == 1024
CeilU(x) == (x + Unit - 1) \div Unit
PView(st) == [i \in 1..Len(st.segs) |-> <<IF st.segs[i].st = "F" THEN "F" ELSE "T", CeilU(SMin(Pos(st.segs[i]), SegSize))>>]
PlannerSound ==
  (Family = "alloc" /\ Len(s.segs) <= 8) =>      \* (the 1023-segment preset adds nothing here and costs 30 s)
    \A th \in {<<1, 2>>, <<1, 1>>} :
      LET v    == PView(s)
          plan == C!PlanImpl(v, th[1], th[2], SizeU, TRUE, TRUE)
      IN /\ C!PlanOK(plan, v, SizeU)
         /\ \A k \in 1..Len(plan) : plan[k][5] > 0 =>
               \A a \in s.segs[plan[k][3] + 1].al : a[2] <= plan[k][4] * Unit

Emit ==
  CASE Family = "alloc" ->
         Len(hist) = D => PrintT(<<"PROGRAM", ToJson([kind |-> "alloc", max |-> Max0, pre |-> Pre, foreign |-> Foreign, load |-> Load0, ops |-> hist])>>)
    [] Family = "fn" -> PrintT(<<"PROGRAM", ToJson([kind |-> "fn", ops |-> hist])>>)
    [] OTHER -> PrintT(<<"PROGRAM", ToJson([kind |-> "dyn", limit |-> s[1], maxsize |-> s[2], pre |-> Presets[s[3]], ops |-> hist])>>)
=============================================================================
