--------------------------- MODULE MC_CacheConc ---------------------------
(* Bounded instances of CacheConc: all interleavings / all schedules with <= MaxPre pre-emptions,
   for structured program families; emits one PROGRAM line per complete schedule. *)
EXTENDS CacheConc, Json

CONSTANTS OpsPerTask,   \* exact number of operations per task
          InitKinds,    \* subset of {"none","live","exp"}: initial state of each key
          OpNames,      \* subset of {"get","contains","put","put_exp","remove","clear","sweep","size"}
          SweepTasks    \* the tasks that play the background cleanup task: they only sweep, nobody else does
VARIABLE init           \* key -> initial kind (constant along a behaviour)

Keyless == {"clear", "sweep", "size"}
Ops == {[op |-> o, k |-> k] : o \in OpNames \ Keyless, k \in Keys} \cup
       {[op |-> o, k |-> 0] : o \in OpNames \cap Keyless}

InitEntry(k, kind) == IF kind = "none" THEN None ELSE [id |-> k, size |-> SizeOf(k), exp |-> kind = "exp"]

MCInit ==
  /\ init \in [Keys -> InitKinds]
  /\ prog \in [Tasks -> [1..OpsPerTask -> Ops]]
  /\ \A t \in Tasks, i \in 1..OpsPerTask : (prog[t][i].op = "sweep") <=> (t \in SweepTasks)
  /\ ip = [t \in Tasks |-> 1] /\ pc = [t \in Tasks |-> "start"] /\ loc = [t \in Tasks |-> None]
  /\ map = [k \in Keys |-> InitEntry(k, init[k])]
  /\ cnt = Cardinality({k \in Keys : init[k] # "none"})
  /\ mem = SumSizes([k \in Keys |-> InitEntry(k, init[k])], {k \in Keys : init[k] # "none"})
  /\ last = 0 /\ pre = 0 /\ sched = <<>>
MCNext == Next /\ UNCHANGED init

\* programs are generated once per unordered assignment: task 1's program is <= task 2's in a fixed order
\* (not needed for soundness; halves the work) -- kept simple: no reduction.

Expect == [gets |-> [k \in Keys |-> IF map[k] = None \/ map[k].exp THEN 0 ELSE map[k].id],
           cnt |-> Cardinality({k \in Keys : map[k] # None /\ ~map[k].exp}),
           mem |-> SumSizes(map, {k \in Keys : map[k] # None /\ ~map[k].exp})]

Emit == AllDone => PrintT(<<"PROGRAM", ToJson([init |-> init, progs |-> prog, sched |-> sched,
                                               model |-> [map |-> [k \in Keys |-> IF map[k] = None THEN 0 ELSE map[k].id], cnt |-> cnt, mem |-> mem]])>>)
=============================================================================
