---------------------------- MODULE MC_Resolve ----------------------------
(***************************************************************************)
(* Bounded checking of Resolve.tla and generation of conformance programs  *)
(* (binding G).                                                            *)
(*                                                                         *)
(* Mode "design" (INIT DInit, NEXT DNext): the map model and the paged     *)
(*   structure of Resolve.tla Part 2 on small constants - every map over   *)
(*   SmallKeys x SmallVals, every configuration in SmallCfgs (fixed and    *)
(*   variable record sizes, page index by first and by last key, page      *)
(*   capacities 1..3 with and without slack bytes), Insert* ; Build ;      *)
(*   Lookup*.  Invariants: BuildTotal, Stored, ResOK, AllKeys.  With       *)
(*   Defects = {"F03b"} / {"F03c"} TLC must refute BuildTotal / Stored     *)
(*   (that is how the witnesses of the findings are regenerated).          *)
(*                                                                         *)
(* Mode "merge" (INIT MInit, NEXT GNext): the k-way merge with            *)
(*   de-duplication of Resolve.tla (archive group from several archive     *)
(*   indices) for every triple of sources over 4 keys: sorted, complete,   *)
(*   first source wins (MergeInv).                                         *)
(*                                                                         *)
(* Mode "gen" (INIT GInit, NEXT GNext): one initial state per program      *)
(*   <<kind, configuration, population size, key layout, probe list>> for  *)
(*   the REAL formats.  Population sizes are the boundary populations of   *)
(*   the page / chunk / offset-width arithmetic of Resolve.tla Part 1      *)
(*   evaluated on each configuration, probes are the keys next to every    *)
(*   page boundary plus their absent neighbours.  Emit prints every        *)
(*   program once.                                                         *)
(***************************************************************************)
EXTENDS Resolve, Integers, Json, SequencesExt

CONSTANTS Tier,     \* "quick" | "thorough"
          Kinds     \* subset of {"aidx", "agroup", "enc", "root", "chain", "tvfs"}
VARIABLE prog

\* ------------------------------------------------------------------------
\* design mode
\* ------------------------------------------------------------------------
SmallKeys == 0..5
SmallVals == {0, 1}
Uniform(R) == [k \in SmallKeys |-> R]
SmallCfgs ==
  { [B |-> bp[1], R |-> bp[2], fixed |-> TRUE, idx |-> i, w |-> Uniform(bp[2]), zero |-> 0, zeroval |-> 0] :
      bp \in {<<4, 4>>, <<8, 4>>, <<10, 4>>, <<9, 3>>, <<11, 3>>}, i \in {"first", "last"} }
  \cup
  { [B |-> b, R |-> 0, fixed |-> FALSE, idx |-> "first", w |-> [k \in SmallKeys |-> 2 + (k % 3)], zero |-> 0, zeroval |-> 0] :
      b \in {4, 6, 7} }

DInit == /\ model = <<>> /\ built = NoStruct /\ res = <<>> /\ prog = <<>>
         /\ cfg \in SmallCfgs
DNext == /\ UNCHANGED prog
         /\ \/ \E k \in SmallKeys, v \in SmallVals : Insert(k, v)
            \/ Build
            \/ \E k \in SmallKeys, k2 \in {0, 3, 5} : Lookup(k, k2)
AllKeys == AllKeysOK(SmallKeys \cup {6})

\* ------------------------------------------------------------------------
\* merge mode (INIT MInit, NEXT GNext): every triple of sources over 4 keys - each source a subset of the
\* keys, source j stores key k with value 10 j + k - merged by Resolve!MergeR; invariant MergeInv
\* ------------------------------------------------------------------------
MergeKeys == 1..4
SourceOf(j, S) == LET ks == SortedSeqOf(S) IN [i \in 1..Len(ks) |-> <<ks[i], 10 * j + ks[i]>>]
MInit == /\ model = <<>> /\ built = NoStruct /\ res = <<>> /\ prog = <<>>
         /\ cfg \in [1..3 -> SUBSET MergeKeys]
MergeInv == MergeOK([j \in 1..3 |-> SourceOf(j, cfg[j])])

\* ------------------------------------------------------------------------
\* gen mode
\* ------------------------------------------------------------------------
Quick == Tier = "quick"
Lays  == {"spread", "prefix", "ends"}
\* value profile and insertion order are tied to the layout (thorough: both profiles)
VpOrd(lay) ==
  LET base == CASE lay = "spread" -> <<"hi", "rot">> [] lay = "prefix" -> <<"lo", "asc">> [] OTHER -> <<"lo", "desc">>
      alt  == CASE lay = "spread" -> <<"lo", "desc">> [] lay = "prefix" -> <<"hi", "rot">> [] OTHER -> <<"hi", "asc">>
      alt2 == CASE lay = "spread" -> <<"hi", "asc">> [] lay = "prefix" -> <<"lo", "desc">> [] OTHER -> <<"lo", "rot">>
  IN IF Quick THEN {base} ELSE {base, alt, alt2}

\* ranks (0-based positions in sorted order) next to the ends and to every page boundary
EdgeRanks(P, n, extra) ==
  {r \in ({0, 1, n - 2, n - 1, n \div 2} \cup extra \cup UNION {{k * P - 2, k * P - 1, k * P, k * P + 1} : k \in 1..3}) :
     r >= 0 /\ r < n}
DenseRanks(n) == IF Quick THEN {} ELSE {r \in 0..(n - 1) : r % Max2(1, n \div 40) = 0}
\* every probed rank with both neighbours; "ends" has no key above all-FF
ProbeSet(P, n, lay, extra) ==
  IF n = 0 THEN (IF lay = "ends" THEN {} ELSE {1})
  ELSE {a \in UNION {{2 * r - 1, 2 * r, 2 * r + 1} : r \in EdgeRanks(P, n, extra) \cup DenseRanks(n)} :
          a >= 0 /\ a <= 2 * n - 1 /\ ~(lay = "ends" /\ a = 2 * n - 1)}
\* not sorted, so that batch lookups have to sort
ProbeSeq(P, n, lay, extra) ==
  SetToSortSeq(ProbeSet(P, n, lay, extra), LAMBDA x, y : (x % 3 < y % 3) \/ (x % 3 = y % 3 /\ x < y))

\* -- CDN archive index --------------------------------------------------------
KeySizes == IF Quick THEN {1, 2, 9, 16} ELSE 1..16
AidxPops(ks, ow) == {x \in Boundary(AidxP(ks, ow)) : x <= MaxPop(ks)} \cup (IF ks = 1 THEN {MaxPop(1)} ELSE {})
AidxProg(ks, ow, n, lay, vo, ser) ==
  [kind |-> "aidx", ks |-> ks, ow |-> ow, n |-> n, lay |-> lay, vp |-> vo[1], ord |-> vo[2], ser |-> ser,
   probes |-> ProbeSeq(AidxP(ks, ow), n, lay, {})]
AidxProgs ==
  UNION { UNION { {AidxProg(ks, ow, n, lay, vo, "builder") : n \in AidxPops(ks, ow), vo \in VpOrd(lay)}
                  \cup {AidxProg(ks, ow, n, lay, <<"lo", "asc">>, ser) :
                          n \in {x \in {2, AidxP(ks, ow), AidxP(ks, ow) + 1} : x <= MaxPop(ks) /\ lay = "prefix"},
                          ser \in {"build", "write_to"}} :
                  lay \in Lays } :
          ks \in KeySizes, ow \in {4, 5, 6} }
  \cup \* offsets one past the field maximum
  {AidxProg(16, ow, 2, "prefix", <<"over", "asc">>, "builder") : ow \in {4, 5, 6}}

\* -- archive group ------------------------------------------------------------------
AGroupPops == Boundary(AGroupP) \cup {3 * AGroupP, 3 * AGroupP + 1, FirstChunkDrift(AGroupRec, ChunkBytes)}
\* <<sources, build path, dup>>: dup = d > 0 hands every d-th key in twice (second copy loses)
AGroupPaths == {<<7, "builder", 0>>, <<1, "merged", 0>>, <<3, "merged", 0>>,
                <<3, "merged", 2>>, <<2, "merged", 1>>, <<7, "builder", 3>>}
AGroupProgs ==
  { [kind |-> "agroup", n |-> n, srcs |-> sp[1], path |-> sp[2], dup |-> sp[3], lay |-> lay,
     vp |-> (CHOOSE vo \in VpOrd(lay) : TRUE)[1], ord |-> (CHOOSE vo \in VpOrd(lay) : TRUE)[2],
     probes |-> ProbeSeq(AGroupP, n, lay, {})] :
      n \in AGroupPops, sp \in AGroupPaths, lay \in Lays }

\* -- encoding table -------------------------------------------------------------------
KBs == IF Quick THEN {1, 4} ELSE {1, 2, 4}
EncProg(kbc, kbe, nek, n, m, lay, vo, ser) ==
  [kind |-> "enc", kbc |-> kbc, kbe |-> kbe, nek |-> nek, n |-> n, m |-> m, lay |-> lay, vp |-> vo[1], ord |-> vo[2],
   ser |-> ser, probes |-> ProbeSeq(CKeyP(kbc, nek), n, lay, {}), eprobes |-> ProbeSeq(EKeyP(kbe), m, lay, {})]
EncSers(lay) == IF lay = "prefix" THEN {"raw", "blte"} ELSE {"raw"}
EncProgs ==
  UNION { UNION { {EncProg(kb, 1, nek, n, 3, lay, vo, ser) :
                     n \in Boundary(CKeyP(kb, nek)), vo \in VpOrd(lay), ser \in EncSers(lay)} : nek \in {1, 2, 3} }
                \cup {EncProg(1, kb, 1, 3, m, lay, vo, ser) :
                     m \in Boundary(EKeyP(kb)), vo \in VpOrd(lay), ser \in EncSers(lay)} :
          kb \in KBs, lay \in Lays }
  \cup \* the largest content-key record that fits a page, and the first that does not
  UNION { {EncProg(kb, 1, nek, 3, 3, "prefix", <<"lo", "asc">>, "raw") : nek \in {MaxNek(kb), MaxNek(kb) + 1}} : kb \in {1, 4} }

\* -- root manifest ---------------------------------------------------------------------
\* <<fdid layout, blocks, path style, insertion order, nnh>>; nnh = how files WITHOUT a name are stored: "flag" = in
\* blocks that carry NO_NAME_HASH (no name-hash array), "plain" = in ordinary blocks (the array stays, hash 0) - with
\* named = 0 that is a manifest whose header counts no named file although every block has a name-hash array
RootShapes == { <<"dense", 1, "norm", "asc", "flag">>, <<"gap", 2, "raw", "rot", "flag">>, <<"ends", 2, "norm", "desc", "flag">>,
                <<"gap", 3, "raw", "desc", "flag">>,      \* 3 blocks: the third has locale mask 0
                <<"gap", 2, "norm", "rot", "plain">>, <<"dense", 3, "raw", "asc", "plain">> }
NamedCounts(n) == {x \in {0, 1, 4, 5, 9, 10, n} : x <= n}
RootProgs ==
  UNION { {[kind |-> "root", ver |-> ver, n |-> n, named |-> nm, lay |-> sh[1], blocks |-> sh[2], style |-> sh[3],
            ord |-> sh[4], nnh |-> sh[5], probes |-> ProbeSeq(8, n, sh[1], {nm - 1, nm})] : nm \in NamedCounts(n)} :
          ver \in 1..4, n \in RootCounts \cup (IF Quick THEN {} ELSE {2, 17, 50, 98, 255, 256, 1000}), sh \in RootShapes }

ChainProgs ==
  { [kind |-> "chain", ver |-> ver, n |-> n, named |-> n, lay |-> "gap", blocks |-> sb[2], style |-> sb[1], ord |-> "rot",
     vp |-> "lo", kbc |-> 1, kbe |-> 1, probes |-> ProbeSeq(26, n, "gap", {})] :
      ver \in 1..4, n \in {1, 16, 100}, sb \in {<<"norm", 1>>, <<"raw", 1>>, <<"raw", 3>>} }

\* -- TVFS manifest -----------------------------------------------------------------------
TFlags  == IF Quick THEN {0, 1, 5} ELSE 0..7
TShapes == {"flat", "deep", "wide", "pfx", "sep"}
TvfsProg(flags, shape, n, namelen, nest, estlen, ord) ==
  [kind |-> "tvfs", flags |-> flags, shape |-> shape, n |-> n, namelen |-> namelen, nest |-> nest, estlen |-> estlen,
   ord |-> ord, probes |-> ProbeSeq(12, n, "flat", {})]
\* populations at which the table of `entry`-byte records crosses an offset-width limit
WidthEdge(entry, limit) == {FitCount(entry, limit), FitCount(entry, limit) + 1}
TvfsProgs ==
  \* tree shapes, populations around the first offset-width limit of the container table
  UNION { {TvfsProg(f, sh, n, 0, 0, 0, "asc") : n \in {0, 1, 2, 7} \cup WidthEdge(CftEntry(f, 1, 1), 255)} :
          f \in TFlags, sh \in TShapes }
  \cup \* path components around the longest name fragment
  {TvfsProg(1, sh, 3, len, 0, 0, "desc") : sh \in {"flat", "deep"},
                                           len \in {MaxNameFragment - 1, MaxNameFragment, MaxNameFragment + 1, MaxNameFragment + 2}}
  \cup \* encoding-spec table around its first offset-width limit (nest strings of estlen bytes + terminator)
  {TvfsProg(f, "wide", n, 0, ne[1], ne[2], "rot") : f \in {3, 7}, n \in {5, 13}, ne \in {<<3, 10>>, <<15, 16>>, <<16, 15>>}}
  \cup \* container table around the 64 KiB offset-width limit, for every entry size the limit can be met with
  UNION { {TvfsProg(f, "flat", n, 0, 0, 0, "asc") :
             n \in WidthEdge(CftEntry(f, 1, 1), 65535) \cup WidthEdge(CftEntry(f, 1, 2), 65535) \cup WidthEdge(CftEntry(f, 1, 3), 65535)} :
          f \in {1, 5} }

GInit == /\ model = <<>> /\ built = NoStruct /\ res = <<>> /\ cfg = <<>>
         /\ \/ "aidx" \in Kinds /\ prog \in AidxProgs
            \/ "agroup" \in Kinds /\ prog \in AGroupProgs
            \/ "enc" \in Kinds /\ prog \in EncProgs
            \/ "root" \in Kinds /\ prog \in RootProgs
            \/ "chain" \in Kinds /\ prog \in ChainProgs
            \/ "tvfs" \in Kinds /\ prog \in TvfsProgs
GNext == UNCHANGED <<model, built, res, cfg, prog>>

Emit == prog # <<>> => PrintT(<<"PROGRAM", ToJson(prog)>>)
=============================================================================
