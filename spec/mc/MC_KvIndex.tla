---------------------------- MODULE MC_KvIndex ----------------------------
(***************************************************************************)
(* Bounded exhaustive checking of KvIndex.tla and program generation       *)
(* (binding G).  The code-shaped model (operators Ixxx) is stepped through every       *)
(* operation sequence of length D over the alphabet `Alpha`; every step is *)
(* judged by the property-level PStep (invariant Refines), and every       *)
(* complete sequence is printed as a program for the real IndexManager.    *)
(*                                                                         *)
(* UpdCap is small here (3); the operation `fill` (add_entry of the filler *)
(* key until exactly `left` slots of the update section remain) is what    *)
(* lets the same program reach the real boundary of 1260 entries.          *)
(*                                                                         *)
(* CodeDevs = the defects of the code that the code-shaped model has:      *)
(*   {}        ideal design (remove_entry flushes and retries, a reload    *)
(*             keeps the all-zero key): Refines holds with no deviation.   *)
(*   {"F05a"}, {"F05b"}: as the code is.  TLC refutes Refines (this is the *)
(*             finding's witness) unless the id is in KnownDeviations.     *)
(***************************************************************************)
EXTENDS KvIndex, Json

CONSTANTS D,        \* number of enumerated operations (after the fixed prefix)
          Alpha,    \* "full" | "lean" | "two" | "zero": which alphabet
          PreName,  \* "none" | "sorted" | "boundary": fixed prefix that every program starts with
          CodeDevs  \* subset of {"F05a", "F05b"}
VARIABLES c, p, hist, good, devs

KB == CASE Alpha = "two"  -> ("a" :> 7 @@ "o" :> 12 @@ "f" :> 7)
       [] Alpha = "zero" -> ("z" :> 0 @@ "b" :> 0)
       [] OTHER          -> ("a" :> 7 @@ "b" :> 7 @@ "f" :> 7)

\* locations at the field limits (archive id 1023, offset 2^30-1, size 2^32-1) and an ordinary one
LocTab == [L0 |-> "1023/1073741823/4294967295", L1 |-> "5/4096/100"]

Add(k, l)    == [op |-> "add", k |-> k, alt |-> 0, loc |-> l]
Upd(k, l)    == [op |-> "update", k |-> k, alt |-> 1, loc |-> l]
Sta(k, s)    == [op |-> "status", k |-> k, alt |-> 1, st |-> s]
Rem(k)       == [op |-> "remove", k |-> k, alt |-> 1]
Fill(r)      == [op |-> "fill", k |-> "f", alt |-> 0, loc |-> "L1", left |-> r]
Flush(b)     == [op |-> "flush", b |-> b]
ClearB(b)    == [op |-> "clear_bucket", b |-> b]
Nullary(o)   == [op |-> o]

OpsFull ==
  {Add(k, l) : k \in {"a", "b"}, l \in {"L0", "L1"}} \cup
  {Upd(k, l) : k \in {"a", "b"}, l \in {"L0", "L1"}} \cup
  {Sta(k, s) : k \in {"a", "b"}, s \in {"delete", "data"}} \cup
  {Rem(k) : k \in {"a", "b"}} \cup
  {Flush(7), ClearB(7), Nullary("save"), Nullary("reload"), Fill(0), Fill(1)}

OpsLean ==
  {Add("a", "L0"), Add("b", "L0"), Add("a", "L1"), Upd("a", "L1"), Upd("b", "L1"),
   Sta("a", "delete"), Sta("a", "data"), Rem("a"), Rem("b"),
   Flush(7), ClearB(7), Nullary("save"), Nullary("reload"), Fill(0)}

OpsTwo ==
  {Add("a", "L0"), Add("o", "L0"), Add("o", "L1"), Upd("o", "L1"), Rem("a"), Rem("o"),
   Flush(7), Flush(12), Nullary("flush_all"), Nullary("save"), Nullary("reload"),
   ClearB(7), ClearB(12), Nullary("clear"), Fill(0)}

OpsZero ==
  {Add("z", "L0"), Add("b", "L1"), Upd("z", "L1"), Rem("z"),
   Flush(0), ClearB(0), Nullary("save"), Nullary("reload")}

Ops == CASE Alpha = "full" -> OpsFull [] Alpha = "lean" -> OpsLean
         [] Alpha = "two" -> OpsTwo  [] Alpha = "zero" -> OpsZero

\* A fixed prefix puts every enumerated sequence into a deeper starting state:
\*   sorted    both keys merged into the sorted section and on disk
\*   boundary  one key in the sorted section, one pending, one free slot left in the update section
Pre == CASE PreName = "sorted"   -> IF Alpha = "zero" THEN <<Add("z", "L0"), Add("b", "L1"), Flush(0)>>
                                     ELSE IF Alpha = "two" THEN <<Add("a", "L0"), Add("o", "L0"), Nullary("flush_all")>>
                                     ELSE <<Add("a", "L0"), Add("b", "L0"), Flush(7)>>
        [] PreName = "boundary" -> <<Add("a", "L0"), Flush(7), Add(IF Alpha = "two" THEN "o" ELSE "b", "L0"), Fill(1)>>
        [] OTHER                -> <<>>

RECURSIVE RunPre(_, _)
RunPre(x, i) ==
  IF i > Len(Pre) THEN x
  ELSE LET r == IApply(x.xc, KB, Pre[i], CodeDevs)
           j == PStep(x.xp, KB, r.ev)
       IN RunPre([xc |-> r.st, xp |-> j.st, xg |-> x.xg /\ j.ok,
                  xd |-> IF j.dev = "" THEN x.xd ELSE x.xd \cup {j.dev}], i + 1)

MCInit == LET x == RunPre([xc |-> I0(KB), xp |-> P0(KB), xg |-> TRUE, xd |-> {}], 1)
          IN c = x.xc /\ p = x.xp /\ hist = Pre /\ good = x.xg /\ devs = x.xd
MCNext ==
  /\ Len(hist) < D + Len(Pre)
  /\ \E o \in Ops :
       LET r == IApply(c, KB, o, CodeDevs)
           j == PStep(p, KB, r.ev)
       IN /\ c' = r.st /\ p' = j.st /\ hist' = Append(hist, o)
          /\ good' = (good /\ j.ok)
          /\ devs' = IF j.dev = "" THEN devs ELSE devs \cup {j.dev}

\* every step of the code-shaped model is explained by the property-level specification
Refines == good
\* design-level sanity of the code-shaped model: lookups, enumeration and count agree
Coherent == LET o == IObs(c, KB) IN DOMAIN o.ent = {k \in DOMAIN KB : o.look[k] # Absent} /\ \A k \in DOMAIN o.ent : o.ent[k] = o.look[k]
\* the update section never exceeds its capacity
Bounded == \A b \in DOMAIN c.upd : Len(c.upd[b]) <= UpdCap
\* the ghost position of the property level tracks the code-shaped update section
GhostExact == \A b \in DOMAIN c.upd : c.ex[b] => p.pend[b] = Len(c.upd[b])
\* the monotone ghost is an upper bound of the fill level
AckedUpper == \A b \in DOMAIN c.upd : c.ex[b] => p.acked[b] >= Len(c.upd[b])
\* only modelled defects ever need a deviation
NoDevNeeded == devs \subseteq CodeDevs

Emit == Len(hist) = D + Len(Pre) =>
  PrintT(<<"PROGRAM", ToJson([sys |-> "index", keys |-> KB, locs |-> LocTab, ops |-> hist])>>)
=============================================================================
