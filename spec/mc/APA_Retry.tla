------------------------------ MODULE APA_Retry ------------------------------
(***************************************************************************)
(* Stretch for C14 (informational, thorough tier): the attempt counter of   *)
(* RetryPolicy::execute, code-shaped, with an UNBOUNDED max_attempts.       *)
(* Apalache discharges IndInv as an inductive invariant:                    *)
(*   initiation   Init => IndInv                  (--init=Init   --length=0) *)
(*   consecution  IndInv /\ Next => IndInv'       (--init=IndInv --length=1) *)
(*   and IndInv => AttemptsBounded                (--init=IndInv --length=0) *)
(* so "at most max_attempts retries, at most max_attempts + 1 attempts"     *)
(* holds for every natural max_attempts, not only the 0..5 TLC enumerates.  *)
(***************************************************************************)
EXTENDS Integers

CONSTANT
  \* @type: Int;
  MaxAttempts

VARIABLES
  \* @type: Int;
  attempt,      \* the code's `attempt`: retries decided so far
  \* @type: Int;
  callsMade,    \* invocations of the operation
  \* @type: Str;
  pc,           \* "call": about to invoke f | "decide": matching on its result | "done": returned
  \* @type: Str;
  lastClass     \* class of the last result: "ok" | "retry" | "fatal" | "none"

CInit == MaxAttempts \in Nat

Init == attempt = 0 /\ callsMade = 0 /\ pc = "call" /\ lastClass = "none"

\* f().await: the environment chooses the outcome
Call ==
  /\ pc = "call"
  /\ callsMade' = callsMade + 1
  /\ lastClass' \in {"ok", "retry", "fatal"}
  /\ pc' = "decide" /\ UNCHANGED attempt

\* Ok => return; Err if !should_retry() || attempt >= max_attempts => return; Err => attempt += 1, sleep, loop
Decide ==
  /\ pc = "decide"
  /\ IF lastClass = "retry" /\ attempt < MaxAttempts
     THEN attempt' = attempt + 1 /\ pc' = "call"
     ELSE attempt' = attempt /\ pc' = "done"
  /\ UNCHANGED <<callsMade, lastClass>>

Stutter == pc = "done" /\ UNCHANGED <<attempt, callsMade, pc, lastClass>>
Next == Call \/ Decide \/ Stutter

IndInv ==
  /\ attempt \in Nat /\ callsMade \in Nat
  /\ pc \in {"call", "decide", "done"}
  /\ lastClass \in {"ok", "retry", "fatal", "none"}
  /\ attempt <= MaxAttempts
  /\ pc = "call" => callsMade = attempt
  /\ pc # "call" => callsMade = attempt + 1

AttemptsBounded == attempt <= MaxAttempts /\ callsMade <= MaxAttempts + 1
=============================================================================
