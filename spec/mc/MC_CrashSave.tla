---------------------------- MODULE MC_CrashSave ----------------------------
(***************************************************************************)
(* Bounded instance of CrashSave.tla, used two ways (two cfg files written *)
(* by checks/c06.py):                                                      *)
(*                                                                         *)
(* 1. INIT MCInit / NEXT MCNext, INVARIANT OldOrNew: exhaustive check of   *)
(*    one routine's protocol model (all crash instants x disk states over  *)
(*    MaxSaves consecutive saves).  ShapeOut prints the model's step       *)
(*    sequence so that the runner can compare it with the system calls the *)
(*    real routine made (a mismatch means the MODEL is out of date - it is *)
(*    reported, never a violation).                                        *)
(*                                                                         *)
(* 2. INIT GInit / NEXT GNext, INVARIANT EmitCase: enumerates the operation*)
(*    histories ("cases") that lead to the save under study: every         *)
(*    sequence over the routine's driver alphabet of length <= D that ends *)
(*    in a save and contains at most MaxSaves saves.  Each one is executed *)
(*    on the real code by drv_crash (binding G).                           *)
(***************************************************************************)
EXTENDS CrashSave, Json

CONSTANT D     \* maximal length of a history

VARIABLE hist

MCInit == CSInit /\ hist = <<>>
MCNext == CSNext /\ UNCHANGED hist

Shape(e) ==
  CASE e.op = "rename" -> "rename:" \o e.from \o ">" \o e.to
    [] e.op = "dirsync" -> "dirsync"
    [] OTHER -> e.op \o ":" \o e.name
ShapeOut == (n = 1 /\ pc = 1 /\ ~crashed.on) =>
  \A k \in 1..MaxSaves : \A p \in Protocols(k, fs) :
     PrintT(<<"PROTOCOL", ToJson([routine |-> Routine, save |-> k, steps |-> [i \in 1..Len(p) |-> Shape(p[i])]])>>)

(* ---- histories ---- *)
DriverRoutine == IF Routine \in {"lru", "lru_inplace", "lru_fixed"} THEN "lru"
                 ELSE IF Routine \in {"journal_fixed", "journal_save"} THEN "journal"
                 ELSE IF Routine = "disk_nosync" THEN "disk" ELSE Routine
Alphabet ==
  CASE DriverRoutine = "lru"     -> {"mut", "bump", "save", "shutdown", "reopen", "cycle"}
    [] DriverRoutine = "index"   -> {"add", "rm", "flush", "save", "reopen", "fill", "addf"}
    [] DriverRoutine = "res"     -> {"mark", "unmark", "save", "reopen"}
    [] DriverRoutine = "disk"    -> {"puta", "putb", "rma", "reopen"}
    [] DriverRoutine = "journal" -> {"rec", "reopen", "fresh", "wsave"}
SaveOps ==
  CASE DriverRoutine = "lru"     -> {"save", "shutdown"}
    [] DriverRoutine = "index"   -> {"save", "flush", "addf"}
    [] DriverRoutine = "res"     -> {"save"}
    [] DriverRoutine = "disk"    -> {"puta", "putb"}
    [] DriverRoutine = "journal" -> {"rec", "wsave"}

\* "fill" (fill the update section of a bucket) only opens a history; "addf" (an add_entry that finds the section
\* full and therefore flushes and saves the bucket) only makes sense behind it
InSeq(h, x) == \E i \in 1..Len(h) : h[i] = x
Sensible(h, op) == /\ (op = "fill" => h = <<>>)
                   /\ (op = "addf" => InSeq(h, "fill") /\ ~InSeq(h, "flush") /\ ~InSeq(h, "addf"))
                   /\ (op = "fresh" => h # <<>> /\ h[Len(h)] # "fresh")
NSaves(h) == Cardinality({i \in 1..Len(h) : h[i] \in SaveOps})
GInit == hist = <<>> /\ fs = FsEmpty /\ n = 1 /\ pc = 1 /\ crashed = NoCrash /\ proto = <<>>
GNext == /\ Len(hist) < D
         /\ \E op \in Alphabet :
              /\ ~(op = "reopen" /\ hist # <<>> /\ hist[Len(hist)] = "reopen")
              /\ Sensible(hist, op)
              /\ hist' = Append(hist, op)
              /\ NSaves(hist') <= MaxSaves
         /\ UNCHANGED csvars
EmitCase == (hist # <<>> /\ hist[Len(hist)] \in SaveOps) =>
  PrintT(<<"PROGRAM", ToJson([routine |-> DriverRoutine, ops |-> hist])>>)
=============================================================================
