------------------------------ MODULE MC_Stats ------------------------------
(***************************************************************************)
(* Bounded instances of Stats.tla.                                         *)
(*  - design level: the reference books (PART A) run along every           *)
(*    enumerated "met" history at the REAL boundary values (BigNats) and   *)
(*    the invariants InRange, MaxDominates, HitsPlusMisses, StepMonotone   *)
(*    and Balanced (a ghost in unbounded integers) are checked; Variant =  *)
(*    "wrap" (modular gauges, the arithmetic before the saturating fix)    *)
(*    must violate them; the merge algebra (associative, commutative on    *)
(*    the books) is checked over the profile set.                          *)
(*  - binding G: every sequence of D operations of the family's alphabet   *)
(*    is printed as a PROGRAM for drv_bookkeeping.                         *)
(***************************************************************************)
EXTENDS Stats, TLC, Json

CONSTANTS Family,   \* "met" | "merge" | "opm" | "mls" | "sm" | "pm" | "exp"
          D,        \* program length
          Wide      \* "std"; "wide": the larger alphabets; "core": the smaller ones (for the deepest programs)
VARIABLES hist,
          g     \* ghost (met), in unbounded naturals: [pn, pm] entries / bytes put in, [nn, nm] entries / bytes taken
                \* out since the last reset, cl = some prefix took out more than was in, or held more than usize::MAX

\* ---- boundary values ------------------------------------------------------------------
Max1   == <<1614, 955, 737, 6744, 1844>>           \* 2^64 - 2
B2p40  == <<7776, 1162, 995, 1>>
B2p32p2 == <<7298, 9496, 42>>
Dur(sec, nano) == [s |-> sec, n |-> nano, ns |-> BnAdd(BnMul(sec, Bn1e9), BnOfNat(nano))]
D0     == Dur(<<>>, 0)
Dus    == Dur(<<>>, 1000)
Dus1   == Dur(<<>>, 1001)
Dms    == Dur(<<>>, 1000000)
D2ms   == Dur(<<>>, 2000000)
D100ms == Dur(<<>>, 100000000)
D1s    == Dur(<<1>>, 0)
D1999  == Dur(<<1>>, 999000000)
D2s    == Dur(<<2>>, 0)
D10s   == Dur(<<10>>, 0)
Dq     == Dur(<<4073, 4674, 184>>, 709551615)      \* 2^64 - 1 ns
Dq1    == Dur(<<4073, 4674, 184>>, 709551616)      \* 2^64 ns
Dhalf  == Dur(<<2036, 2337, 92>>, 854775808)       \* 2^63 ns
DmaxD  == Dur(BnU64Max, 999999999)                 \* Duration::MAX

\* ---- alphabets --------------------------------------------------------------------------
CoreMet ==
  {[op |-> "get", hit |-> TRUE, d |-> Dms], [op |-> "get", hit |-> FALSE, d |-> Dq], [op |-> "get", hit |-> TRUE, d |-> Dq1],
   [op |-> "put", n |-> <<1>>, d |-> Dms], [op |-> "put", n |-> Bn2p52, d |-> Dms], [op |-> "put", n |-> Max1, d |-> D0],
   [op |-> "put", n |-> BnU64Max, d |-> DmaxD],
   [op |-> "rem", n |-> <<1>>], [op |-> "rem", n |-> BnU64Max], [op |-> "exp", n |-> Bn2p52],
   [op |-> "batch", ops |-> <<<<TRUE, Dms>>, <<FALSE, Dq>>>>], [op |-> "reset"]}
OpsMet ==
  IF Wide = "core" THEN CoreMet ELSE
  CoreMet \cup
  {[op |-> "get", hit |-> FALSE, d |-> Dus], [op |-> "get", hit |-> TRUE, d |-> Dus1], [op |-> "get", hit |-> TRUE, d |-> DmaxD],
   [op |-> "evi", n |-> <<1>>], [op |-> "batch", ops |-> <<>>]} \cup
  (IF Wide = "wide" THEN {[op |-> "get", hit |-> FALSE, d |-> Dhalf], [op |-> "put", n |-> Bn2p20, d |-> Dus1], [op |-> "evi", n |-> Bn2p20]} ELSE {})

Prof(ge, h, mi, p, r, ev, ex, nn, me, mx, ag, ap, cr) ==
  [gets |-> ge, hits |-> h, misses |-> mi, puts |-> p, rems |-> r, evis |-> ev, exps |-> ex, n |-> nn, mem |-> me, max |-> mx,
   avg_get |-> ag, avg_put |-> ap, created |-> cr]
PZero  == Prof(Z, Z, Z, Z, Z, Z, Z, Z, Z, Z, D0, D0, <<3000>>)
PSmall == Prof(<<10>>, <<7>>, <<3>>, <<5>>, <<1>>, <<1>>, Z, <<3>>, <<3000>>, <<4096>>, Dms, D2ms, <<1000>>)
PBig   == Prof(Max1, Max1, Z, <<1>>, Z, Z, Z, BnU64Max, Max1, BnU64Max, Dur(<<>>, 1), D1s, <<2000>>)
PSlow  == Prof(B2p40, B2p40, Z, Bn2p32, <<2>>, Z, <<1>>, <<7>>, Bn2p20, Bn2p52, D10s, Dms, <<500>>)
PExt   == Prof(<<1>>, Z, <<1>>, <<1>>, Z, Z, Z, <<1>>, <<1>>, <<1>>, DmaxD, Dq1, <<1500>>)
Profiles == IF Wide = "wide" THEN {PZero, PSmall, PBig, PSlow, PExt} ELSE {PSmall, PBig, PSlow, PExt}
OpsMerge == {[op |-> "merge", a |-> p[1], b |-> p[2]] : p \in {<<0, 1>>, <<1, 0>>, <<0, 2>>, <<2, 0>>, <<1, 2>>, <<2, 1>>}}

OpsOpm ==
  {[op |-> "record", d |-> d] : d \in {D0, Dms, D1s, DmaxD}} \cup
  {[op |-> "set_count", c |-> c] : c \in {Z, <<1>>, <<3>>, BnU32Max, Bn2p32, B2p32p2, BnU64Max}}

OpsMls ==
  {[op |-> "update", i |-> i, st |-> p] : i \in 0..2, p \in (IF Wide = "wide" THEN {PSmall, PSlow, PExt} ELSE {PSmall, PSlow})} \cup
  {[op |-> "promo", f |-> 0, t |-> 1], [op |-> "promo", f |-> 1, t |-> 0]} \cup
  (IF Wide = "wide" THEN {[op |-> "promo", f |-> 2, t |-> 2]} ELSE {})

CoreSm ==
  {[op |-> "dl", b |-> <<1024>>, d |-> d] : d \in {D100ms, D1s, D1999}} \cup
  {[op |-> "dl", b |-> BnU64Max, d |-> D1s], [op |-> "dl", b |-> BnU64Max, d |-> Dus]} \cup
  {[op |-> "hit", c |-> "a"], [op |-> "miss", c |-> "a"], [op |-> "hit", c |-> "b"],
   [op |-> "size", c |-> "a", v |-> <<5>>], [op |-> "up", v |-> <<512>>], [op |-> "up", v |-> Z]}
OpsSm ==
  IF Wide = "core" THEN CoreSm ELSE
  CoreSm \cup
  {[op |-> "dl", b |-> <<1024>>, d |-> D0], [op |-> "dl", b |-> <<1024>>, d |-> D2s],
   [op |-> "evict", c |-> "a"], [op |-> "size", c |-> "a", v |-> BnU64Max]}

OpsPm ==
  {[op |-> "succ", v |-> <<1>>], [op |-> "succ", v |-> BnU64Max], [op |-> "fail", v |-> <<1>>], [op |-> "fail", v |-> BnU64Max],
   [op |-> "rt", d |-> Dms], [op |-> "rt", d |-> D1s], [op |-> "rt", d |-> DmaxD], [op |-> "rt", d |-> D2ms, times |-> 1000],
   [op |-> "rt", d |-> Dms, times |-> 10], [op |-> "rt", d |-> D1s, times |-> 10], [op |-> "rt", d |-> D10s, times |-> 10]} \cup
  (IF Wide = "wide" THEN {[op |-> "rt", d |-> D10s, times |-> 50], [op |-> "succ", v |-> <<19>>]} ELSE {})

OpsExp ==
  {[op |-> "succ", v |-> <<7>>], [op |-> "fail", v |-> <<2>>], [op |-> "act", v |-> <<3>>], [op |-> "brk_a", v |-> <<1>>],
   [op |-> "brk_r", v |-> <<1>>], [op |-> "dl", b |-> <<1024>>, d |-> D1s], [op |-> "hit", c |-> "a"],
   [op |-> "size", c |-> "a", v |-> <<5>>], [op |-> "rr", v |-> <<4>>], [op |-> "upd_pool"], [op |-> "upd_stream"]}

Ops == CASE Family = "met" -> OpsMet [] Family = "merge" -> OpsMerge [] Family = "opm" -> OpsOpm
         [] Family = "mls" -> OpsMls [] Family = "sm" -> OpsSm [] Family = "pm" -> OpsPm [] Family = "exp" -> OpsExp

\* ---- the machine ----------------------------------------------------------------------------
\* merge: the three slots are chosen first (hist[1] = <<slots>>), then D merges
G0 == [pn |-> Z, pm |-> Z, nn |-> Z, nm |-> Z, cl |-> FALSE]
MCInit == Init /\ hist = <<>> /\ g = G0
OutOfRange(x) == BnLt(x.pn, x.nn) \/ BnLt(x.pm, x.nm) \/ BnLt(UMax, BnSubSat(x.pm, x.nm))
GhostR(x, e) ==
  LET y == IF e.op = "put" THEN [x EXCEPT !.pn = BnInc(@), !.pm = BnAdd(@, e.n)]
           ELSE IF e.op \in {"rem", "evi", "exp"} THEN [x EXCEPT !.nn = BnInc(@), !.nm = BnAdd(@, e.n)]
           ELSE x
  IN IF e.op = "reset" THEN G0 ELSE [y EXCEPT !.cl = x.cl \/ OutOfRange(y)]
MCNext ==
  IF Family = "merge" /\ hist = <<>>
  THEN \E a \in Profiles, b \in Profiles, c \in Profiles :
          hist' = <<[slots |-> <<a, b, c>>]>> /\ UNCHANGED <<books, before, g>>
  ELSE \E e \in Ops :
          /\ hist' = Append(hist, e)
          /\ IF Family = "met" THEN Do(e) /\ g' = GhostR(g, e) ELSE UNCHANGED <<books, before, g>>
Len0 == IF Family = "merge" THEN D + 1 ELSE D
Constr == Len(hist) <= Len0

\* ---- design-level invariants -------------------------------------------------------------------
LastStep == Family = "met" /\ hist # <<>> => StepMonotone(hist[Len(hist)])
\* ST2: as long as no prefix took out more than was in (or held more than usize::MAX), the gauges are the exact
\* differences puts - departures and bytes in - bytes out
Balanced == (Family = "met" /\ ~g.cl) => books.n = BnSubSat(g.pn, g.nn) /\ books.mem = BnSubSat(g.pm, g.nm)
\* the merge algebra on the books (counters, gauges, maximum)
MergeLaws ==
  (hist = <<>>) =>
    \A a \in Profiles, b \in Profiles, c \in Profiles :
       /\ MergeCounts(Books(a), Books(b)) = MergeCounts(Books(b), Books(a))
       /\ MergeCounts(MergeCounts(Books(a), Books(b)), Books(c)) = MergeCounts(Books(a), MergeCounts(Books(b), Books(c)))

Emit == Len(hist) = Len0 =>
  PrintT(<<"PROGRAM", ToJson(
     CASE Family = "merge" -> [kind |-> "merge", slots |-> hist[1].slots, ops |-> SubSeq(hist, 2, Len(hist))]
       [] Family = "mls"   -> [kind |-> "mls", layers |-> 2, ops |-> hist]
       [] OTHER            -> [kind |-> Family, ops |-> hist])>>)
=============================================================================
