----------------------------- MODULE MC_TcpRead -----------------------------
(* Part 2 of Failover.tla on every byte-class sequence up to length N and every split of it:        *)
(* Safe(r) <=> the code's reader (RibbitClient::query_host_raw's stop rule) is split-independent on r. *)
EXTENDS Failover, Json
CONSTANT N
VARIABLE tr      \* [seq |-> sequence over {"x", "n"}, mime_at |-> 0..Len]
AbsR(t) == [len |-> Len(t.seq), nl |-> {i \in 1..Len(t.seq) : t.seq[i] = "n"}, mime_at |-> t.mime_at, nb512 |-> FALSE, prefix |-> {}]
TRInit == tr \in {[seq |-> s, mime_at |-> m] : s \in UNION {[1..k -> {"x", "n"}] : k \in 1..N}, m \in 0..N}
TRNext == UNCHANGED tr
TRCharacterisation ==
  LET r == AbsR(tr) IN
  tr.mime_at <= r.len => (Safe(r) <=> SplitIndependent(r, SUBSET (1..(r.len - 1))))
\* the reader never returns more than was sent nor an empty prefix of a non-empty response, and what it
\* returns early always ends with an empty line
TRShape ==
  LET r == AbsR(tr) IN
  \A cuts \in SUBSET (1..(r.len - 1)) :
    LET k == ReadCode(r, cuts) IN k >= 1 /\ k <= r.len /\ (k < r.len => NN(r, k))
TRUnsafe == LET r == AbsR(tr) IN (tr.mime_at <= r.len /\ ~Safe(r)) => PrintT(<<"UNSAFE", ToJson(tr)>>)

=============================================================================
