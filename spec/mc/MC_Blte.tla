------------------------------ MODULE MC_Blte ------------------------------
(***************************************************************************)
(* Bounded exhaustive checking of Blte.tla and generation of builder       *)
(* programs (binding G).  Two operation alphabets:                         *)
(*   "seq" - call sequences: every order of configuration and add calls up *)
(*           to D calls, few payload classes (1 chunk / 2 chunks / empty)  *)
(*   "pay" - payload boundaries: a canonical configuration prefix, then    *)
(*           ONE add call over all length classes {0,1,cs-1,cs,cs+1,2cs+1} *)
(*           x first-byte classes {N,Z,4,E,F,other}, optionally followed   *)
(*           by a second small add; both table formats                     *)
(*   "cnt" - chunk-count boundaries: chunk size 1, payloads of c bytes for  *)
(*           c in Counts (255, 256, 257, ... 65537) in one add_data call or *)
(*           as c-1 bytes + 1 byte, stored / zlib, plain / Salsa20 / ARC4,  *)
(*           both table formats for the small counts                        *)
(* A program is complete when it has been built or a call has failed (the  *)
(* builder is consumed by a failed call).                                  *)
(***************************************************************************)
EXTENDS Blte, TLC, Json

CONSTANTS D,        \* calls before build
          Family,   \* "seq" | "pay" | "cnt"
          CSmall,   \* the small chunk size set through with_chunk_size_unchecked
          Counts    \* family "cnt": numbers of chunks to reach (boundaries of the bytes of the 24-bit chunk count)
VARIABLE hist

Lens == {0, 1, CSmall - 1, CSmall, CSmall + 1, 2 * CSmall + 1}
FBs  == {"N", "Z", "4", "E", "F", "x"}
Payloads == {<<n, f>> \in Lens \X FBs : n > 0 \/ f = "x"}

Cfg(e) == e.op \in {"with_compression", "with_chunk_size", "with_encryption", "without_encryption"}
LastOp == IF hist = <<>> THEN [op |-> "-"] ELSE hist[Len(hist)]

SeqOps ==
  {[op |-> "with_compression", mode |-> m] : m \in {"Z", "4"}} \cup
  {[op |-> "with_chunk_size", n |-> CSmall, checked |-> FALSE]} \cup
  {[op |-> "with_encryption", cipher |-> c] : c \in Ciphers} \cup
  {[op |-> "without_encryption"]} \cup
  {[op |-> "add_data", len |-> n, fb |-> "x"] : n \in {0, 1, CSmall + 1}} \cup
  {[op |-> "add_mixed_data", len |-> n, fb |-> "x", cipher |-> c] : n \in {1, CSmall + 1}, c \in Ciphers \cup {"-"}} \cup
  {[op |-> "add_encrypted_data", len |-> 1, fb |-> "x", cipher |-> c, idx |-> i] : c \in Ciphers, i \in 0..2} \cup
  {[op |-> "add_chunk", len |-> CSmall + 1, fb |-> "x", mode |-> m, kind |-> k] : m \in {"N", "Z"}, k \in {"new", "parsed"}}

SeqAllowed(e) ==
  /\ e.op = "with_chunk_size" => hist = <<>>
  /\ e.op = "without_encryption" => b.enc # "-"
  /\ e.op = "with_compression" => b.mode # e.mode /\ LastOp.op # "with_compression"
  /\ e.op = "with_encryption" => b.enc # e.cipher /\ LastOp.op \notin {"with_encryption", "without_encryption"}
  /\ e.op = "build" => ~Cfg(LastOp)

PayCfg ==
  {[op |-> "with_compression", mode |-> m] : m \in {"Z", "4", "E", "F"}} \cup
  {[op |-> "with_chunk_size", n |-> CSmall, checked |-> FALSE],
   [op |-> "with_chunk_size", n |-> 1024, checked |-> TRUE],
   [op |-> "with_chunk_size", n |-> 512, checked |-> TRUE]} \cup
  {[op |-> "with_encryption", cipher |-> c] : c \in Ciphers \cup {"X"}}
PayAdds ==
  {[op |-> "add_data", len |-> p[1], fb |-> p[2]] : p \in Payloads} \cup
  {[op |-> "add_mixed_data", len |-> p[1], fb |-> p[2], cipher |-> c] : p \in Payloads, c \in Ciphers \cup {"-"}} \cup
  {[op |-> "add_encrypted_data", len |-> p[1], fb |-> p[2], cipher |-> c, idx |-> i] : p \in Payloads, c \in Ciphers, i \in 0..1} \cup
  {[op |-> "add_chunk", len |-> p[1], fb |-> p[2], mode |-> m, kind |-> k] : p \in Payloads, m \in DataModes, k \in {"new", "parsed"}}
\* BlteFile::compress(data, chunk_size, mode): the one-call encoder (a whole program by itself)
PayCompress ==
  {[op |-> "compress", len |-> p[1], fb |-> p[2], mode |-> m, n |-> c] : p \in Payloads, m \in DataModes \cup {"E", "F"}, c \in {CSmall, DefaultCS}}
SecondAdd == [op |-> "add_data", len |-> 2, fb |-> "x"]      \* the optional second add

Rank(e) == CASE e.op = "-" -> 0
             [] e.op = "with_compression" -> 1
             [] e.op = "with_chunk_size" -> 2
             [] e.op = "with_encryption" -> 3
             [] OTHER -> 4
NAdds == Cardinality({i \in 1..Len(hist) : IsAdd(hist[i])})
HasOp(o) == \E i \in 1..Len(hist) : hist[i].op = o
\* the calls that extend the current program (canonical order: compression, chunk size, encryption, add, [add])
PayNow ==
  LET na   == NAdds
      henc == HasOp("with_encryption")     \* builder-level encryption only matters to add_data
      hcmp == HasOp("with_compression")    \* add_chunk brings its own mode
      r    == Rank(LastOp)
      more == Len(hist) < D
  IN IF na = 0
     THEN IF ~more THEN {}
          ELSE {e \in PayCfg : Rank(e) > r} \cup (IF hist = <<>> THEN PayCompress ELSE {}) \cup
               {e \in PayAdds : (e.op # "add_data" => ~henc) /\ (e.op = "add_chunk" => ~hcmp)}
     ELSE IF na = 1
     THEN (IF more THEN {SecondAdd} ELSE {}) \cup {[op |-> "build", table |-> t] : t \in {"std", "ext"}}
     ELSE {[op |-> "build", table |-> "std"]}

\* ---- family "cnt" ----------------------------------------------------------------------------------------
BigCount == BulkFrom                   \* above: Salsa20 or none, 24-byte table only (cost)
CntData(n) == [op |-> "add_data", len |-> n, fb |-> "r", pat |-> "rand"]
CntNow ==
  IF hist = <<>> THEN {[op |-> "with_chunk_size", n |-> 1, checked |-> FALSE]}
  ELSE LET na == NAdds
           last == LastOp
       IN IF na = 0
          THEN (IF last.op = "with_chunk_size" THEN {[op |-> "with_compression", mode |-> "Z"]} ELSE {}) \cup
               (IF last.op \in {"with_chunk_size", "with_compression"}
                  THEN {[op |-> "with_encryption", cipher |-> c] : c \in Ciphers} ELSE {}) \cup
               {CntData(c) : c \in {x \in Counts : x <= BigCount \/ b.enc # "A"}} \cup
               {CntData(c - 1) : c \in {x \in Counts : x <= BigCount}}
          ELSE (IF na = 1 /\ IsAdd(last) /\ last.len + 1 \in Counts /\ last.len < BigCount THEN {CntData(1)} ELSE {}) \cup
               (IF NChunks(b) \in Counts
                  THEN {[op |-> "build", table |-> t] : t \in (IF NChunks(b) <= BigCount THEN {"std", "ext"} ELSE {"std"})}
                  ELSE {})

SeqNow == {e \in SeqOps \cup {[op |-> "build", table |-> "std"]} : (e.op # "build" => Len(hist) < D) /\ SeqAllowed(e)}

MCInit == Init /\ hist = <<>>
MCNext == \E e \in (CASE Family = "seq" -> SeqNow [] Family = "pay" -> PayNow [] Family = "cnt" -> CntNow) :
             Do(e) /\ hist' = Append(hist, e)

\* ---- the design's properties ---------------------------------------------------------------------------
IdentityInv == phase = "built" => Identity(b)
TableInv    == phase = "built" => TableTruthful(b)
\* every broken position is attributed to exactly one listed deviation
ExplainedInv == phase = "built" /\ ~Identity(b) => Broken(b) # {} /\ \A p \in Broken(b) : Known(WhyBroken(b, p))
\* offsets are those of the concatenation, whatever the call sequence
OffsetsInv == \A p \in 1..NRec(b) :
                b.chunks[p].off = (IF p = 1 THEN 0 ELSE b.chunks[p - 1].off + b.chunks[p - 1].len)
\* witnesses of the listed deviations: with the listed set switched on TLC must refute the property at a
\* state that shows the deviation (regenerates the finding's counterexample; shortest first: BFS)
Wit(cond) == (phase = "built" /\ cond) => (PrintT(<<"WITNESS", ToJson([inline |-> TRUE, ops |-> hist])>>) /\ FALSE)
BrokenBy(f) == ~Identity(b) /\ \E p \in Broken(b) : WhyBroken(b, p) = f /\ (b.chunks[p].len > 0 \/ f = "F01d")
TableBy(field, v) == HasTable(b) /\ \E p \in 1..NRec(b) : b.chunks[p][field] = v /\ b.chunks[p].len > 0
NoWitF01a == Wit(BrokenBy("F01a"))
NoWitF01b == Wit(BrokenBy("F01b"))
NoWitF01d == Wit(BrokenBy("F01d"))
NoWitF01c == Wit(TableBy("dsz", "payload"))
NoWitF01e == Wit(TableBy("dsz", "comp"))
NoWitF01f == Wit(b.table = "ext" /\ TableBy("dck", "comp"))

\* the containers of family "cnt" are far too large to be logged byte by byte
Emit == phase # "open" => PrintT(<<"PROGRAM", ToJson([inline |-> (Family # "cnt"), ops |-> hist])>>)
=============================================================================
