---------------------------- MODULE MC_Failover ----------------------------
(***************************************************************************)
(* Bounded exhaustive checking of Failover.tla and generation of rows      *)
(* (binding G).  One module, several families (constant Family):           *)
(*   "chain"   all assignments of behaviours to the three endpoints x      *)
(*             endpoint classes, two queries (the second one shows what    *)
(*             was cached)                                                 *)
(*   "stall"   the same with the 30 s time-out behaviour, one query        *)
(*   "cache"   representative behaviour pairs x every admissible sequence  *)
(*             of query / tick / reopen / flip of length D                 *)
(*   "renew"   TTL 600 ms and waits of 400 ms: every sequence of query /   *)
(*             wait / new client of length D over two behaviour sets - a   *)
(*             hit inside the TTL followed by a query after the original   *)
(*             expiry (a hit must not renew the time-to-live)              *)
(*   "ttlcls"  ribbit/cdn/config TTL = 600/1800/3000 ms x every endpoint   *)
(*             class: queries clearly inside and clearly after the class's *)
(*             own TTL, with and without a new client                      *)
(*   "split"   the concrete TCP response shapes (byte classes dumped by the*)
(*             driver, IOEnv.SHAPES) x 1-cut / 2-cut splits                *)
(* MC_TcpRead (all short byte-class sequences x all splits) and            *)
(* MC_FailoverCdn (status scripts x download / reopen sequences) are       *)
(* separate modules.                                                       *)
(***************************************************************************)
EXTENDS Failover, Json, IOUtils

CONSTANTS Family,
          HttpBehs, TcpBehs,     \* chain / stall: behaviours assigned to the HTTP(S) endpoints / the TCP endpoint
          Classes,               \* endpoint classes
          D,                     \* cache / cdn: number of operations in a program
          SplitCls, ShapeSel, CutModes   \* split: class, shapes to use, subset of {"one", "marks1", "marks2", "sparse", "mb1", "mb2"}

VARIABLES cfg, st, hist

AnyDocs == {"partial"}
EmptyResp == [len |-> 0, nl |-> {}, mime_at |-> 0, nb512 |-> FALSE, prefix |-> {}]
AbsDocs == [ep \in EPs |-> <<ep \o "1", ep \o "2">>]
Beh3(a, b, c) == [https |-> a, http |-> b, tcp |-> c]

Cfg(fam, cache, ttl, cls, beh, beh2) ==
  [fam |-> fam, cache |-> cache, ttl |-> ttl, cls |-> cls, beh |-> beh, beh2 |-> beh2, docs |-> AbsDocs,
   resp |-> EmptyResp, sh |-> 0, shape |-> "", cuts |-> <<>>, prog |-> <<>>]

\* ---- chain / stall --------------------------------------------------------
\* TCP-only classes never look at the HTTP behaviours: two assignments are enough to see that
ChainBehs(cls) ==
  IF TcpOnly(cls) THEN {Beh3(h[1], h[2], t) : h \in {<<"OkBpsv", "OkBpsv">>, <<"H500", "Refused">>}, t \in TcpBehs}
  ELSE {Beh3(a, b, t) : a \in HttpBehs, b \in HttpBehs, t \in TcpBehs}
HasStall(b) == "Stall" \in {b.https, b.http, b.tcp}
ChainCfgsOk == UNION {{Cfg("chain", "mem", "long", cls, b, b) : b \in ChainBehs(cls)} : cls \in Classes}
StallCfgs == {[c EXCEPT !.fam = "stall"] : c \in {x \in ChainCfgsOk : HasStall(x.beh)}}

\* ---- cache ------------------------------------------------------------------
\* <<class, behaviours, behaviours after the flip>>; no Refused (a port cannot change between refusing and listening)
CachePairs == {
  <<"versions", Beh3("OkBpsv", "OkBpsv", "OkBpsv"),       Beh3("H500", "H503", "Malformed")>>,
  <<"versions", Beh3("H500", "OkBpsv", "OkMime"),         Beh3("H404", "OkBpsv", "OkBpsv")>>,
  <<"cdns",     Beh3("H503", "H429", "OkMime"),           Beh3("OkBpsv", "H429", "OkMime")>>,
  <<"bgdl",     Beh3("Malformed", "H500", "ClosedEmpty"), Beh3("OkBpsv", "OkBpsv", "OkBpsv")>>,
  <<"versions", Beh3("H404", "OkBpsv", "OkBpsv"),         Beh3("H500", "H502", "OkBpsv")>>,
  <<"summary",  Beh3("OkBpsv", "OkBpsv", "OkMime"),       Beh3("OkBpsv", "OkBpsv", "MalformedSum")>>,
  <<"certs",    Beh3("OkBpsv", "OkBpsv", "Malformed"),    Beh3("OkBpsv", "OkBpsv", "OkBpsv")>> }
CacheCfgs == {Cfg("cache", c, t, pr[1], pr[2], pr[3]) : c \in {"mem", "disk"}, t \in {"long", "short"}, pr \in CachePairs}

\* ---- renew --------------------------------------------------------------------
RenewSets == { <<"versions", Beh3("OkBpsv", "OkBpsv", "OkBpsv")>>, <<"summary", Beh3("OkBpsv", "OkBpsv", "OkMime")>>,
               <<"cdns", Beh3("H503", "Refused", "OkBpsv")>> }
RenewCfgs == {Cfg("renew", c, "mid", pr[1], pr[2], pr[2]) : c \in {"mem", "disk"}, pr \in RenewSets}
WaitMs == 400
QMs == 20              \* nominal duration of a query on the model checker's clock

\* ---- ttlcls ------------------------------------------------------------------
\* ribbit_ttl / cdn_ttl / config_ttl = 600 / 1800 / 3000 ms and every endpoint class: four queries with gaps
\* chosen so that, for the class's own TTL, the queries fall clearly inside it (hit required) and clearly after
\* it (traffic required); a new client (disk) before none or one of the later queries.  Any class -> TTL mapping
\* other than TtlOf puts a hit or a fetch into the wrong window.
Gaps(cls) == {<<400, 400, 400>>} \cup (IF TtlOf(cls) = 1800 THEN {<<1000, 1000, 1000>>}
                                      ELSE IF TtlOf(cls) = 3000 THEN {<<1000, 1000, 1400>>} ELSE {})
TtlProg(g, r) ==      \* r = 0: no new client; r = i: a new client before query i + 1
  LET step(i) == <<[op |-> "wait", ms |-> g[i]]>> \o (IF r = i THEN <<[op |-> "reopen"]>> ELSE <<>>) \o <<[op |-> "query", p |-> 1]>>
  IN <<[op |-> "query", p |-> 1]>> \o step(1) \o step(2) \o step(3)
TtlClsCfgs ==
  UNION {{[Cfg("ttlcls", c, "cls", cls, Beh3("OkBpsv", "OkBpsv", "OkBpsv"), Beh3("OkBpsv", "OkBpsv", "OkBpsv")) EXCEPT !.prog = TtlProg(g, r)] :
            g \in Gaps(cls), r \in (IF c = "disk" THEN 0..3 ELSE {0})} : c \in {"mem", "disk"}, cls \in Classes}

Q(p) == [op |-> "query", p |-> p]
OpWait == [op |-> "wait", ms |-> WaitMs]
OpTick == [op |-> "tick"]
OpReopen == [op |-> "reopen"]
OpFlip == [op |-> "flip"]
LastOp(h) == IF h = <<>> THEN "" ELSE h[Len(h)].op
CacheOps(c, h) ==
  IF h = <<>> THEN {Q(1)}
  ELSE IF Len(h) = D - 1 THEN {Q(1), Q(2)}
  ELSE {Q(1), Q(2)}
       \cup (IF c.ttl = "short" /\ LastOp(h) # "tick" THEN {OpTick} ELSE {})
       \cup (IF c.cache = "disk" /\ LastOp(h) # "reopen" THEN {OpReopen} ELSE {})
       \cup (IF \A i \in 1..Len(h) : h[i].op # "flip" THEN {OpFlip} ELSE {})
\* renew: a wait between any two queries at most twice in a row, a new client (disk) not twice in a row
RenewOps(c, h) ==
  IF h = <<>> \/ Len(h) = D - 1 THEN {Q(1)}
  ELSE {Q(1)}
       \cup (IF Len(h) < 2 \/ h[Len(h)].op # "wait" \/ h[Len(h) - 1].op # "wait" THEN {OpWait} ELSE {})
       \cup (IF c.cache = "disk" /\ LastOp(h) # "reopen" THEN {OpReopen} ELSE {})

\* ---- split --------------------------------------------------------------------
\* The shapes are the driver's concretisation table (drv_failover --dump-shapes <class>): per shape the
\* length, the positions of the LF bytes, from which prefix length the MIME test succeeds, and the
\* positions of interior empty lines.  The state only carries the index of the shape.
Shapes == ndJsonDeserialize(IOEnv.SHAPES)
ShapeR(s) == [len |-> s.len, nl |-> SetOfSeq(s.nl), mime_at |-> s.mime_at, nb512 |-> s.nb512,
              prefix |-> {<<s.blank[i], "trunc">> : i \in 1..Len(s.blank)}]
RespOf(c) == IF c.sh = 0 THEN c.resp ELSE ShapeR(Shapes[c.sh])
\* cut positions inside a multi-byte character of the shape (non-ASCII shapes)
Mb(i) == SetOfSeq(Shapes[i].mb)
Landmarks(r) == {c \in 1..(r.len - 1) :
                   \/ c \in r.nl \/ (c + 1) \in r.nl \/ (c - 1) \in r.nl
                   \/ c \in {r.mime_at - 1, r.mime_at, r.mime_at + 1, 511, 512, 513}
                   \/ c % 8192 = 0}
Sparse(r) == {c \in 1..(r.len - 1) : NN(r, c) \/ NN(r, c + 1) \/ c % 8192 = 0 \/ c \in {r.mime_at - 1, r.mime_at, 512}}
\* "mb1": unsplit, every cut inside a multi-byte character, every read-buffer boundary; "mb2": pairs of those
CutSets(r, mb) ==
  LET marks == Landmarks(r) \cup mb
      inside == mb \cup {c \in 1..(r.len - 1) : c % 8192 = 0}
  IN
  (IF "one" \in CutModes THEN {<<c>> : c \in 1..(r.len - 1)} ELSE {})
  \cup (IF "marks1" \in CutModes THEN {<<c>> : c \in marks} ELSE {})
  \cup (IF "sparse" \in CutModes THEN {<<c>> : c \in Sparse(r)} \cup {<<>>} ELSE {})
  \cup (IF "mb1" \in CutModes THEN {<<c>> : c \in inside} \cup {<<>>} ELSE {})
  \cup (IF "mb2" \in CutModes THEN {<<q[1], q[2]>> : q \in {z \in inside \X inside : z[1] < z[2]}} ELSE {})
  \cup (IF "marks2" \in CutModes THEN {<<q[1], q[2]>> : q \in {z \in marks \X marks : z[1] < z[2]}} ELSE {})
SplitBeh == IF TcpOnly(SplitCls) THEN Beh3("OkBpsv", "OkBpsv", "OkBpsv") ELSE Beh3("Refused", "H503", "OkBpsv")
SplitCfgsOk ==
  UNION {{[Cfg("split", "mem", "long", SplitCls, SplitBeh, SplitBeh) EXCEPT !.sh = i, !.shape = Shapes[i].shape, !.cuts = cs] :
            cs \in CutSets(ShapeR(Shapes[i]), Mb(i))} : i \in {j \in 1..Len(Shapes) : Shapes[j].shape \in ShapeSel}}

\* ---- the machine ----------------------------------------------------------------
Cfgs == CASE Family = "chain" -> ChainCfgsOk
          [] Family = "stall" -> StallCfgs
          [] Family = "cache" -> CacheCfgs
          [] Family = "renew" -> RenewCfgs
          [] Family = "ttlcls" -> TtlClsCfgs
          [] Family = "split" -> SplitCfgsOk

Len0 == CASE Family = "chain" -> 2 [] Family = "stall" -> 1 [] Family \in {"cache", "renew"} -> D [] Family = "split" -> 1
          [] Family = "ttlcls" -> Len(cfg.prog)

OpsNow == CASE Family = "cache" -> CacheOps(cfg, hist)
            [] Family = "renew" -> RenewOps(cfg, hist)
            [] Family = "ttlcls" -> {cfg.prog[Len(hist) + 1]}
            [] OTHER -> {Q(1)}

\* a query that starts now: [now, now + QMs] on the nominal clock (st.t1 = now)
Probe(s) == At(s, s.t1, s.t1 + QMs)

MCInit == cfg \in Cfgs /\ st = St0(cfg) /\ hist = <<>>

Do(op) ==
  /\ hist' = Append(hist, op)
  /\ cfg' = cfg
  /\ CASE op.op = "query"  -> \E o \in Outcomes(cfg, Probe(st), op.p, AnyDocs) : st' = After(cfg, Probe(st), op.p, o)
       [] op.op = "tick"   -> st' = TickSt(st)
       [] op.op = "wait"   -> st' = WaitSt(st, op.ms)
       [] op.op = "reopen" -> st' = ReopenSt(cfg, st)
       [] op.op = "flip"   -> st' = FlipSt(cfg, st)

MCNext == Len(hist) < Len0 /\ \E op \in OpsNow : Do(op)

\* ---- the statement on every reachable state (KnownDeviations = {}) --------------
Paths == {1, 2}
InvOrder       == \A p \in Paths : ClauseOrder(cfg, Probe(st), p, AnyDocs)
InvTcpOnly     == \A p \in Paths : ClauseTcpOnly(cfg, Probe(st), p, AnyDocs)
InvMoveOn      == \A p \in Paths : ClauseMoveOn(cfg, Probe(st), p, AnyDocs)
InvFirstAnswer == \A p \in Paths : ClauseFirstAnswer(cfg, Probe(st), p, AnyDocs)
InvErr         == \A p \in Paths : ClauseErr(cfg, Probe(st), p, AnyDocs)
InvWithinTtl   == \A p \in Paths : ClauseWithinTtl(cfg, Probe(st), p, AnyDocs)
InvAfterTtl    == \A p \in Paths : ClauseAfterTtl(cfg, Probe(st), p, AnyDocs)
InvNoPanic     == \A p \in Paths : ClauseNoPanic(cfg, Probe(st), p, AnyDocs)
InvCacheGood   == ClauseCacheGood(cfg, st, AnyDocs \cup {pr[2] : pr \in cfg.resp.prefix})
InvSomeOutcome == \A p \in Paths : Outcomes(cfg, Probe(st), p, AnyDocs) # {}      \* the statement never forbids everything
\* split: the code-shaped reader returns the whole response on this split, unless the shape is not Safe
InvSplit == Family = "split" =>
              LET r == RespOf(cfg) IN ReadCode(r, SetOfSeq(cfg.cuts)) = r.len \/ ~Safe(r)

Row == [fam |-> cfg.fam, cache |-> cfg.cache, ttl |-> cfg.ttl, cls |-> cfg.cls, beh |-> cfg.beh, beh2 |-> cfg.beh2,
        shape |-> cfg.shape, cuts |-> cfg.cuts, ops |-> hist,
        pred |-> IF Family = "split" THEN ReadCode(RespOf(cfg), SetOfSeq(cfg.cuts)) ELSE 0]
Emit == Len(hist) = Len0 => PrintT(<<"PROGRAM", ToJson(Row)>>)

=============================================================================
