------------------------------ MODULE MC_Cache ------------------------------
(***************************************************************************)
(* Bounded instance of Cache.tla.  Two uses, selected by INIT/NEXT:        *)
(*                                                                         *)
(*  GenInit/GenNext  - binding G: enumerate every operation sequence of    *)
(*     length <= D over the alphabet of the family, for every listed       *)
(*     configuration, and print each once as a PROGRAM (results come from  *)
(*     the real run, so no cache machine is needed here; only the abstract *)
(*     state of the core is carried, to prune pointless operations).       *)
(*                                                                         *)
(*  ChkInit/ChkNext  - design level: run a cache MACHINE and check that    *)
(*     the judge of PART 1/2 accepts every step (JudgeAccepts), that the   *)
(*     limits hold (InvEntry, InvBytes) and that the books are right at    *)
(*     every probe (InvBooks).  Variant "ideal": unconstrained eviction,   *)
(*     lazy or eager expiry.  Variant "asis": the code's shape with the    *)
(*     defects of the findings in AsIs switched on.  Everything holds on   *)
(*     "ideal" and on "asis" with AsIs = {}; with a finding in AsIs TLC    *)
(*     refutes an invariant and the W* invariants print the refuting       *)
(*     program as a WITNESS, which the check replays on the real code.     *)
(***************************************************************************)
EXTENDS Cache, TLC, Json

CONSTANTS Keys,        \* model values (a SYMMETRY set for ChkNext)
          D,           \* maximal program length
          Kind,        \* "mem" | "disk"
          Policies, MaxE, MaxB, DTtl, SubDirs, Bg,   \* configuration grid
          OpKinds,     \* subset of {"put","put_ttl","get","contains","remove","clear","tick","restart"}
          Sizes,       \* value sizes for put
          ShortSizes,  \* value sizes for put_ttl short
          LongSizes,   \* value sizes for put_ttl long
          EdgeTtls,    \* boundary TTL classes for put_ttl: subset of {"zero", "ns", "max"}
          EdgeSizes,   \* value sizes for put_ttl with a boundary TTL
          MaxRestarts, MaxTicks,
          Variant,     \* "ideal" | "asis"  (ChkNext only)
          AsIs         \* findings whose defect the as-is machine reproduces (subset of {"F10a","F10b","F10c","F10d"})

VARIABLES cfg, m, hist, last

\* some fixed order of the keys; only GenNext (which runs without SYMMETRY) uses it
KeySeq == CHOOSE f \in [1..Cardinality(Keys) -> Keys] : \A i, j \in 1..Cardinality(Keys) : i # j => f[i] # f[j]

Configs ==
  {[kind |-> Kind, policy |-> p, maxe |-> e, maxb |-> b, dttl |-> t, subdirs |-> sd, bg |-> bg] :
     p \in Policies, e \in MaxE, b \in MaxB, t \in DTtl, sd \in SubDirs, bg \in Bg}

KeyOps(kind) == {[op |-> kind, k |-> k] : k \in Keys}
Alphabet ==
  (IF "put" \in OpKinds THEN {[op |-> "put", k |-> k, n |-> n] : k \in Keys, n \in Sizes} ELSE {}) \cup
  (IF "put_ttl" \in OpKinds
   THEN {[op |-> "put_ttl", k |-> k, n |-> n, ttl |-> "short"] : k \in Keys, n \in ShortSizes} \cup
        {[op |-> "put_ttl", k |-> k, n |-> n, ttl |-> "long"] : k \in Keys, n \in LongSizes} \cup
        {[op |-> "put_ttl", k |-> k, n |-> n, ttl |-> c] : k \in Keys, n \in EdgeSizes, c \in EdgeTtls} ELSE {}) \cup
  (IF "get" \in OpKinds THEN KeyOps("get") ELSE {}) \cup
  (IF "contains" \in OpKinds THEN KeyOps("contains") ELSE {}) \cup
  (IF "remove" \in OpKinds THEN KeyOps("remove") ELSE {}) \cup
  (IF "clear" \in OpKinds THEN {[op |-> "clear"]} ELSE {}) \cup
  (IF "tick" \in OpKinds THEN {[op |-> "tick"]} ELSE {}) \cup
  (IF "restart" \in OpKinds THEN {[op |-> "restart"]} ELSE {})

\* the operation as executed in the model: value identity = its size, result filled in later
Exec(e) == [x \in DOMAIN e \cup {"vh", "res"} |->
              IF x = "vh" THEN (IF "n" \in DOMAIN e THEN e.n ELSE 0) ELSE IF x = "res" THEN Okay ELSE e[x]]

Count(q, name) == Cardinality({i \in 1..Len(q) : q[i].op = name})
EverPut == {hist[i].k : i \in {j \in 1..Len(hist) : IsPut(hist[j])}}
NextKey == IF Cardinality(EverPut) < Len(KeySeq) THEN {KeySeq[Cardinality(EverPut) + 1]} ELSE {}
\* operations that can teach us something in the current abstract state
Useful(s, e) ==
  CASE e.op = "tick"    -> (\E k \in DOMAIN s.latest : MaybeExp(s, k)) /\ s.clock < MaxTicks
    [] e.op = "restart" -> Count(hist, "restart") < MaxRestarts /\ hist # <<>> /\ hist[Len(hist)].op # "restart"
    [] e.op = "clear"   -> hist # <<>> /\ hist[Len(hist)].op # "clear"
    [] OTHER            -> TRUE

Obs0  == [cnt |-> 0, n |-> 0, mem |-> 0]
Last0 == [e |-> [op |-> "init"], res |-> Okay, okj |-> TRUE, obs |-> Obs0, pre |-> Obs0]
Sym == Permutations(Keys)
Constr == Len(hist) <= D
Probe == [op |-> "probe"]
Program == [cfg |-> cfg, keys |-> Keys, ops |-> Append(hist, Probe)]

\* ---- binding G: program enumeration ------------------------------------------
GenInit == cfg \in Configs /\ m = M0 /\ hist = <<>> /\ last = Last0
GenNext ==
  \E e \in Alphabet :
    /\ Useful(m.s, e)
    /\ ("k" \in DOMAIN e /\ ~IsPut(e)) => e.k \in EverPut   \* probes cover the never-put keys
    /\ IsPut(e) => e.k \in EverPut \cup NextKey     \* new keys appear in the order of KeySeq (canonical naming)
    /\ m' = [m EXCEPT !.s = Apply(m.s, cfg, Exec(e))]
    /\ hist' = Append(hist, e)
    /\ UNCHANGED <<cfg, last>>
\* (TLC evaluates invariants also on the successors it then discards by the CONSTRAINT, hence the upper bound)
Emit == (Len(hist) >= 1 /\ Len(hist) <= D) => PrintT(<<"PROGRAM", ToJson(Program)>>)

\* ---- design level: the machines ------------------------------------------------
Step(e)  == IF Variant = "ideal" THEN IdealStep(m, cfg, Exec(e), Keys) ELSE AsIsStep(m, cfg, Exec(e), Keys, AsIs)
Obs(mm)  == IF Variant = "ideal" THEN IdealObs(mm) ELSE AsIsObs(mm)
ChkInit == GenInit
ChkNext ==
  \E e \in Alphabet \cup {Probe} :
    /\ Useful(m.s, e)
    /\ \E x \in Step(e) :
         /\ m' = x.m
         /\ last' = [e |-> e, res |-> x.res, okj |-> ResOk(m.s, cfg, WithRes(Exec(e), x.res)),
                       obs |-> Obs(x.m), pre |-> last.obs]
    /\ hist' = Append(hist, e)
    /\ cfg' = cfg
\* the history itself is not part of a state's identity, but what Constr and Useful read from it is
\* (otherwise the set of explored states would depend on which path TLC happens to find first)
View == <<cfg, m, last, Len(hist), Count(hist, "restart")>>

JudgeAccepts == last.okj
InvEntry     == EntryBound(cfg, last.obs)
InvBytes     == ByteBound(cfg, last.obs)
InvBooks     == last.e.op = "probe" => BooksOk(last.res.vals, last.obs)
\* the machine's abstract state is the core's: the ghost is a function of the inputs only
InvGhost     == \A k \in Held(m) \cap DOMAIN m.s.latest : Variant = "ideal" => m.store[k] = m.s.latest[k]

Witness(tag) == PrintT(<<"WITNESS", ToJson([inv |-> tag, cfg |-> cfg, keys |-> Keys, ops |-> Append(hist, Probe)])>>)
WJudge == JudgeAccepts \/ ~Witness("JudgeAccepts")
WEntry == InvEntry \/ ~Witness("InvEntry")
\* the two ways of the as-is memory cache over its byte budget: usage was already at/over the budget before
\* the put (eviction was due but sized by the entry limit, F10a) / was below it (incoming size ignored, F10c)
WBytesA == InvBytes \/ last.pre.mem < cfg.maxb \/ ~Witness("F10a")
WBytesC == InvBytes \/ last.pre.mem >= cfg.maxb \/ ~Witness("F10c")
WBooks == InvBooks \/ ~Witness("InvBooks")
=============================================================================
