--------------------------- MODULE MC_Residency ---------------------------
(***************************************************************************)
(* Bounded exhaustive checking of Residency.tla and program generation     *)
(* (binding G).  The code-shaped model (operators Cxxx) is stepped through *)
(* every operation sequence of length D; every step is judged by the       *)
(* property-level RStep (invariant Refines); every complete sequence is    *)
(* printed as a program for the real ResidencyContainer.                   *)
(*                                                                         *)
(* The batch-delete threshold is 2 in the model; a program's delete with   *)
(* pad = 10001 extra (never marked) keys takes the real > 10 000 path.     *)
(* Keys a and b share their first 8 bytes (one MurmurHash3 filter slot).   *)
(***************************************************************************)
EXTENDS Residency, Json

CONSTANTS D,        \* number of enumerated operations (after the fixed prefix)
          PreName   \* "none" | "saved": every program starts with  mark a; mark b; span c; save
VARIABLES cs, r, hist, good

Names == {"a", "b", "c"}
Grp   == [a |-> 1, b |-> 1, c |-> 2]
BigPad == 10001
Threshold == 2

K(o, k)    == [op |-> o, k |-> k]
Del(ks, n) == [op |-> "delete", ks |-> ks, pad |-> n]
Ops ==
  {K(o, k) : o \in {"mark", "unmark"}, k \in Names} \cup
  {[op |-> "span", k |-> k, off |-> 4096, len |-> 512] : k \in Names} \cup
  {K("cremove", "a")} \cup
  {Del(ks, n) : ks \in {<<"a">>, <<"b", "c">>, <<"a", "b", "c">>}, n \in {0, BigPad}} \cup
  {[op |-> "save"], [op |-> "reload", ro |-> FALSE], [op |-> "reload", ro |-> TRUE]}

Pre == IF PreName = "saved"
       THEN <<K("mark", "a"), K("mark", "b"), [op |-> "span", k |-> "c", off |-> 4096, len |-> 512], [op |-> "save"]>>
       ELSE <<>>

RECURSIVE RunPre(_, _)
RunPre(x, i) ==
  IF i > Len(Pre) THEN x
  ELSE LET y == CApply(x.xc, Grp, Pre[i], Threshold)
           e == (Pre[i] @@ [res |-> y.res]) @@ [obs |-> CObs(y.st, Grp, Names)]
           j == RStep(x.xr, Names, e)
       IN RunPre([xc |-> y.st, xr |-> j.st, xg |-> x.xg /\ j.ok], i + 1)

MCInit == LET x == RunPre([xc |-> C0, xr |-> R0, xg |-> TRUE], 1)
          IN cs = x.xc /\ r = x.xr /\ hist = Pre /\ good = x.xg
MCNext ==
  /\ Len(hist) < D + Len(Pre)
  /\ \E o \in Ops :
       LET x == CApply(cs, Grp, o, Threshold)
           e == (o @@ [res |-> x.res]) @@ [obs |-> CObs(x.st, Grp, Names)]
           j == RStep(r, Names, e)
       IN cs' = x.st /\ r' = j.st /\ hist' = Append(hist, o) /\ good' = (good /\ j.ok)

Refines == good
\* the fast-path filter never hides a live key
FilterSound == \A k \in CLiveKeys(cs.ent) : Grp[k] \in cs.hidx
\* save then reopen is the identity on what can be observed
SaveLoadId == ~cs.ro => LET s == CApply(cs, Grp, [op |-> "save"], Threshold).st
                           l == CApply(s, Grp, [op |-> "reload", ro |-> FALSE], Threshold).st
                       IN CObs(l, Grp, Names) = CObs(cs, Grp, Names)
\* both delete paths agree on everything observable
PathsAgree == ~cs.ro => \A ks \in {<<"a">>, <<"b", "c">>, <<"a", "b", "c">>} :
                CObs(CApply(cs, Grp, Del(ks, 0), Threshold + 10).st, Grp, Names)
                  = CObs(CApply(cs, Grp, Del(ks, 0), 0).st, Grp, Names)

Emit == Len(hist) = D + Len(Pre) =>
  PrintT(<<"PROGRAM", ToJson([sys |-> "res", keys |-> <<"a", "b", "c">>, ops |-> hist])>>)
=============================================================================
