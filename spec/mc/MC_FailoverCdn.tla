--------------------------- MODULE MC_FailoverCdn ---------------------------
(* Part 3 of Failover.tla: CdnClient::download as cache lookup -> fetch -> store; status scripts x   *)
(* download / reopen sequences (rows for the driver) and "only a successful body is stored".          *)
EXTENDS Failover, Json
OpReopen == [op |-> "reopen"]
VARIABLES ccfg, cst, chist
Retry2 == {503, 429}
Term2 == {200, 404}
RECURSIVE SeqsOver(_, _)
SeqsOver(S, k) == IF k = 0 THEN {<<>>} ELSE {Append(q, x) : q \in SeqsOver(S, k - 1), x \in S}
Scripts == UNION {{Append(q, t) : q \in SeqsOver(Retry2, k), t \in Term2} : k \in 0..3} \cup SeqsOver(Retry2, 4)
Dl(k) == [op |-> "download", k |-> k]
CdnProgs(cache) == {<<Dl(1), Dl(1)>>, <<Dl(1), Dl(2), Dl(1)>>} \cup (IF cache = "disk" THEN {<<Dl(1), OpReopen, Dl(1)>>} ELSE {})
CdnInit == /\ ccfg \in {[fam |-> "cdn", cache |-> c, script |-> s, ra |-> "0", ops |-> o] :
                          c \in {"mem", "disk"}, s \in Scripts, o \in UNION {CdnProgs(x) : x \in {"mem", "disk"}}}
           /\ ccfg.ops \in CdnProgs(ccfg.cache)
           /\ cst = [cached |-> {}, seen |-> [k \in {1, 2} |-> 0]]
           /\ chist = 0
\* the machine: a download of an uncached key makes 1..5 requests as far as CdnExplains allows
CdnStep ==
  /\ chist < Len(ccfg.ops)
  /\ chist' = chist + 1
  /\ ccfg' = ccfg
  /\ LET op == ccfg.ops[chist + 1] IN
     IF op.op = "reopen" THEN cst' = (IF ccfg.cache = "disk" THEN cst ELSE [cst EXCEPT !.cached = {}])
     ELSE \E n \in 0..5, rc \in {"ok", "err"} :
            LET reqs == [i \in 1..n |-> CodeAt(ccfg.script, cst.seen[op.k] + i)] IN
            /\ CdnExplains(ccfg.script, op.k \in cst.cached, cst.seen[op.k], reqs, rc)
            /\ cst' = [cached |-> IF rc = "ok" THEN cst.cached \cup {op.k} ELSE cst.cached,
                       seen |-> [cst.seen EXCEPT ![op.k] = @ + n]]
\* only a successful body is stored: a key is cached only if the script has a success the requests reached
CdnInvStored == \A k \in cst.cached : \E i \in 1..cst.seen[k] : CdnOk(CodeAt(ccfg.script, i))
CdnEmit == chist = Len(ccfg.ops) => PrintT(<<"PROGRAM", ToJson(ccfg)>>)
=============================================================================
