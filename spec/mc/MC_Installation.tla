--------------------------- MODULE MC_Installation ---------------------------
(***************************************************************************)
(* Bounded instances of Installation.tla (binding G): one machine per      *)
(* family.  TLC enumerates every operation sequence of length D behind a   *)
(* prefix (or every table / behaviour / fault position) and prints it as a *)
(* program; for the Installation families it steps the model with the      *)
(* deviations of CodeDevs switched on and checks                           *)
(*   Refines   every answer is one the specification (D = {}) allows       *)
(*   I2Direct  I2 in its own words: Ok(z) iff the manifests loaded last    *)
(*             lead from the request to z and z is filed; else NotFound    *)
(*   I5Direct  nothing that was written is ever missing from the disk      *)
(* With CodeDevs = {} they hold; with a deviation switched on TLC refutes  *)
(* them (run by the check on every run: anti-vacuity).                     *)
(***************************************************************************)
EXTENDS Installation, Json

CONSTANTS Family,    \* "chain" | "cache" | "dur" | "stor" | "binfo" | "val" | "kres" | "kresflip" | "kidx" | "kidxflip"
          D,         \* number of enumerated operations
          Alpha,     \* "full" | "lean": size of the alphabet
          CodeDevs   \* deviations the stepped model has

VARIABLES I, hist, chk, last, dk

\* ------------------------------------------------------------------ Installation
Pay    == {"a", "b", "g"}
PayTbl == << <<"a", "plain", 100>>, <<"b", "plain", 60>>, <<"g", "plain", 40>> >>
Roots  == [R1 |-> [ver |-> 2, files |-> << <<1, "p1", "a">>, <<2, "p2", "b">>, <<3, "-", "a">>, <<5, "p4", "g">> >>],
           R2 |-> [ver |-> 2, files |-> << <<1, "p1", "b">>, <<4, "p3", "a">> >>]]
Encs   == [E1 |-> <<"a", "b">>, E2 |-> <<"a", "g">>]
PathSyms == {"p1", "p2", "p3", "p4", "px", "~p1"}
Paths  == [s \in PathSyms |-> [base |-> IF s = "~p1" THEN "p1" ELSE s, cell |-> "P:" \o s]] @@
          ("@ek:a" :> [base |-> "-", cell |-> "E:a"]) @@ ("@ck:a" :> [base |-> "-", cell |-> "C:a"]) @@
          ("@fdid:1" :> [base |-> "-", cell |-> "F:1"])
H == [roots |-> Roots, encs |-> Encs, paths |-> Paths]

W(p)  == [op |-> "write", p |-> p]
LR(r) == [op |-> "load_root", r |-> r]
LE(x) == [op |-> "load_enc", e |-> x]
RP(s) == [op |-> "read_p", s |-> s]
RF(n) == [op |-> "read_f", n |-> n]
RC(p) == [op |-> "read_c", p |-> p, via |-> "key"]
RE(p) == [op |-> "read_e", p |-> p]
Simple(x) == [op |-> x]

Prefix == CASE Family = "chain" -> <<W("a"), W("b")>>
            [] Family = "cache" -> <<W("a"), LR("R1"), LE("E1")>>
            [] Family = "repair" -> <<W("a"), [op |-> "corrupt", p |-> "a", at |-> "payload"], RE("a")>>
            [] OTHER -> <<>>

OpsChain == IF Alpha = "full"
            THEN {LR("R1"), LR("R2"), LE("E1"), LE("E2"), RP("p1"), RP("p2"), RP("p4"), RP("~p1"), RF(1), RF(2), RF(3), RC("a"), RC("b"),
                  [op |-> "info", s |-> "p1"], [op |-> "info", s |-> "p2"], Simple("reopen")}
            ELSE {LR("R1"), LR("R2"), LE("E1"), LE("E2"), RP("p1"), RF(2), [op |-> "info", s |-> "p1"], Simple("reopen")}
OpsCache == {RE("a"), RC("a"), RF(1), RP("p1"), RP("@ek:a"), RP("@ck:a"), RP("@fdid:1"), RP("px"), Simple("reopen"), W("b"), LR("R1"), LE("E1")}
OpsDur   == {W("a"), W("b"), Simple("reopen"), Simple("reopen_raw"), RE("a"), RE("b"),
             [op |-> "corrupt", p |-> "a", at |-> "payload"], [op |-> "corrupt", p |-> "b", at |-> "blte"], [op |-> "corrupt", p |-> "a", at |-> "lhdr"],
             [op |-> "cut", n |-> 1], Simple("rmdata"), Simple("verify"), Simple("stats")} \cup
            (IF Alpha = "full" THEN {[op |-> "reads_c", ps |-> <<"a", "b">>], [op |-> "raw", p |-> "a"]} ELSE {})
InstOps == CASE Family = "chain" -> OpsChain [] Family = "cache" -> OpsCache [] OTHER -> OpsDur

ReadOps == {"read_p", "read_f", "read_c", "read_e"}
Outs    == {InNF} \cup {InOk(x) : x \in Pay}
KindOf(o) == CASE o.op = "read_p" -> "p" [] o.op = "read_f" -> "f" [] o.op = "read_c" -> "c" [] OTHER -> "e"
ArgOf(o)  == CASE o.op = "read_p" -> o.s [] o.op = "read_f" -> o.n [] OTHER -> o.p
CodePred(J, o, out, Dv) ==
  CASE o.op = "read_p" -> InPathOK(H, J, o.s, out, Dv)
    [] o.op = "read_f" -> InFdOK(H, J, o.n, out, Dv)
    [] o.op = "read_c" -> InCkOK(H, J, o.p, out, Dv)
    [] OTHER           -> InEkOK(J, o.p, out, Dv)
IdealPred(J, o, out) == (o.op = "read_c" /\ out = InNF) \/ CodePred(J, o, out, {})

RECURSIVE FoldOps(_, _, _)
FoldOps(J, q, i) == IF i > Len(q) THEN J ELSE FoldOps(InAfter0(H, J, q[i] @@ [res |-> "ok"]), q, i + 1)

\* code-shaped books of the data file for I5: disk = objects whose bytes the data file holds, arch = this handle knows the file
Dk0 == [disk |-> {}, arch |-> TRUE, live |-> {}]
DkAfter(k, o) ==
  CASE o.op = "write"      -> [disk |-> IF ~k.arch /\ "FX08g" \in CodeDevs THEN {o.p} ELSE k.disk \cup {o.p}, arch |-> TRUE, live |-> k.live \cup {o.p}]
    [] o.op = "reopen"     -> [k EXCEPT !.arch = TRUE]
    [] o.op = "reopen_raw" -> [k EXCEPT !.arch = FALSE]
    [] o.op \in {"cut", "rmdata"} -> [k EXCEPT !.live = {}, !.arch = TRUE]      \* the environment's damage ends the promise
    [] OTHER -> k

InstInit == /\ I = (IF Family = "repair" THEN InS0 ELSE FoldOps(InS0, Prefix, 1)) /\ hist = <<>> /\ chk = TRUE /\ last = <<>> /\ dk = Dk0
InstNext ==
  \E o \in InstOps :
    /\ hist' = Append(hist, o)
    /\ dk' = DkAfter(dk, o)
    /\ IF Family \in {"chain", "cache"} /\ o.op \in ReadOps
       THEN \E out \in Outs :
              /\ CodePred(I, o, out, CodeDevs)
              /\ I' = InReadGhost(H, I, KindOf(o), ArgOf(o), out)
              /\ chk' = IdealPred(I, o, out)
              /\ last' = <<o, out, I>>
       ELSE /\ I' = IF Family \in {"dur", "repair"} THEN I ELSE InAfter0(H, I, o @@ [res |-> "ok"])
            /\ chk' = TRUE /\ last' = <<>>

Refines == chk
\* I2 in its own words (no operator of Part I is used)
Files(J)      == IF J.root = "none" THEN <<>> ELSE Roots[J.root].files
TargetsP(J, s) == {Files(J)[i][3] : i \in {j \in 1..Len(Files(J)) : Paths[s].base # "-" /\ Files(J)[j][2] = Paths[s].base}}
TargetsF(J, n) == {Files(J)[i][3] : i \in {j \in 1..Len(Files(J)) : Files(J)[j][1] = n}}
InEnc(J, x)   == J.enc # "none" /\ \E i \in 1..Len(Encs[J.enc]) : Encs[J.enc][i] = x
I2Direct ==
  last # <<>> /\ last[1].op \in {"read_p", "read_f"} =>
    LET o == last[1] out == last[2] J == last[3]
        T == IF o.op = "read_p" THEN TargetsP(J, o.s) ELSE TargetsF(J, o.n)
        reach == {x \in T : InEnc(J, x) /\ x \in J.known}
    IN IF reach = {} THEN out = InNF ELSE out.k = "ok" /\ out.v \in reach
I5Direct == dk.live \subseteq dk.disk

\* ------------------------------------------------------------------ Storage
NT == {[n |-> "foo", cls |-> "plain", cdir |-> "foo"], [n |-> "bar", cls |-> "plain", cdir |-> "bar"],
       [n |-> "foo/", cls |-> "trail", cdir |-> "foo"], [n |-> "foo/.", cls |-> "trail", cdir |-> "foo"], [n |-> "bar//", cls |-> "trail", cdir |-> "bar"],
       [n |-> "./foo", cls |-> "bad", cdir |-> "-"], [n |-> "..", cls |-> "bad", cdir |-> "-"], [n |-> "../out", cls |-> "bad", cdir |-> "-"],
       [n |-> "foo/sub", cls |-> "bad", cdir |-> "-"], [n |-> "<abs>", cls |-> "bad", cdir |-> "-"], [n |-> "", cls |-> "bad", cdir |-> "-"],
       [n |-> ".", cls |-> "bad", cdir |-> "-"], [n |-> "data", cls |-> "reserved", cdir |-> "data"]}
NTio == {x \in NT : x.n \in {"foo", "foo/", "bar"}}
StorOps == {x @@ [op |-> "open"] : x \in (IF Alpha = "full" THEN NT ELSE {y \in NT : y.n \in {"foo", "bar", "foo/", "foo/.", "..", "<abs>", "foo/sub"}})} \cup
           {x @@ [op |-> "write", p |-> "a"] : x \in NTio} \cup {x @@ [op |-> "read", p |-> "a"] : x \in NTio} \cup
           {x @@ [op |-> "init"] : x \in {y \in NT : y.n \in {"foo", "foo/"}}}

\* ------------------------------------------------------------------ .build.info
BiColPool == [Branch |-> "STRING:0", Active |-> "DEC:1"] @@ ("IM Size" :> "DEC:4") @@ ("CDN Hosts" :> "STRING:0") @@ ("Build Key" :> "HEX:16")
             @@ ("Armadillo" :> "STRING:0") @@ ("X-Custom" :> "STRING:0") @@ ("CDN Servers" :> "STRING:0") @@ ("Product" :> "STRING:0")
\* row templates: a value per column of the pool, and what IM Size / CDN Hosts / CDN Servers mean
BiRowT == <<
  [v |-> [Branch |-> "us", Active |-> "1", Product |-> "wow", Armadillo |-> ""] @@ ("IM Size" :> "12345") @@ ("CDN Hosts" :> "h1.example.net h2.example.net")
          @@ ("Build Key" :> "abcdef1234567890abcdef1234567890") @@ ("X-Custom" :> "a!b:c#d") @@ ("CDN Servers" :> "http://h1/x?y=1 http://h2/z"),
   ims |-> 12345, hosts |-> <<"h1.example.net", "h2.example.net">>, servers |-> <<"http://h1/x?y=1", "http://h2/z">>],
  [v |-> [Branch |-> "eu", Active |-> "0", Product |-> "wow_classic", Armadillo |-> "arm"] @@ ("IM Size" :> "0") @@ ("CDN Hosts" :> "solo.example.net")
          @@ ("Build Key" :> "00000000000000000000000000000000") @@ ("X-Custom" :> "x") @@ ("CDN Servers" :> ""),
   ims |-> 0, hosts |-> <<"solo.example.net">>, servers |-> <<>>],
  [v |-> [Branch |-> "", Active |-> "", Product |-> "", Armadillo |-> ""] @@ ("IM Size" :> "") @@ ("CDN Hosts" :> "")
          @@ ("Build Key" :> "") @@ ("X-Custom" :> "") @@ ("CDN Servers" :> ""),
   ims |-> 0 - 1, hosts |-> <<>>, servers |-> <<>>],
  [v |-> [Branch |-> "kr", Active |-> "1", Product |-> "wow", Armadillo |-> ""] @@ ("IM Size" :> "7") @@ ("CDN Hosts" :> "a  b")
          @@ ("Build Key" :> "ffffffffffffffffffffffffffffffff") @@ ("X-Custom" :> "1") @@ ("CDN Servers" :> "s"),
   ims |-> 7, hosts |-> <<"a", "b">>, servers |-> <<"s">>] >>
BiColSets == IF Alpha = "full"
             THEN {{"Branch", "Active", "IM Size", "CDN Hosts"}, {"Active", "Armadillo", "Product"}, {"Branch", "Build Key", "X-Custom"},
                   {"Armadillo", "Active"}, {"Branch", "Active", "CDN Servers", "X-Custom"}}
             ELSE {{"Active", "Armadillo", "Product"}, {"Branch", "Active", "IM Size", "CDN Hosts"}}
Perms(S) == {q \in [1..Cardinality(S) -> S] : \A i, j \in 1..Cardinality(S) : i # j => q[i] # q[j]}
BiRowSeqs == UNION {[1..n -> 1..Len(BiRowT)] : n \in 0..D}
BiProgram(cs, rs, via, crlf, fp) ==
  [fam |-> "binfo", cols |-> [j \in 1..Len(cs) |-> <<cs[j], BiColPool[cs[j]]>>],
   rows |-> [i \in 1..Len(rs) |-> [j \in 1..Len(cs) |-> BiRowT[rs[i]].v[cs[j]]]],
   ims |-> [i \in 1..Len(rs) |-> BiRowT[rs[i]].ims], hosts |-> [i \in 1..Len(rs) |-> BiRowT[rs[i]].hosts],
   servers |-> [i \in 1..Len(rs) |-> BiRowT[rs[i]].servers], via |-> via, crlf |-> crlf, from_path |-> fp]
\* a table whose only column is empty in some row is a file with an empty line: not generated
BiPrograms == {BiProgram(cs, rs, m[1], m[2], m[3]) :
                 cs \in UNION {Perms(S) : S \in BiColSets}, rs \in BiRowSeqs,
                 m \in {<<"text", FALSE, FALSE>>, <<"text", TRUE, FALSE>>, <<"builder", FALSE, TRUE>>}}

\* ------------------------------------------------------------------ validation
VaCfgs == [wfail : BOOLEAN, ser_len : {0, 5}, invalid_ser : BOOLEAN, rfail : BOOLEAN, lossy : BOOLEAN, trunc_ok : BOOLEAN,
           edges : 0..2, bad_edges : 0..3]
VaGood == [wfail |-> FALSE, ser_len |-> 5, invalid_ser |-> FALSE, rfail |-> FALSE, lossy |-> FALSE, trunc_ok |-> FALSE, edges |-> 1, bad_edges |-> 0]
VaRep  == {VaGood, [VaGood EXCEPT !.lossy = TRUE], [VaGood EXCEPT !.trunc_ok = TRUE], [VaGood EXCEPT !.edges = 2, !.bad_edges = 2],
           [VaGood EXCEPT !.wfail = TRUE], [VaGood EXCEPT !.ser_len = 0, !.edges = 0]}
VaPrograms == {[fam |-> "val", fmts |-> <<c>>, plain |-> FALSE] : c \in {x \in VaCfgs : x.bad_edges < 2 ^ x.edges}} \cup
              {[fam |-> "val", fmts |-> q, plain |-> pl] : q \in UNION {[1..n -> VaRep] : n \in 2..3}, pl \in BOOLEAN}

\* ------------------------------------------------------------------ KMT files
KrKeys == << <<"k0", 3, 0>>, <<"k1", 3, 1>>, <<"k2", 7, 2>>, <<"z", 0, "zero">> >>
KrOps == {[op |-> "mark", k |-> k] : k \in {"k0", "k2", "z"}} \cup {[op |-> "unmark", k |-> k] : k \in {"k0", "k2"}} \cup
         {[op |-> "span", k |-> "k1", off |-> 5, len |-> 7], [op |-> "span", k |-> "k0", off |-> 0, len |-> 2147483647],
          [op |-> "delete", ks |-> <<"k0", "k2">>, pad |-> 0], [op |-> "delete", ks |-> <<"k0", "k1">>, pad |-> 10001],
          [op |-> "fill", b |-> 3, n |-> 26], [op |-> "save"], [op |-> "reload", ro |-> FALSE]}
KrFlips == {[op |-> "flip", ent |-> x, at |-> a, bit |-> b] : x \in {0, 1}, a \in {4, 19, 20, 36, 37}, b \in {0, 1}}
KiKeyT == << <<"k0", 3, 0>>, <<"k1", 3, 1>>, <<"k2", 7, 2>> >>
KiOps == {[op |-> "add", k |-> "k0", id |-> 1, off |-> 100, size |-> 50], [op |-> "add", k |-> "k0", id |-> 2, off |-> 7, size |-> 9],
          [op |-> "add", k |-> "k1", id |-> 1023, off |-> 1073741823, size |-> 2147483647], [op |-> "add", k |-> "k2", id |-> 0, off |-> 0, size |-> 1],
          [op |-> "flush", b |-> 3], [op |-> "flush", b |-> 7], [op |-> "save"], [op |-> "reload"]}
KiFlips == {[op |-> "flip", b |-> 3, pos |-> p, bit |-> 0] : p \in {4, 10, 26, 36, 45, 53, 57, 60}}
KiFlipPrefix == <<[op |-> "add", k |-> "k0", id |-> 1, off |-> 100, size |-> 50], [op |-> "add", k |-> "k1", id |-> 1023, off |-> 1073741823, size |-> 7],
                  [op |-> "flush", b |-> 3]>>

GenOps == CASE Family = "stor" -> StorOps [] Family \in {"kres", "kresflip"} -> KrOps [] OTHER -> KiOps

\* ------------------------------------------------------------------ the machines
GenInit == /\ I = <<>> /\ hist = <<>> /\ chk = TRUE /\ last = <<>> /\ dk = <<>>
GenNext == \E o \in GenOps : hist' = Append(hist, o) /\ UNCHANGED <<I, chk, last, dk>>
\* families whose programs are a set, not sequences: hist holds one program
SetInit == /\ I = <<>> /\ chk = TRUE /\ last = <<>> /\ dk = <<>>
           /\ hist \in (IF Family = "binfo" THEN BiPrograms ELSE VaPrograms)
SetNext == UNCHANGED <<I, hist, chk, last, dk>>

MCInit == CASE Family \in {"chain", "cache", "dur", "repair"} -> InstInit [] Family \in {"binfo", "val"} -> SetInit [] OTHER -> GenInit
MCNext == CASE Family \in {"chain", "cache", "dur", "repair"} -> InstNext [] Family \in {"binfo", "val"} -> SetNext [] OTHER -> GenNext
Constr == Family \in {"binfo", "val"} \/ Len(hist) <= D

InstProgram == [fam |-> "inst", payloads |-> PayTbl, roots |-> Roots, encs |-> Encs, paths |-> Paths, ops |-> Prefix \o hist]
Programs ==
  CASE Family \in {"chain", "cache", "dur", "repair"} -> {InstProgram}
    [] Family = "stor"     -> {[fam |-> "stor", payloads |-> <<PayTbl[1]>>, ops |-> hist]}
    [] Family = "kres"     -> {[fam |-> "kmt", sub |-> "res", keys |-> KrKeys, ops |-> hist \o <<[op |-> "save"], [op |-> "reload", ro |-> FALSE]>>]}
    [] Family = "kresflip" -> {[fam |-> "kmt", sub |-> "res", keys |-> KrKeys, ops |-> hist \o <<[op |-> "save"], f, [op |-> "reload", ro |-> FALSE]>>] : f \in KrFlips}
    [] Family = "kidx"     -> {[fam |-> "kmt", sub |-> "idx", keys |-> KiKeyT, ops |-> hist \o <<[op |-> "save"], [op |-> "reload"]>>]}
    [] Family = "kidxflip" -> {[fam |-> "kmt", sub |-> "idx", keys |-> KiKeyT, ops |-> KiFlipPrefix \o hist \o <<[op |-> "save"], f, [op |-> "reload"]>>] : f \in KiFlips}
Emit == IF Family \in {"binfo", "val"} THEN PrintT(<<"PROGRAM", ToJson(hist)>>)
        ELSE Len(hist) = D => \A p \in Programs : PrintT(<<"PROGRAM", ToJson(p)>>)
=============================================================================
