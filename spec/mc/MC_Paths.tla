------------------------------ MODULE MC_Paths ------------------------------
(* Enumerates every key string of up to N components per API template (binding G) and evaluates the
   design-level confinement question on each.  One behaviour = one key: Init picks it, Call records the
   model's prediction, Emit prints the program. *)
EXTENDS Paths, TLC, Json

CONSTANTS N           \* maximal number of components of a key string
VARIABLES api, key, done, k2, tf, sub

\* the sandbox root as the driver lays it out: <parent>/l1/l2/l3/root
Root == <<"l1", "l2", "l3", "root">>

Apis == {
  [name |-> "disk.raw",             t |-> Template(<<>>, <<>>, FALSE, FALSE)],
  [name |-> "disk.raw.subdirs",     t |-> Template(<<"h1", "h2">>, <<>>, FALSE, FALSE)],
  [name |-> "disk.ribbit.endpoint", t |-> Template(<<>>, <<"ribbit:us:">>, TRUE, FALSE)],
  [name |-> "disk.ribbit.region",   t |-> Template(<<>>, <<"ribbit:">>, TRUE, TRUE)],
  [name |-> "disk.config.hash",     t |-> Template(<<>>, <<"config:build:">>, TRUE, FALSE)],
  [name |-> "disk.index.name",      t |-> Template(<<>>, <<"index:">>, TRUE, TRUE)],
  [name |-> "proto.ribbit",         t |-> Template(<<>>, <<"api", "ribbit">>, FALSE, FALSE)],
  [name |-> "cdn.path",             t |-> [Template(<<>>, <<"cdn">>, FALSE, FALSE) EXCEPT !.pre = <<"cdn">>] @@ [post |-> <<"config", "a0", "a1", "hash">>]],
  [name |-> "storage.open",         t |-> Template(<<>>, <<>>, FALSE, FALSE)],
  \* HardLinkContainer::create_link / remove_file: the destination is the container's directory joined with the string
  [name |-> "hardlink.dest",        t |-> Template(<<>>, <<>>, FALSE, FALSE)] }

KeysUpTo(n) == [abs : BOOLEAN, comps : UNION {[1..m -> Alphabet] : m \in 1..n}]

MCInit == api \in Apis /\ key \in KeysUpTo(N) /\ done = FALSE /\ k2 = key /\ tf = <<"-", "-">> /\ sub = FALSE
MCNext == ~done /\ done' = TRUE /\ UNCHANGED <<api, key, k2, tf, sub>>

Predicted == TemplateConfines(Root, api.t, key)
\* The design-level property: every API confines every key.  Refuted by TLC for the raw-join templates;
\* the runner runs it with expect_violation and records the outcome; the real code is judged by T_Paths.
DesignConfines == Predicted

\* ---- pairs of well-formed keys (injectivity) ---------------------------------------------------------------
\* well-formed = plain components only (hex hashes, product/region/endpoint names, versions with dots)
WellFormed == [abs : {FALSE}, comps : UNION {[1..m -> {"p", "q", "pt", "pa"}] : m \in 1..2}]
PairApis == {a \in Apis : a.name \in {"disk.raw", "disk.raw.subdirs", "disk.ribbit.endpoint", "disk.config.hash", "proto.ribbit"}}
PairInit == api \in PairApis /\ key \in WellFormed /\ k2 \in WellFormed /\ key # k2 /\ done = FALSE /\ tf = <<"-", "-">> /\ sub = FALSE
PairNext == ~done /\ done' = TRUE /\ UNCHANGED <<api, key, k2, tf, sub>>
\* design-level: two different well-formed keys never resolve to the same file
Injective == Resolve(Root, api.t, key) # Resolve(Root, api.t, k2)
EmitPair == done => PrintT(<<"PROGRAM", ToJson([api |-> "pair:" \o api.name, k1 |-> key, k2 |-> k2, predicted_distinct |-> Injective])>>)

\* ---- pairs of typed keys that differ in exactly one field (every field of every typed key) -----------------------
TypedFields == {<<"ribbit", "endpoint">>, <<"ribbit", "region">>, <<"ribbit", "product">>, <<"ribbit", "product_none">>,
                <<"config", "type">>, <<"config", "hash">>, <<"blte", "ekey">>, <<"blte", "block">>, <<"blte", "block_none">>,
                <<"content", "ckey">>, <<"index", "name">>, <<"index", "hash">>,
                <<"manifest", "type">>, <<"manifest", "ckey">>, <<"manifest", "version">>, <<"manifest", "version_none">>,
                <<"root", "ckey">>, <<"root", "parsed">>, <<"root", "version">>, <<"root", "version_none">>,
                <<"encoding", "ekey">>, <<"encoding", "parsed">>, <<"encoding", "page">>, <<"encoding", "page_none">>,
                <<"range", "archive">>, <<"range", "offset">>, <<"range", "length">>,
                <<"block", "ckey">>, <<"block", "index">>, <<"block", "decompressed">>}
TypedInit == tf \in TypedFields /\ sub \in BOOLEAN /\ done = FALSE /\ api = (CHOOSE a \in Apis : TRUE)
             /\ key = [abs |-> FALSE, comps |-> <<"p">>] /\ k2 = key
TypedNext == ~done /\ done' = TRUE /\ UNCHANGED <<tf, sub, api, key, k2>>
EmitTyped == done => PrintT(<<"PROGRAM", ToJson([api |-> "pair:typed", ty |-> tf[1], vary |-> tf[2], subdirs |-> sub])>>)

Emit == done => PrintT(<<"PROGRAM", ToJson([api |-> api.name, abs |-> key.abs, comps |-> key.comps,
                                            predicted_confined |-> Predicted,
                                            predicted_path |-> Resolve(Root, api.t, key),
                                            endpoint_admitted |-> EndpointAdmitted(key)])>>)
=============================================================================
