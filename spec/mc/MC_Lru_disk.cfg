CONSTANTS Keys = {"a","b","c"} ZKeys = {"z"} Cap = 2 D = 5 Family = "disk"
INIT MCInit
NEXT MCNext
SYMMETRY Sym
INVARIANT Bounded
INVARIANT Distinct
INVARIANT FilesFn
INVARIANT TouchAll
INVARIANT CapKept
INVARIANT SaveLoadId
INVARIANT Emit
CONSTRAINT Constr
CHECK_DEADLOCK FALSE
