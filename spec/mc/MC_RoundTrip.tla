---------------------------- MODULE MC_RoundTrip ----------------------------
(***************************************************************************)
(* Bounded exhaustive instance of RoundTrip.tla and generator of builder   *)
(* programs (binding G): for every (format, version) of FmtVers in Fmts,   *)
(* every sequence of at most MaxLen entries with distinct keys from 1..NK, *)
(* every size / auxiliary / tag class the format can represent.            *)
(* TLC checks the algebra on the abstract model (both layouts of the same  *)
(* content are accepted bytes) and prints each program once.               *)
(***************************************************************************)
EXTENDS RoundTrip, TLC, Json

CONSTANTS Fmts,      \* set of format names enumerated in this run
          NK,        \* number of abstract keys
          MaxLen,    \* maximal program length
          SSub       \* size classes used (subset of 0..3)

VARIABLES p

Entries(fmt, ver) ==
  {EntryOf(k, s, a, t) : k \in 1..NK, s \in SDom(fmt, ver) \cap SSub, a \in ADom(fmt, ver), t \in TDom(fmt, ver)}
Distinct(q) == \A i, j \in 1..Len(q) : i # j => q[i].k # q[j].k
Programs ==
  UNION { UNION { { [fmt |-> fv[1], ver |-> fv[2], es |-> q] : q \in {r \in [1..n -> Entries(fv[1], fv[2])] : Distinct(r)} }
                  : n \in 0..MaxLen }
          : fv \in {x \in FmtVers : x[1] \in Fmts} }

MCInit == p \in Programs
MCNext == UNCHANGED p

Accepted(q) == {BytesOf(lay, q.fmt, q.ver, q.es) : lay \in {"canon", "alt"}}
Algebra  == \A b \in Accepted(p) : Stable(b)
Faithful == BuilderFaithful(p)
Emit == PrintT(<<"PROGRAM", ToJson(p)>>)
=============================================================================
