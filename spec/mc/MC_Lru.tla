------------------------------ MODULE MC_Lru ------------------------------
(* Bounded exhaustive checking of Lru.tla and generation of programs (binding G). *)
EXTENDS Lru, TLC, Json

CONSTANTS Keys,     \* ordinary keys (symmetric)
          ZKeys,    \* {"z"}: the key of nine zero bytes, or {}
          D,        \* program length
          Family    \* "mem" | "disk": which operation alphabet
VARIABLE hist

AllKeys == Keys \cup ZKeys

OpsMem ==
  {[op |-> "touch", k |-> k] : k \in AllKeys} \cup
  {[op |-> "remove", k |-> k] : k \in AllKeys} \cup
  {[op |-> "evict_tail"], [op |-> "reset"]} \cup
  {[op |-> "evict_to_target", n |-> n] : n \in 0..2}     \* a target of 0 bytes evicts nothing

OpsDisk ==
  {[op |-> "touch", k |-> k] : k \in AllKeys} \cup
  {[op |-> "remove", k |-> k] : k \in Keys} \cup
  {[op |-> "evict_tail"], [op |-> "bump"], [op |-> "checkpoint"], [op |-> "reopen"]} \cup
  {[op |-> "load", g |-> g] : g \in 1..2} \cup
  {[op |-> "run_cycle", limit |-> n] : n \in 0..1}

Ops == IF Family = "mem" THEN OpsMem ELSE OpsDisk

MCInit == Init /\ hist = <<>>
MCNext == \E e \in Ops : Do(e) /\ hist' = Append(hist, e)

Constr == Len(hist) <= D
Sym == Permutations(Keys)

TouchAll == \A k \in AllKeys : TouchMRU(k)
CapKept  == \A ks \in {q \in UNION {[1..n -> AllKeys] : n \in 0..Cap} : TRUE} : NoCapacityLoss(ks)

Emit == Len(hist) = D => PrintT(<<"PROGRAM", ToJson([cap |-> Cap, ops |-> hist])>>)
=============================================================================
