------------------------------ MODULE MC_Lru ------------------------------
(* Bounded exhaustive checking of Lru.tla and generation of programs (binding G). *)
EXTENDS Lru, TLC, Json

CONSTANTS Keys,     \* ordinary keys (symmetric)
          ZKeys,    \* {"z"}: the key of nine zero bytes, or {}
          D,        \* program length
          Family,   \* "mem" | "disk" | "recap": which operation alphabet
          ReCaps    \* capacities the directory is reopened with (family "recap")
VARIABLES hist,
          cap       \* the capacity in force (Cap until a reopen with another capacity)

AllKeys == Keys \cup ZKeys

OpsMem ==
  {[op |-> "touch", k |-> k] : k \in AllKeys} \cup
  {[op |-> "remove", k |-> k] : k \in AllKeys} \cup
  {[op |-> "evict_tail"], [op |-> "reset"]} \cup
  {[op |-> "evict_to_target", n |-> n] : n \in 0..2}     \* a target of 0 bytes evicts nothing

OpsDisk ==
  {[op |-> "touch", k |-> k] : k \in AllKeys} \cup
  {[op |-> "remove", k |-> k] : k \in Keys} \cup
  {[op |-> "evict_tail"], [op |-> "bump"], [op |-> "checkpoint"], [op |-> "reopen"]} \cup
  {[op |-> "load", g |-> g] : g \in 1..2} \cup
  {[op |-> "run_cycle", limit |-> n] : n \in 0..1}

\* the directory is reopened by a tracker of another capacity: a small alphabet around checkpoint / reopen / load
OpsRecap ==
  {[op |-> "touch", k |-> k] : k \in Keys} \cup
  {[op |-> "checkpoint"], [op |-> "load", g |-> 1], [op |-> "run_cycle", limit |-> 0]} \cup
  {[op |-> "reopen", cap |-> c] : c \in ReCaps}

Ops == IF Family = "mem" THEN OpsMem ELSE IF Family = "disk" THEN OpsDisk ELSE OpsRecap

MCInit == Init /\ hist = <<>> /\ cap = Cap
MCDo(e) == LET r == Apply(s, cap, e) IN s' = r.st /\ res' = r.res /\ cap' = CapAfter(cap, e)
MCNext == \E e \in Ops : MCDo(e) /\ hist' = Append(hist, e)

Constr == Len(hist) <= D
Sym == Permutations(Keys)

\* constant capacity (families "mem", "disk": TLC evaluates the key sequences once)
TouchAll == \A k \in AllKeys : TouchMRU(k)
CapKept  == \A ks \in {q \in UNION {[1..n -> AllKeys] : n \in 0..Cap} : TRUE} : NoCapacityLoss(ks)
\* the capacity in force (family "recap")
BoundedNow  == BoundedC(cap)
TouchAllNow == \A k \in AllKeys : TouchMRUC(cap, k)
CapKeptNow  == \A ks \in {q \in UNION {[1..n -> AllKeys] : n \in 0..cap} : TRUE} : NoCapacityLossC(cap, ks)
SaveLoadNow == SaveLoadIdC(cap)

Emit == Len(hist) = D => PrintT(<<"PROGRAM", ToJson([cap |-> Cap, ops |-> hist])>>)
=============================================================================
