---------------------------- MODULE MC_DiskConc ----------------------------
(* Bounded instances of DiskConc: schedules for structured program families (see MC_CacheConc). *)
EXTENDS DiskConc, Json

CONSTANTS OpsPerTask, InitKinds, OpNames
VARIABLE init

Ops == {[op |-> o, k |-> k] : o \in OpNames \ {"clear"}, k \in Keys} \cup
       (IF "clear" \in OpNames THEN {[op |-> "clear", k |-> 0]} ELSE {})
InitEntry(k, kind) == IF kind = "none" THEN None ELSE [id |-> k, size |-> SizeOf(k), exp |-> kind = "exp"]

MCInit ==
  /\ init \in [Keys -> InitKinds]
  /\ prog \in [Tasks -> [1..OpsPerTask -> Ops]]
  /\ ip = [t \in Tasks |-> 1] /\ pc = [t \in Tasks |-> "start"] /\ loc = [t \in Tasks |-> None]
  /\ index = [k \in Keys |-> InitEntry(k, init[k])]
  /\ file = [k \in Keys |-> IF init[k] = "none" THEN 0 ELSE k]
  /\ cnt = Cardinality({k \in Keys : init[k] # "none"})
  /\ mem = SumSizes([k \in Keys |-> InitEntry(k, init[k])], {k \in Keys : init[k] # "none"})
  /\ last = 0 /\ pre = 0 /\ sched = <<>>
MCNext == Next /\ UNCHANGED init

Emit == AllDone => PrintT(<<"PROGRAM", ToJson([init |-> init, progs |-> prog, sched |-> sched,
                                               model |-> [map |-> [k \in Keys |-> IF index[k] = None THEN 0 ELSE index[k].id], cnt |-> cnt, mem |-> mem]])>>)
=============================================================================
