---------------------------- MODULE MC_DiskConc ----------------------------
(* Bounded instances of DiskConc: schedules for structured program families (see MC_CacheConc). *)
EXTENDS DiskConc, Json

CONSTANTS OpsPerTask, InitKinds, OpNames,
          SweepTasks   \* the tasks that play the background cleanup task: they only sweep, nobody else does
VARIABLE init

Keyless == {"clear", "sweep", "size"}
Ops == {[op |-> o, k |-> k] : o \in OpNames \ Keyless, k \in Keys} \cup
       {[op |-> o, k |-> 0] : o \in OpNames \cap Keyless}
InitEntry(k, kind) == IF kind = "none" THEN None ELSE [id |-> k, size |-> SizeOf(k), exp |-> kind = "exp"]

MCInit ==
  /\ init \in [Keys -> InitKinds]
  /\ prog \in [Tasks -> [1..OpsPerTask -> Ops]]
  /\ \A t \in Tasks, i \in 1..OpsPerTask : (prog[t][i].op = "sweep") <=> (t \in SweepTasks)
  /\ ip = [t \in Tasks |-> 1] /\ pc = [t \in Tasks |-> "start"] /\ loc = [t \in Tasks |-> None]
  /\ index = [k \in Keys |-> InitEntry(k, init[k])]
  /\ file = [k \in Keys |-> IF init[k] = "none" THEN 0 ELSE k]
  /\ cnt = Cardinality({k \in Keys : init[k] # "none"})
  /\ mem = SumSizes([k \in Keys |-> InitEntry(k, init[k])], {k \in Keys : init[k] # "none"})
  /\ last = 0 /\ pre = 0 /\ sched = <<>>
MCNext == Next /\ UNCHANGED init

Emit == AllDone => PrintT(<<"PROGRAM", ToJson([init |-> init, progs |-> prog, sched |-> sched,
                                               model |-> [map |-> [k \in Keys |-> IF index[k] = None THEN 0 ELSE index[k].id], cnt |-> cnt, mem |-> mem]])>>)
=============================================================================
