---------------------------- MODULE MC_Streaming ----------------------------
(***************************************************************************)
(* Bounded instances of Streaming.tla (X02): one machine per family.  Each  *)
(* machine (a) checks, on every reachable state, that the documented        *)
(* procedure / a correct implementation satisfies the judge, that the       *)
(* interval-level judge agrees with byte-by-byte slicing, and the property  *)
(* "in its own words" over the machine's history, and (b) emits the         *)
(* programs (binding G) that drv_streaming executes on the real code.       *)
(***************************************************************************)
EXTENDS Streaming, Json

CONSTANTS Family,   \* "plan" | "ctor" | "rm" | "fo" | "rec" | "pool" | "brk" | "cdn"
          N,        \* plan: offsets 0..N-1; fo/pool: program length; rec: script length; brk: records before the probe
          K,        \* plan: at most K requested ranges; pool: per-host limit; rec: number of servers
          Tier      \* "quick" | "thorough": size of the configuration grids

VARIABLES cfg,      \* configuration of the run (part of the program)
          mst,       \* machine state of the family
          hist      \* operations so far (the program)
vars == <<cfg, mst, hist>>

Prog(ops) == [fam |-> IF Family \in {"ctor"} THEN "plan" ELSE IF Family = "brk" THEN "pool" ELSE Family, cfg |-> cfg, ops |-> ops]
EmitProg(ops) == PrintT(<<"PROGRAM", ToJson(Prog(ops))>>)

\* ===========================================================================
\* plan: every request of at most K ranges over N offsets x a grid of valid configurations
\* ===========================================================================
PlanTMN == IF Tier = "quick" THEN {<<0, 2, 2>>, <<1, 3, 6>>, <<2, 8, 1>>}
           ELSE IF K >= 4 THEN {<<1, 3, 6>>, <<2, 8, 1>>}
           ELSE {<<0, 1, 6>>, <<0, 2, 2>>, <<1, 3, 6>>, <<2, 2, 3>>, <<2, 8, 1>>}
\* quick: the top-of-u64 copies of the requests only for one configuration
PlanCfgs == {c \in {[impl |-> i, thr |-> x[1], max |-> x[2], maxn |-> x[3], bw |-> 0, shift |-> s, lim |-> N - 1] :
                      i \in {"basic", "adv"}, x \in PlanTMN, s \in {"0", "top"}} :
               Tier = "quick" /\ c.shift = "top" => c.thr = 1}
Ranges == {r \in (0..(N - 1)) \X (0..(N - 1)) : r[1] <= r[2]}
Reqs   == UNION {[1..k -> Ranges] : k \in 0..K}

PlanInit == cfg \in PlanCfgs /\ mst \in Reqs /\ hist = <<>>
PlanNext == UNCHANGED vars
OkRes(P) == [kind |-> "Ok", plan |-> P]
\* the documented procedure satisfies the judge (P1-P6), or legitimately reports too many ranges (P4)
CanonConforms ==
  (Family = "plan" /\ cfg.impl = "basic") =>
    LET P == CanonBasic(cfg, mst) IN
    IF Len(P) <= cfg.maxn THEN CoalesceOK(cfg, mst, OkRes(P)) ELSE ErrOK(cfg, mst, "RangeCoalescingFailed")
\* a correct advanced coalescer satisfies the judge
AdvIdealConforms == (Family = "plan" /\ cfg.impl = "adv") => CoalesceOK(cfg, mst, OkRes(AdvIdeal(cfg, mst)))
\* the code-shaped fold conforms whenever it does not pass through one of its two named bugs ...
AdvCodeLabelled ==
  (Family = "plan" /\ cfg.impl = "adv") =>
    LET c == AdvAsCoded(cfg, mst) IN c.bugs = {} => CoalesceOK(cfg, mst, OkRes(c.plan))
\* ... and (pinned variant, expected to be REFUTED: regenerates FX02a / FX02b at the level of the model)
AdvCodeConforms == (Family = "plan" /\ cfg.impl = "adv") => CoalesceOK(cfg, mst, OkRes(AdvAsCoded(cfg, mst).plan))
\* P1 at both levels: interval coverage <=> cutting the bodies back yields each requested range, byte by byte
SlicingAgrees ==
  Family = "plan" =>
    \A P \in {CanonBasic(cfg, mst), AdvIdeal(cfg, mst), AdvAsCoded(cfg, mst).plan} :
      PlanCovers(mst, P) <=> Sliceable(mst, RSet(P))
\* P2 byte by byte: every planned byte is requested or in a hole of at most thr bytes
NoWasteAgrees ==
  Family = "plan" =>
    \A P \in {CanonBasic(cfg, mst), AdvIdeal(cfg, mst)} :
      \A x \in Bytes(RSet(P)) \ Bytes(RSet(mst)) : \E g \in Holes(RSet(mst)) : Inside(x, g) /\ RLen(g) <= cfg.thr
PlanEmit == Family = "plan" => EmitProg(<<[op |-> "coalesce", reqs |-> mst]>>)

\* ===========================================================================
\* ctor: HttpRange::new / from_offset_length / split
\* ===========================================================================
\* "new": both ends exist (<= lim at the top of u64); "ol": offset exists, offset + length may overflow
CtorOps == {[op |-> "mk", how |-> "new", a |-> a, b |-> b] : a \in 0..(N - 1), b \in 0..(N - 1)}
           \cup {[op |-> "mk", how |-> "ol", a |-> a, b |-> b] : a \in 0..(N - 1), b \in 0..(N + 1)}
           \cup {[op |-> "split", r |-> r, n |-> n] : r \in Ranges, n \in 1..3}
CtorInit == /\ cfg \in {[impl |-> "basic", thr |-> 0, max |-> 4, maxn |-> 6, bw |-> 0, shift |-> s, lim |-> N - 1] : s \in {"0", "top"}}
            /\ mst \in CtorOps /\ hist = <<>>
CtorEmit == Family = "ctor" => EmitProg(<<mst>>)
\* the chunks of split partition the range, in order, each of at most n bytes
ChunksPartition ==
  (Family = "ctor" /\ mst.op = "split") =>
    LET q == AscSeq(Chunks(mst.r, mst.n)) IN
    /\ Bytes(RSet(q)) = mst.r[1]..mst.r[2] /\ Ascending(q)
    /\ \A i \in 1..Len(q) : RLen(q[i]) <= mst.n /\ (i < Len(q) => RLen(q[i]) = mst.n)

\* ===========================================================================
\* rm: RetryManager
\* ===========================================================================
RmCfgs == {[base_ms |-> x[1], max_ms |-> x[2], jit |-> j, maxatt |-> 3, ros |-> r] :
             x \in {<<100, 1000>>, <<250, 250>>, <<1000, 100>>, <<0, 1000>>, <<1, 30000>>, <<100, 0>>},
             j \in {"0", "0.1", "0.5", "1"}, r \in {<<429, 500, 502, 503, 504>>, <<>>, <<404>>}}
Conds == {"Excellent", "Good", "Fair", "Poor", "VeryPoor"}
Attempts == 0..7 \cup {10, 16, 31, 32, 33, 34, 40}
ErrKinds == {"Timeout", "CdnFailover", "ServerUnavailable", "ConnectionLimit", "ConnectionPoolExhausted", "RateLimitExceeded",
             "MirrorSyncLag", "InvalidRange", "Configuration", "MissingContentLength", "RangeNotSupported", "RangeCoalescingFailed",
             "BufferOverflow", "AllCdnServersFailed", "CdnPathNotCached", "CdnPathResolution", "InvalidHashFormat",
             "CdnRegionUnavailable", "ContentVerificationFailed", "Io"}
RmOps == {[op |-> "delay", a |-> a, cond |-> c] : a \in Attempts, c \in Conds}
         \cup {[op |-> "retryable", err |-> [kind |-> k, code |-> 0]] : k \in ErrKinds}
         \cup {[op |-> "retryable", err |-> [kind |-> "HttpStatus", code |-> c]] : c \in {200, 404, 416, 429, 500, 502, 503, 504}}
RECURSIVE SetToSeq(_)
SetToSeq(S) == IF S = {} THEN <<>> ELSE LET x == CHOOSE y \in S : TRUE IN <<x>> \o SetToSeq(S \ {x})
RmInit == cfg \in RmCfgs /\ mst = 0 /\ hist = <<>>
RmEmit == Family = "rm" => EmitProg(SetToSeq(RmOps))
\* a correct implementation - min(backoff x factor, max_delay), no jitter - satisfies D1/D2 for every attempt
CondFactor(c) == CASE c = "Excellent" -> <<1, 2>> [] c = "Good" -> <<4, 5>> [] c = "Fair" -> <<1, 1>>
                   [] c = "Poor" -> <<3, 2>> [] c = "VeryPoor" -> <<2, 1>>
IdealDelay(a, c) == IF a = 0 THEN 0 ELSE RMin(ScaledLo(cfg, a, CondFactor(c)), cfg.max_ms)
IdealDelayConforms ==
  Family = "rm" => \A a \in Attempts, c \in Conds :
    JudgeRm(cfg, 0, [op |-> "delay", a |-> a, cond |-> c, res |-> [kind |-> "Ok", ms |-> IdealDelay(a, c)]]).ok
\* D1 in its own words: the backoff doubles until it reaches the cap and then stays there
BackoffShape ==
  Family = "rm" => \A a \in 1..40 :
    /\ Backoff(cfg, a) <= RMax(cfg.max_ms, 0) /\ Backoff(cfg, a + 1) >= Backoff(cfg, a)
    /\ Backoff(cfg, a + 1) \in {2 * Backoff(cfg, a), cfg.max_ms}
RosTransient == DefaultRosTransient

\* ===========================================================================
\* fo: FailoverManager, all operation sequences of length N over two servers
\* ===========================================================================
FoServers == <<[h |-> "a", https |-> TRUE, prio |-> 10], [h |-> "b", https |-> TRUE, prio |-> 20]>>
FoErrs == {[kind |-> "Timeout", code |-> 0], [kind |-> "HttpStatus", code |-> 404], [kind |-> "HttpStatus", code |-> 429],
           [kind |-> "HttpStatus", code |-> 503]}
FoOps == {[op |-> "fail", h |-> h, err |-> x] : h \in {"a", "b"}, x \in FoErrs}
         \cup {[op |-> "healthy", h |-> h] : h \in {"a", "b"}}
         \cup {[op |-> "select", set |-> s] : s \in {<<"a", "b">>, <<"b">>}}
         \cup {[op |-> "cleanup"]}
\* mst = set of servers inside their window
FoInit == cfg = [servers |-> FoServers] /\ mst = {} /\ hist = <<>>
FoDown(d, e) == CASE e.op = "fail" -> IF NoTrip(e.err) THEN d ELSE d \cup {e.h}
                  [] e.op = "healthy" -> d \ {e.h}
                  [] OTHER -> d
FoNext == /\ Len(hist) < N
          /\ \E e \in FoOps : mst' = FoDown(mst, e) /\ hist' = Append(hist, e)
          /\ UNCHANGED cfg
FoEmit == (Family = "fo" /\ Len(hist) = N) => EmitProg(hist)

\* ===========================================================================
\* rec: the recovery loop as a machine (server choice nondeterministic), K servers, scripts up to length N
\* ===========================================================================
RecServers(k) == SubSeq(<<[h |-> "a", https |-> TRUE, prio |-> 10], [h |-> "b", https |-> TRUE, prio |-> 20],
                          [h |-> "c", https |-> FALSE, prio |-> 30]>>, 1, k)
RecCfgs == {[servers |-> RecServers(K), maxatt |-> m, base_ms |-> x[1], max_ms |-> x[2], jit |-> x[3],
             ros |-> <<429, 500, 502, 503, 504>>, timeout_ms |-> 5000] :
              m \in 1..(IF Tier = "quick" THEN 3 ELSE 4),
              x \in IF Tier = "quick" \/ N >= 4 THEN {<<100, 1000, "0">>, <<400, 500, "0.5">>}
                    ELSE {<<100, 1000, "0">>, <<400, 500, "0.5">>, <<0, 0, "0">>, <<300, 300, "1">>}}
Outs == {[kind |-> "Ok", code |-> 0], [kind |-> "Timeout", code |-> 0], [kind |-> "Hang", code |-> 0],
         [kind |-> "HttpStatus", code |-> 503], [kind |-> "HttpStatus", code |-> 404], [kind |-> "HttpStatus", code |-> 429],
         [kind |-> "InvalidRange", code |-> 0], [kind |-> "ServerUnavailable", code |-> 0]}
Scripts == UNION {[1..k -> Outs] : k \in 0..N}
\* the second call of a program (health persists between calls)
Seconds == IF Tier = "quick" THEN {<<[kind |-> "HttpStatus", code |-> 503], [kind |-> "Ok", code |-> 0]>>}
           ELSE {<<[kind |-> "Ok", code |-> 0]>>, <<[kind |-> "HttpStatus", code |-> 503], [kind |-> "Ok", code |-> 0]>>}
BeyondOut == [kind |-> "Beyond", code |-> 0]
\* mst = [scripts (one per exec), e (index of the running exec), x (RecX), calls, phase, res, t]
RecInit == /\ cfg \in RecCfgs
           /\ mst \in {[scripts |-> <<s1, s2>>, e |-> 1, x |-> RecX0(RecHosts(cfg)), calls |-> <<>>, phase |-> "run",
                       res |-> [kind |-> "none"], down0 |-> {}] : s1 \in Scripts, s2 \in Seconds}
           /\ hist = <<>>
AllSet == [i \in 1..Len(cfg.servers) |-> cfg.servers[i].h]
ExecOp(s) == [op |-> "exec", outs |-> s, set |-> AllSet, urlhost |-> "a", range |-> <<0, 1023>>]
OutAt(s, i) == IF i <= Len(s) THEN s[i] ELSE BeyondOut
RecAttempt ==
  /\ mst.phase = "run" /\ Len(mst.calls) < cfg.maxatt
  /\ \E s \in AvailIn(mst.x, RecHosts(cfg)) :
       LET i == Len(mst.calls) + 1
           o == OutAt(mst.scripts[mst.e], i)
           t == IF i = 1 THEN 0
                ELSE mst.calls[i - 1].t + OutDur(cfg, mst.calls[i - 1].o) + RMin(ScaledLo(cfg, i - 1, <<1, 1>>), cfg.max_ms)
           c == [i |-> i, t |-> t, to |-> s, range_ok |-> TRUE, o |-> o, downBefore |-> mst.x.down]
           done == IsOkOut(o) \/ ~Retryable(cfg, o)
       IN mst' = [mst EXCEPT !.x = Booked(mst.x, s, o), !.calls = Append(@, c),
                           !.phase = IF done THEN "done" ELSE "run",
                           !.res = IF IsOkOut(o) THEN [kind |-> "Ok", id |-> i]
                                   ELSE IF done THEN [kind |-> "Err", err |-> ErrName(o), code |-> IF o.kind = "HttpStatus" THEN o.code ELSE 0]
                                   ELSE @]
  /\ UNCHANGED <<cfg, hist>>
RecGiveUp ==
  /\ mst.phase = "run" /\ (Len(mst.calls) >= cfg.maxatt \/ AvailIn(mst.x, RecHosts(cfg)) = {})
  /\ mst' = [mst EXCEPT !.phase = "done", !.res = [kind |-> "Err", err |-> "Configuration", code |-> 0]]
  /\ UNCHANGED <<cfg, hist>>
RecNextExec ==
  /\ mst.phase = "done" /\ mst.e < Len(mst.scripts)
  /\ mst' = [mst EXCEPT !.e = @ + 1, !.calls = <<>>, !.phase = "run", !.res = [kind |-> "none"], !.down0 = mst.x.down]
  /\ UNCHANGED <<cfg, hist>>
RecNext == RecAttempt \/ RecGiveUp \/ RecNextExec
RecEmit == (Family = "rec" /\ mst.e = 1 /\ mst.phase = "run" /\ mst.calls = <<>>) =>
             EmitProg(<<ExecOp(mst.scripts[1]), ExecOp(mst.scripts[2])>>)
\* the property in its own words over the history of one call
RecBounded   == Family = "rec" => Len(mst.calls) <= cfg.maxatt                                             \* R1
RecBreaker   == Family = "rec" => \A i \in 1..Len(mst.calls) : mst.calls[i].to \notin mst.calls[i].downBefore \* R5/F2
RecNoRepeat  == Family = "rec" => \A i, j \in 1..Len(mst.calls) :                                           \* a tripped server is left alone
                  (i < j /\ mst.calls[i].to = mst.calls[j].to) => (IsOkOut(mst.calls[i].o) \/ NoTrip(mst.calls[i].o))
RecStopsFirst == Family = "rec" => \A i \in 1..(Len(mst.calls) - 1) :                                       \* R2, R3
                  ~IsOkOut(mst.calls[i].o) /\ Retryable(cfg, mst.calls[i].o)
RecResult    == (Family = "rec" /\ mst.phase = "done") =>
                  LET k == Len(mst.calls) IN
                  /\ mst.res.kind = "Ok" <=> (k >= 1 /\ IsOkOut(mst.calls[k].o))
                  /\ (k >= 1 /\ ~IsOkOut(mst.calls[k].o) /\ Retryable(cfg, mst.calls[k].o))
                       => (k = cfg.maxatt \/ AvailIn(mst.x, RecHosts(cfg)) = {})                            \* R4
\* every behaviour of the machine is accepted by the judge (the judge is not vacuously strict)
RecJudgeAccepts ==
  (Family = "rec" /\ mst.phase = "done") =>
    LET hosts == RecHosts(cfg)
        X0 == {[down |-> mst.down0, tot |-> [h \in hosts |-> 0], fl |-> [h \in hosts |-> 0]]}
        \* counts of this call only: the judge sees differences through X0 = zero counts
        xd == [down |-> mst.x.down,
               tot |-> [h \in hosts |-> Cardinality({i \in 1..Len(mst.calls) : mst.calls[i].to = h})],
               fl  |-> [h \in hosts |-> Cardinality({i \in 1..Len(mst.calls) : mst.calls[i].to = h /\ ~IsOkOut(mst.calls[i].o)})]]
        e == [op |-> "exec", set |-> AllSet, urlhost |-> "a", res |-> mst.res,
              obs |-> [srv |-> [h \in hosts |-> <<xd.tot[h], xd.fl[h], 0>>]]]
    IN RecExplained(cfg, X0, e, mst.calls, TRUE, TRUE) # {}
RecNeverStuck == (Family = "rec" /\ mst.phase = "run") => ENABLED RecNext

\* ===========================================================================
\* pool: all histories of length N over two servers, limit K
\* ===========================================================================
PoolCfg == [per_host |-> K, total |-> 2 * K, hosts |-> <<"a", "b">>]
PoolOps(s) ==
  {[op |-> "add", h |-> h] : h \in {"a", "b"}} \cup {[op |-> "get", h |-> h] : h \in {"a", "b"}}
  \cup {[op |-> "drop", g |-> g] : g \in {x[1] : x \in s.live}}
  \cup {[op |-> "remove", h |-> "a"]}
  \cup (IF Tier = "quick" THEN {} ELSE {[op |-> "advance", ms |-> 31000], [op |-> "check", fail |-> <<"b">>]})
\* the result a correct pool gives (no real time passes in these programs)
PoolRes(s, e) == IF e.op = "get" THEN (IF GetMayOk(s, PoolCfg, e.h) THEN [kind |-> "Ok", g |-> s.nextg + 1] ELSE [kind |-> "Err"])
                 ELSE [kind |-> "Ok"]
PoolObsOf(s) == [srv |-> [h \in DOMAIN s.reg |-> <<s.reg[h], s.cnt[h][1], s.cnt[h][2], s.cnt[h][3]>>], m |-> s.m]
PoolInit == cfg = PoolCfg /\ mst = PoolSt0(PoolCfg) /\ hist = <<>>
PoolStep ==
  /\ Len(hist) < N
  /\ \E e0 \in PoolOps(mst) :
       LET e == (e0 @@ [res |-> PoolRes(mst, e0)]) @@ [obs |-> PoolObsOf(mst)] IN
       /\ (hist = <<>> => e0.op = "add")          \* nothing interesting happens before the first registration
       /\ mst' = PoolNext(mst, PoolCfg, e) /\ hist' = Append(hist, e0)
  /\ UNCHANGED cfg
PoolEmit == (Family = "pool" /\ Len(hist) = N) => EmitProg(hist)
\* L1, L2 in their own words
PoolLimit == Family = "pool" => \A h \in {"a", "b"} : LiveOn(mst, h) <= K
PoolReuse == Family = "pool" => \A h \in {"a", "b"} :
               (mst.reg[h] = "H" /\ LiveOn(mst, h) < K) => GetMayOk(mst, PoolCfg, h) /\ ~GetMayErr(mst, PoolCfg, h)
PoolGuardIds == Family = "pool" => \A g \in mst.live : g[1] \in 1..mst.nextg

\* ===========================================================================
\* brk: the circuit breaker - every success/failure pattern of N records, then probes
\* ===========================================================================
BrkInit == /\ cfg = [per_host |-> 2, total |-> 4, hosts |-> <<"a", "b">>]
           /\ mst \in [1..N -> BOOLEAN] /\ hist = <<>>
BrkOps == <<[op |-> "add", h |-> "a"]>> \o [i \in 1..N |-> [op |-> "record", h |-> "a", ok |-> mst[i]]]
          \o <<[op |-> "get", h |-> "a"], [op |-> "record", h |-> "a", ok |-> FALSE], [op |-> "get", h |-> "a"],
               [op |-> "record", h |-> "a", ok |-> TRUE], [op |-> "get", h |-> "a"], [op |-> "advance", ms |-> 31000],
               [op |-> "get", h |-> "a"], [op |-> "check", fail |-> <<>>], [op |-> "get", h |-> "a"],
               [op |-> "check", fail |-> <<"a">>], [op |-> "get", h |-> "a"], [op |-> "add", h |-> "a"], [op |-> "get", h |-> "a"]>>
BrkEmit == Family = "brk" => EmitProg(BrkOps)
\* L4 in its own words on the model: replaying the records, the circuit is open exactly from the first failure
\* recorded with >= 10 results on record and fewer than half of them successes
RECURSIVE BrkReplay(_, _, _)
BrkReplay(s, i, n) == IF i > n THEN s
                      ELSE BrkReplay(PoolNext(s, cfg, [op |-> "record", h |-> "a", ok |-> mst[i]]), i + 1, n)
BrkShape ==
  Family = "brk" =>
    LET s0 == PoolNext(PoolSt0(cfg), cfg, [op |-> "add", h |-> "a"])
        succ(n) == Cardinality({i \in 1..n : mst[i]})
        tripAt(n) == ~mst[n] /\ n >= 10 /\ 2 * succ(n) < n
    IN \A n \in 0..N : (BrkReplay(s0, 1, n).reg["a"] = "O") <=> (\E j \in 1..n : tripAt(j))

\* ===========================================================================
\* cdn: K servers, every assignment of behaviours x priority patterns x {whole resource, a range}
\* ===========================================================================
CdnBehs == IF Tier = "quick" THEN {"ok206", "ok200", "h404", "h503", "close"}
           ELSE {"ok206", "ok200", "h404", "h429", "h500", "h503", "close"}
CdnPrios == IF Tier = "quick" THEN {<<10, 20, 30>>, <<20, 10, 10>>} ELSE {<<10, 20, 30>>, <<20, 10, 10>>, <<30, 20, 10>>, <<10, 10, 10>>}
CdnNames == <<"a", "b", "c">>
CdnInit == /\ cfg \in {[servers |-> [i \in 1..K |-> [h |-> CdnNames[i], prio |-> pr[i], beh |-> b[i]]]] : pr \in CdnPrios, b \in [1..K -> CdnBehs]}
           /\ mst \in {<<>>, <<2, 5>>, <<30, 31>>} /\ hist = <<>>
CdnEmit == Family = "cdn" => EmitProg(<<[op |-> "get", range |-> mst]>>)
\* H1/H2 in their own words over the permitted outcomes: servers before the answering one all fail (or ignore the
\* range), the answer is the wanted bytes, an error means nobody could answer with the wanted bytes for certain
CdnWalkShape ==
  Family = "cdn" =>
    /\ CdnChains(cfg) # {}
    /\ \A chain \in CdnChains(cfg) :
         /\ \A i \in 1..(Len(chain) - 1) : chain[i].prio <= chain[i + 1].prio
         /\ {chain[i].h : i \in 1..Len(chain)} = {cfg.servers[i].h : i \in 1..Len(cfg.servers)}
         /\ \A w \in {x \in CdnWalk(chain, mst, 1) : x.dev = ""} :
              /\ \A j \in 1..(w.n - 1) : CdnFails(chain[j].beh) \/ (chain[j].beh = "ok200" /\ mst # <<>>)
              /\ w.ok => ~CdnFails(chain[w.n].beh) /\ w.body = Wanted(mst)
              /\ ~w.ok => \A j \in 1..Len(chain) : chain[j].beh # "ok206" /\ (chain[j].beh = "ok200" => mst # <<>>)
         /\ \E w \in CdnWalk(chain, mst, 1) : w.dev = ""
\* the wanted bytes are what RangePlan calls the body of the range (the resource is "byte x = x")
CdnWantedIsBody == Family = "cdn" => (mst # <<>> => Wanted(mst) = Body(mst))

\* ===========================================================================
MCInit == CASE Family = "plan" -> PlanInit [] Family = "ctor" -> CtorInit [] Family = "rm" -> RmInit
            [] Family = "fo" -> FoInit [] Family = "rec" -> RecInit [] Family = "pool" -> PoolInit [] Family = "brk" -> BrkInit
            [] Family = "cdn" -> CdnInit
MCNext == CASE Family = "fo" -> FoNext [] Family = "rec" -> RecNext [] Family = "pool" -> PoolStep
            [] OTHER -> UNCHANGED vars
Emit == PlanEmit /\ CtorEmit /\ RmEmit /\ FoEmit /\ RecEmit /\ PoolEmit /\ BrkEmit /\ CdnEmit
=============================================================================
