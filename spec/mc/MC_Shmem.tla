------------------------------ MODULE MC_Shmem ------------------------------
(***************************************************************************)
(* Bounded exploration of Shmem.tla and generation of programs (binding G) *)
(*                                                                         *)
(* Family "proto": every process runs a role (a straight-line composition  *)
(* of the crate's primitives, see Shmem.tla); TLC explores ALL             *)
(* interleavings of the calls that touch shared state (local calls are     *)
(* taken immediately - they commute with everything) and all crash points  *)
(* (at most MaxCrash SIGKILLs), checks the protocol invariants on every    *)
(* reachable state and prints every complete schedule as a PROGRAM (the    *)
(* history variable makes each schedule a state).  With DV = {} the model  *)
(* is the ideal one (the invariants must hold); with DV = a finding the    *)
(* code-shaped variant must be REFUTED (anti-vacuity of the invariants;    *)
(* the counterexample is that finding at the level of the model).          *)
(*                                                                         *)
(* Other families: complete operation sequences of length D over an        *)
(* alphabet behind a fixed prefix, as in MC_Lru.                           *)
(***************************************************************************)
EXTENDS Shmem, Json

CONSTANTS Family,     \* "proto" | "tab" | "cb" | "reg" | "regx" | "mgr" | "msg" | "paths"
          R1, R2, R3, \* proto: role name per process ("" = no such process)
          Slots,      \* max_slots of the PID table the creators ask for
          MaxCrash,   \* proto / mgr: number of SIGKILLs
          D,          \* sequence families: program length
          DV          \* {} = ideal; otherwise the code-shaped behaviour of these findings
VARIABLES st, pc, hist, ncr, okb, gh

Roles == IF R3 # "" THEN <<R1, R2, R3>> ELSE IF R2 # "" THEN <<R1, R2>> ELSE <<R1>>
N == IF Family = "proto" THEN Len(Roles) ELSE IF Family \in {"tab", "mgr"} THEN 3 ELSE 1
I(x) == [i |-> x]

(* ------------------------------- roles ---------------------------------- *)
Lay(name) ==
  CASE name = "4"  -> [ver |-> 4, hp |-> FALSE, sz |-> V4Size]
    [] name = "5"  -> [ver |-> 5, hp |-> FALSE, sz |-> V5Size]
    [] name = "5p" -> [ver |-> 5, hp |-> TRUE,  sz |-> V5PSize]
Att(l, mode) == <<[i |-> "open", sz |-> Lay(l).sz], I("acquire"), I("load"), [i |-> "init", lay |-> l], I("resize"), I("bind"),
                  [i |-> "add", mode |-> mode], I("store?"), I("release")>>
Det == <<I("acquire"), I("load"), I("remove"), I("store"), I("release")>>
RoleProg(r) ==
  CASE r = "att5p_w"   -> Att("5p", 5)
    [] r = "att5p_r"   -> Att("5p", 2)
    [] r = "att4_w"    -> Att("4", 5)
    [] r = "att5_w"    -> Att("5", 5)
    [] r = "ad5p_w"    -> Att("5p", 5) \o Det
    [] r = "ad5p_r"    -> Att("5p", 2) \o Det
    [] r = "add5p_w"   -> Att("5p", 5) \o Det \o Det                    \* detach twice
    [] r = "ad4_w"     -> Att("4", 5) \o Det
    [] r = "rd5p"      -> <<[i |-> "open", sz |-> V5PSize], I("load"), I("sum"), I("load")>>
    [] r = "rd4"       -> <<[i |-> "open", sz |-> V4Size], I("load"), I("sum")>>
    [] r = "probe5p"   -> <<[i |-> "open", sz |-> V5PSize], [i |-> "poke", off |-> 14336, v |-> 9], [i |-> "poke", off |-> 8192, v |-> 7],
                            [i |-> "peek", off |-> 14336], I("sum"), [i |-> "peek", off |-> 8192]>>
    [] r = "open4"     -> <<[i |-> "open", sz |-> V4Size], I("load")>>
    [] r = "open5"     -> <<[i |-> "open", sz |-> V5Size], I("load")>>
    [] r = "excl5p"    -> <<[i |-> "open", sz |-> V5PSize], I("acquire"), I("load"), [i |-> "init", lay |-> "5p"], I("resize"), I("exclT"), I("store"), I("release"),
                            I("acquire"), I("load"), I("exclF"), I("store"), I("release")>>
    [] r = "lockonly"  -> <<I("acquire"), I("release")>>
    [] r = "lock2"     -> <<I("acquire"), I("release"), I("acquire"), I("release")>>
Prog(p) == RoleProg(Roles[p])
IsLocal(ins) == ins.i \in {"init", "bind", "add", "remove", "exclT", "exclF"}

Concrete(p, ins) ==
  LET me == st.pr[p] cb == me.cb o(x) == [p |-> p, op |-> x] skip == [p |-> p, op |-> "skip"] IN
  CASE ins.i = "open"   -> [p |-> p, op |-> "open", sz |-> ins.sz]
    [] ins.i = "init"   -> IF ~cb.some \/ ~Valid(cb)
                           THEN [p |-> p, op |-> "create", ver |-> Lay(ins.lay).ver, hp |-> Lay(ins.lay).hp, slots |-> Slots, ds |-> 7]
                           ELSE skip
    [] ins.i = "resize" -> IF cb.some /\ FileSize(cb) # me.map THEN [p |-> p, op |-> "open", sz |-> FileSize(cb)] ELSE skip
    [] ins.i = "add"    -> IF okb[p] THEN [p |-> p, op |-> "add", mode |-> ins.mode] ELSE skip
    [] ins.i = "store?" -> IF okb[p] THEN o("store") ELSE skip
    [] ins.i = "exclT"  -> IF cb.some /\ (~cb.hp \/ cb.pt.tc = 0) THEN [p |-> p, op |-> "excl", on |-> TRUE] ELSE skip
    [] ins.i = "exclF"  -> [p |-> p, op |-> "excl", on |-> FALSE]
    [] ins.i = "poke"   -> [p |-> p, op |-> "poke", off |-> ins.off, v |-> ins.v]
    [] ins.i = "peek"   -> [p |-> p, op |-> "peek", off |-> ins.off]
    [] OTHER            -> o(ins.i)

Gh0 == [att |-> {}, mixed |-> FALSE, boundexcl |-> FALSE, icells |-> [c \in CellOffs |-> 0]]
GhAfter(op, x) ==
  LET p == op.p IN
  CASE op.op = "store" /\ x.res.r = "ok" ->
         [gh EXCEPT !.att = IF \E t \in st.pr[p].cb.pt.occ : t[2] = p /\ st.pr[p].cb.hp THEN @ \cup {p} ELSE @ \ {p}]
    [] op.op = "load" /\ x.res.r = "some" ->
         [gh EXCEPT !.mixed = @ \/ (st.reg.ver = 5 /\ x.res.hp # st.reg.hp)]
    [] op.op = "bind" /\ x.res.r = "ok" ->
         [gh EXCEPT !.boundexcl = @ \/ (st.lock = p /\ st.reg.ver = 5 /\ st.reg.ea % 2 = 1)]
    [] op.op = "poke" /\ x.res.r = "ok" -> [gh EXCEPT !.icells[op.off] = op.v]
    [] OTHER -> gh

Runnable(p) == st.pr[p].alive /\ pc[p] <= Len(Prog(p))
\* an open of an existing region with exactly its size changes nothing shared in either semantics: taken at once, too
QuietOpen(p, ins) == ins.i = "open" /\ st.reg.exists /\ ins.sz = st.reg.size
LocalNext(p) == Runnable(p) /\ ~st.pr[p].wait /\ (IsLocal(Prog(p)[pc[p]]) \/ QuietOpen(p, Prog(p)[pc[p]]))
Step(p) ==
  /\ Runnable(p)
  /\ (\E q \in 1..N : LocalNext(q)) => (LocalNext(p) /\ \A q \in 1..(p - 1) : ~LocalNext(q))
  /\ LET op == IF st.pr[p].wait THEN [p |-> p, op |-> "granted"] ELSE Concrete(p, Prog(p)[pc[p]]) IN
     IF op.op = "skip" THEN pc' = [pc EXCEPT ![p] = @ + 1] /\ UNCHANGED <<st, hist, ncr, okb, gh>>
     ELSE LET x == Apply(st, op, DV) IN
          /\ op.op = "granted" => LockFree(st, DV)
          /\ (op.op = "acquire" /\ ~LockFree(st, DV)) => \A q \in 1..N : ~st.pr[q].wait      \* one waiter at a time
          /\ st' = x.st /\ hist' = Append(hist, op)
          /\ pc' = IF x.res.r = "blocked" THEN pc ELSE [pc EXCEPT ![p] = @ + 1]
          /\ okb' = IF op.op = "bind" THEN [okb EXCEPT ![p] = x.res.r = "ok"] ELSE okb
          /\ gh' = GhAfter(op, x)
          /\ UNCHANGED ncr
Crash(p) ==
  /\ ncr < MaxCrash /\ st.pr[p].alive /\ pc[p] > 1 /\ ~LocalNext(p) /\ ~\E q \in 1..N : LocalNext(q)
  /\ st' = Apply(st, [p |-> p, op |-> "crash"], DV).st
  /\ hist' = Append(hist, [p |-> p, op |-> "crash"])
  /\ ncr' = ncr + 1 /\ UNCHANGED <<pc, okb, gh>>

AllDone == \A p \in 1..N : ~Runnable(p)
\* a final audit by every survivor: what does it see now, is its mapping still good
Audit == LET RECURSIVE A(_)
             A(p) == IF p > N THEN <<>>
                     ELSE (IF st.pr[p].alive /\ st.pr[p].map > 0 THEN <<[p |-> p, op |-> "load"], [p |-> p, op |-> "sum"]>> ELSE <<>>) \o A(p + 1)
         IN A(1)

(* --------------------------- sequence families -------------------------- *)
P1(x) == [p |-> 1, op |-> x]
Pre ==
  CASE Family = "tab" -> <<[p |-> 1, op |-> "open", sz |-> V5PSize], [p |-> 1, op |-> "create", ver |-> 5, hp |-> TRUE, slots |-> Slots, ds |-> 7]>>
    [] Family = "cb"  -> <<[p |-> 1, op |-> "open", sz |-> V5PSize]>>
    [] Family = "reg" -> <<[p |-> 1, op |-> "mnew", id |-> 1, nm |-> "a", sz |-> 4096, maxc |-> Slots, tmo |-> 3600000]>>
    [] Family = "regx" -> <<[p |-> 1, op |-> "mnew", id |-> 1, nm |-> "a", sz |-> 4096, maxc |-> Slots, tmo |-> 1]>>
    [] OTHER -> <<>>
Alphabet ==
  CASE Family = "tab" ->
         {[p |-> 1, op |-> "add", mode |-> 5], [p |-> 1, op |-> "add", mode |-> 2, as |-> 2], [p |-> 1, op |-> "add", mode |-> 5, as |-> 3],
          [p |-> 1, op |-> "remove"], [p |-> 1, op |-> "remove", as |-> 2], P1("store"), P1("load"), P1("recount"),
          [p |-> 1, op |-> "poke32", off |-> StOff, v |-> 2], [p |-> 1, op |-> "poke32", off |-> LmsOff, v |-> 1]}
    [] Family = "cb" ->
         {[p |-> 1, op |-> "create", ver |-> 4, hp |-> FALSE, slots |-> 0, ds |-> 7], [p |-> 1, op |-> "create", ver |-> 5, hp |-> FALSE, slots |-> 0, ds |-> 7],
          [p |-> 1, op |-> "create", ver |-> 5, hp |-> TRUE, slots |-> Slots, ds |-> 7], [p |-> 1, op |-> "create", ver |-> 5, hp |-> TRUE, slots |-> Slots, ds |-> 0],
          [p |-> 1, op |-> "create", ver |-> 6, hp |-> FALSE, slots |-> 0, ds |-> 7],
          [p |-> 1, op |-> "excl", on |-> TRUE], [p |-> 1, op |-> "excl", on |-> FALSE], [p |-> 1, op |-> "setds", v |-> 0],
          P1("store"), P1("load"), P1("bind"), [p |-> 1, op |-> "poke32", off |-> EaOff, v |-> 6], [p |-> 1, op |-> "peek32", off |-> EaOff]}
    [] Family \in {"reg", "regx"} ->
         {[p |-> 1, op |-> "reg", id |-> 1], [p |-> 1, op |-> "unreg", id |-> 1, cid |-> 1], [p |-> 1, op |-> "unreg", id |-> 1, cid |-> 2],
          [p |-> 1, op |-> "unreg", id |-> 1, cid |-> 3], [p |-> 1, op |-> "touch", id |-> 1, cid |-> 1], [p |-> 1, op |-> "touch", id |-> 1, cid |-> 2],
          [p |-> 1, op |-> "stats", id |-> 1], [p |-> 1, op |-> "nextid", id |-> 1]}
         \cup (IF Family = "reg" THEN {[p |-> 1, op |-> "cleanup", id |-> 1]} ELSE {[p |-> 1, op |-> "cleanup", id |-> 1, sleep_ms |-> 25]})
    [] Family = "mgr" ->
         UNION {{[p |-> p, op |-> "mnew", id |-> 1, nm |-> "a", sz |-> 4096, maxc |-> 2, tmo |-> 3600000], [p |-> p, op |-> "mdrop", id |-> 1],
                 [p |-> p, op |-> "mwrite", id |-> 1, kind |-> "ka", mid |-> p, n |-> 3], [p |-> p, op |-> "mread", id |-> 1, sz |-> 52],
                 [p |-> p, op |-> "exit"], [p |-> p, op |-> "crash"]} : p \in 1..3}
    [] Family = "msg" ->
         {[p |-> 1, op |-> "msg_rt", kind |-> k, mid |-> 3, n |-> n] :
             k \in {"freq", "fid", "fresp", "nf", "sreq", "sgen", "sresp", "ka", "raw"}, n \in {0, 1, 10, 1000}}
         \cup {[p |-> 1, op |-> "msg_rt", kind |-> "fresp", mid |-> 3, n |-> n] : n \in {MaxPayload - 28, MaxPayload - 27}}
         \cup {[p |-> 1, op |-> "msg_rt", kind |-> "sresp", mid |-> 3, n |-> n] : n \in {MaxPayload - 32, MaxPayload - 31}}
         \cup {[p |-> 1, op |-> "msg_parse", kind |-> k, n |-> n, lenv |-> v, cut |-> c] :
                 k \in {"freq", "fresp", "sreq", "sresp"}, n \in {0, 10},
                 v \in {0, 9, 10, 11, 65536, MaxPayload, MaxPayload + 1, 536870912, 2147483647}, c \in {0, 1}}
    [] Family = "paths" -> {P1("paths")}
    [] OTHER -> {}
\* prune sequences that only repeat an error or a read (IF, not \/: inside the next-state relation TLC explores
\* every disjunct)
Last == IF hist = <<>> THEN [p |-> 0, op |-> "none"] ELSE hist[Len(hist)]
Sensible(op) ==
  IF Family = "mgr" THEN
     IF ~st.pr[op.p].alive THEN FALSE
     ELSE IF op.op = "mnew" THEN ~HasMgr(st.mg, op.p, 1)
     ELSE IF op.op = "crash" THEN ncr < MaxCrash /\ HasMgr(st.mg, op.p, 1)
     ELSE IF op.op = "exit" THEN ncr < MaxCrash /\ HasMgr(st.mg, op.p, 1)
     ELSE IF op.op = "mread" THEN HasMgr(st.mg, op.p, 1) /\ Last # op
     ELSE HasMgr(st.mg, op.p, 1)
  ELSE IF Family \in {"tab", "cb"} THEN (IF op.op \in {"add", "remove"} THEN TRUE ELSE Last # op)
  ELSE TRUE
RECURSIVE Fold(_, _, _)
Fold(s, q, i) == IF i > Len(q) THEN s ELSE Fold(Apply(s, q[i], DV).st, q, i + 1)
SeqNext ==
  /\ Len(hist) < D
  /\ \E op \in Alphabet :
       /\ Sensible(op)
       /\ st' = Apply(st, op, DV).st /\ hist' = Append(hist, op)
       /\ ncr' = IF op.op \in {"crash", "exit"} THEN ncr + 1 ELSE ncr
  /\ UNCHANGED <<pc, okb, gh>>

(* ------------------------------ the model ------------------------------- *)
MCInit == /\ st = (IF Family = "proto" THEN St0(N) ELSE Fold(St0(N), Pre, 1))
          /\ pc = [p \in 1..N |-> 1] /\ hist = <<>> /\ ncr = 0 /\ okb = [p \in 1..N |-> TRUE] /\ gh = Gh0
MCNext == IF Family = "proto" THEN \E p \in 1..N : Step(p) \/ Crash(p) ELSE SeqNext

\* protocol invariants (proto)
InvFault   == NoFault(st)                                                            \* R1
InvStuck   == NoStuck(st, DV)                                                        \* L2
InvTable   == TableOK(st)                                                            \* S1
InvLost    == \A p \in gh.att : st.pr[p].alive => \E t \in st.reg.pt.occ : t[2] = p  \* S1: no living attached process loses its slot
InvLayout  == ~gh.mixed                                                              \* V1
InvExcl    == ~gh.boundexcl                                                          \* E1
InvCells   == st.reg.exists => \A c \in CellOffs : st.reg.cells[c] = gh.icells[c]    \* R1: nothing written is lost
InvMutex   == st.lock # 0 => \A p \in 1..N : (p # st.lock /\ st.pr[p].alive /\ st.pr[st.lock].alive) => TRUE   \* L1 is structural here; judged on the real code by T_Shmem

FamTag == IF Family = "proto" THEN "proto" ELSE IF Family \in {"tab", "cb"} THEN "rt" ELSE IF Family \in {"reg", "regx", "mgr"} THEN "mgr" ELSE Family
Emit ==
  IF Family = "proto"
  THEN AllDone => PrintT(<<"PROGRAM", ToJson([fam |-> "proto", n |-> N, ops |-> hist \o Audit])>>)
  ELSE Len(hist) = D => PrintT(<<"PROGRAM", ToJson([fam |-> FamTag, n |-> N, ops |-> Pre \o hist])>>)
=============================================================================
