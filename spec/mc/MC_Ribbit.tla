----------------------------- MODULE MC_Ribbit -----------------------------
(***************************************************************************)
(* Bounded instances of Ribbit.tla.                                        *)
(*                                                                         *)
(*  Family "model": the state machine itself - 3 connections, every        *)
(*    request class, no state constraint; TLC checks the safety invariants *)
(*    and, with weak fairness of the server tasks only, the liveness       *)
(*    properties (SPECIFICATION MCSpec).                                   *)
(*  The other families generate programs (binding G): every initial state  *)
(*    is one program = database + configuration + client steps, printed by *)
(*    the invariant Emit.                                                  *)
(*    fields  - one build; every pair of (field, grid value) deviations    *)
(*              from a plain record; all transports x endpoints            *)
(*    sample  - seeded sample of the full cross product of the grids       *)
(*    newest  - 1..K builds of one product with every assignment of        *)
(*              build_time strings, optionally one poisoned build          *)
(*    unknown - unknown products / endpoints through the own clients       *)
(*    conc    - two raw connections with malformed requests, every         *)
(*              interleaving of their open / send / finish steps with a    *)
(*              valid probe (the interleaving is enumerated by TLC from    *)
(*              the client actions Connect, Send, Close of Ribbit.tla)     *)
(*    slow    - requests that are never terminated, 1 or Many sockets      *)
(*    flood   - more connections than the process has descriptors          *)
(***************************************************************************)
EXTENDS Ribbit, TLC, Json

CONSTANTS Family, Tier, Seed, NSample, KMax, Many, FloodN

VARIABLES prog,    \* the program of this behaviour (generator families)
          hist,    \* client steps taken so far (family "conc")
          probes   \* number of probes placed so far (family "conc")

T0 == "2024-01-01T00:00:00+00:00"
BasePath == "tpr/wow"
BaseCfg  == [hosts |-> "cdn.example.com", path |-> BasePath]
Base == [id |-> 1, product |-> "wow", version |-> "1.14.2.42597", build |-> "42597", bc |-> H1, cc |-> H2,
         keyring |-> <<>>, pc |-> <<>>, time |-> T0, cdn_path |-> <<>>]
Other == [id |-> 9, product |-> "wow_classic", version |-> "2.5.4.44833", build |-> "44833", bc |-> H4, cc |-> H2,
          keyring |-> <<>>, pc |-> <<>>, time |-> T0, cdn_path |-> <<"tpr/wow_classic">>]

\* ---- grids per field (sequences, so that the sampler can index them) -----
VersionSeq == << "1.14.2.42597", " 1.0", "1.0 ", "1.0\r", "#1.0", "1.0\tx", "1.0|beta", "1.0\n2.0", Inject, "café",
                 E200, "x" \o E200, "Checksum: aaaaaaaaaaaaaaaaaaaaaaaaaaaaaaaaaaaaaaaaaaaaaaaaaaaaaaaaaaaaaaaa" >>
BuildSeq   == << "42597", "0", "-5", "007", "9223372036854775807", "abc", "1.5", " 7", "99999999999999999999" >>
KeySeq     == << <<>>, <<"">>, <<H3>>, <<HU>>, <<"abcdef">>, <<"zz">>, <<"abc">> >>
PcSeq      == << <<>>, <<H3>>, <<HU>> >>
BcSeq      == << H1, HU >>
CcSeq      == << H2, HU >>
PathSeq    == << <<>>, <<"tpr/wow_classic">>, <<"">>, <<"tpr/wow ">>, <<"\t">>, <<" tpr/lead">>, <<"a|b">>, <<"tpr/é">> >>
HostSeq    == << "cdn.example.com", "a.example b.example", "h|i" >>
CfgPathSeq == << "tpr/wow", "tpr/cfg ", "p|q" >>
ProductSeq == << "wow", "w|x" >>

\* a deviation slot: <<field, value>>
Slots ==
  {<<"version", v>> : v \in RangeOf(VersionSeq)} \cup {<<"build", v>> : v \in RangeOf(BuildSeq)} \cup
  {<<"keyring", v>> : v \in RangeOf(KeySeq)} \cup {<<"pc", v>> : v \in RangeOf(PcSeq)} \cup
  {<<"bc", v>> : v \in RangeOf(BcSeq)} \cup {<<"cc", v>> : v \in RangeOf(CcSeq)} \cup {<<"cdn_path", v>> : v \in RangeOf(PathSeq)} \cup
  {<<"hosts", v>> : v \in RangeOf(HostSeq)} \cup {<<"path", v>> : v \in RangeOf(CfgPathSeq)} \cup
  {<<"product", v>> : v \in RangeOf(ProductSeq)}

SetB(b, s) ==
  CASE s[1] = "version" -> [b EXCEPT !.version = s[2]] [] s[1] = "build" -> [b EXCEPT !.build = s[2]]
    [] s[1] = "keyring" -> [b EXCEPT !.keyring = s[2]] [] s[1] = "pc" -> [b EXCEPT !.pc = s[2]]
    [] s[1] = "bc" -> [b EXCEPT !.bc = s[2]] [] s[1] = "cc" -> [b EXCEPT !.cc = s[2]] [] s[1] = "cdn_path" -> [b EXCEPT !.cdn_path = s[2]]
    [] s[1] = "product" -> [b EXCEPT !.product = s[2]] [] OTHER -> b
SetC(c, s) == CASE s[1] = "hosts" -> [c EXCEPT !.hosts = s[2]] [] s[1] = "path" -> [c EXCEPT !.path = s[2]] [] OTHER -> c

Q(tr, p, ep) == [op |-> "query", tr |-> tr, product |-> p, ep |-> ep]
AllQueries(p) == << Q("v1", p, "versions"), Q("v1", p, "cdns"), Q("v1", p, "bgdl"),
                    Q("v2", p, "versions"), Q("v2", p, "cdns"), Q("v2", p, "bgdl"),
                    Q("http", p, "versions"), Q("http", p, "cdns"), Q("http", p, "bgdl"), Q("v1", p, "summary") >>

Prog(fam, c, d, steps) == [fam |-> fam, cfg |-> c, db |-> d, steps |-> steps]

\* quick tier: only the endpoints the deviating fields are emitted on (plus one of each kind); thorough: all
Touch(fs, names) == fs \cap names # {}
QueriesFor(p, fs) ==
  IF Tier # "quick" THEN AllQueries(p) ELSE
    (IF Touch(fs, {"version", "build", "keyring", "pc", "bc", "cc", "product"})
     THEN << Q("v1", p, "versions"), Q("v2", p, "versions"), Q("http", p, "versions"), Q("v2", p, "bgdl") >>
     ELSE << Q("v1", p, "versions") >>) \o
    (IF Touch(fs, {"cdn_path", "hosts", "path", "product"})
     THEN << Q("v1", p, "cdns"), Q("v2", p, "cdns"), Q("http", p, "cdns") >>
     ELSE << Q("http", p, "cdns") >>) \o
    (IF Touch(fs, {"product"}) THEN << Q("v1", p, "summary") >> ELSE << >>)

FieldsPrograms ==
  {LET b == SetB(SetB(Base, s1), s2) IN
     Prog("fields", SetC(SetC(BaseCfg, s1), s2), <<b>>, QueriesFor(b.product, {s1[1], s2[1]}))
     : <<s1, s2>> \in {p \in Slots \X Slots : p[1] = p[2] \/ p[1][1] # p[2][1]}}

\* ---- seeded sample of the full cross product ------------------------------
\* program k: a number derived from k and the seed, read as a mixed-radix numeral whose digits index the grids
\* (so the fields vary independently of each other)
Hk(k) == k * 7919 + (Seed % 9973) * 104729
At(q, h) == q[(h % Len(q)) + 1]
\* three programs out of four draw from the values without a separator / with well-typed numbers and hashes only:
\* once such values are refused at start-up (fixes of F15a, F15b, F15d) a program containing one ends there
VersionAdm == SelectSeq(VersionSeq, LAMBDA v : ~Attr(v).sep /\ v # "1.0\r")
BuildAdm   == SelectSeq(BuildSeq, LAMBDA b : b \in {"42597", "0", "007"})
KeyAdm     == << <<>>, <<H3>>, <<HU>> >>
PathAdm    == SelectSeq(PathSeq, LAMBDA p : p = <<>> \/ ~Attr(p[1]).sep)
HostAdm    == SelectSeq(HostSeq, LAMBDA h : ~Attr(h).sep)
CfgPathAdm == SelectSeq(CfgPathSeq, LAMBDA h : ~Attr(h).sep)
SampleProgram(k) ==
  LET adm == k % 4 # 0
      qv == IF adm THEN VersionAdm ELSE VersionSeq   qb == IF adm THEN BuildAdm ELSE BuildSeq
      qk == IF adm THEN KeyAdm ELSE KeySeq           qp == IF adm THEN PathAdm ELSE PathSeq
      qh == IF adm THEN HostAdm ELSE HostSeq         qc == IF adm THEN CfgPathAdm ELSE CfgPathSeq
      qn == IF adm THEN <<"wow">> ELSE ProductSeq
      h1 == Hk(k)                 h2 == h1 \div Len(qv)      h3 == h2 \div Len(qp)      h4 == h3 \div Len(qb)
      h5 == h4 \div Len(qk)       h6 == h5 \div Len(PcSeq)   h7 == h6 \div Len(qh)      h8 == h7 \div Len(qc)
      h9 == h8 \div Len(BcSeq)    h10 == h9 \div Len(CcSeq)
      b == [Base EXCEPT !.version = At(qv, h1), !.cdn_path = At(qp, h2), !.build = At(qb, h3), !.keyring = At(qk, h4),
                        !.pc = At(PcSeq, h5), !.bc = At(BcSeq, h8), !.cc = At(CcSeq, h9), !.product = At(qn, h10)]
      c == [hosts |-> At(qh, h6), path |-> At(qc, h7)]
  IN Prog("sample", c, <<b>>, IF Tier = "quick" THEN QueriesFor(b.product, {"version", "cdn_path"}) ELSE AllQueries(b.product))
SamplePrograms == {SampleProgram(k) : k \in 1..NSample}

\* ---- newest build ----------------------------------------------------------
TsSeq == IF Tier = "quick"
         THEN << "2024-01-01T00:00:00+00:00", "2024-01-01T10:00:00+09:00", "2024-01-01T05:00:00+00:00",
                 "2023-12-31T23:30:00-01:30" >>
         ELSE << "2024-01-01T00:00:00+00:00", "2024-01-01T10:00:00+09:00", "2024-01-01T05:00:00+00:00",
                 "2024-01-01T03:00:00-05:00", "2024-01-01T12:00:00+00:00", "2023-12-31T23:30:00-01:30",
                 "2024-01-01T06:00:00Z" >>
VerI  == << "1.14.2.42597", "11.0.7.58187", "2.5.4.44833" >>
DecI  == << "42597", "58187", "44833" >>
HexI  == << H1, H2, H3 >>
PathI == << <<"tpr/wow">>, <<"tpr/wow_classic">>, <<>> >>
NthBuild(i, ts, poisoned) ==
  [id |-> i, product |-> "wow", version |-> IF poisoned THEN "1.0|beta" ELSE VerI[i],
   build |-> IF poisoned THEN "abc" ELSE DecI[i], bc |-> HexI[i], cc |-> H4,
   keyring |-> IF poisoned THEN <<"zz">> ELSE <<>>, pc |-> <<>>, time |-> ts, cdn_path |-> PathI[i]]
NewestSteps == << Q("v1", "wow", "versions"), Q("v2", "wow", "versions"), Q("http", "wow", "versions"),
                  Q("v2", "wow", "cdns"), Q("http", "wow", "bgdl"), Q("v1", "wow_classic", "versions") >>
NewestPrograms ==
  UNION { { Prog("newest", [hosts |-> "cdn.example.com", path |-> "tpr/cfg"],
                 [i \in 1..k |-> NthBuild(i, TsSeq[f[i]], i = poison)] \o <<Other>>, NewestSteps)
            : f \in [1..k -> 1..Len(TsSeq)], poison \in 0..k }
          : k \in 1..KMax }

\* ---- unknown products / endpoints through the own clients -------------------
UnknownPrograms ==
  { Prog("unknown", BaseCfg, <<Base, Other>>,
         << Q("v1", "nosuch", "versions"), Q("v2", "nosuch", "cdns"), Q("http", "nosuch", "bgdl"),
            Q("v1", "wow", "nosuch"), Q("v2", "wow", "nosuch"), Q("http", "wow", "nosuch"),
            Q("v2", "wow", "summary"), Q("http", "wow", "summary"), Q("v1", "", "versions"),
            Q("v1", "wow", "versions"), Q("http", "wow_classic", "cdns"), Q("v1", "wow", "summary") >>) }

\* ---- malformed requests on raw sockets ---------------------------------------
K(tr, cls) == [tr |-> tr, cls |-> cls]
FastClasses == << K("tcp", "unknown_product"), K("tcp", "unknown_product_v2"), K("tcp", "unknown_endpoint"),
                  K("tcp", "unknown_version"), K("tcp", "wrong_arity_short"), K("tcp", "wrong_arity_long"),
                  K("tcp", "empty"), K("tcp", "eof"), K("tcp", "oversized"), K("tcp", "nonutf8"), K("tcp", "nul"),
                  K("http", "unknown_product"), K("http", "unknown_endpoint"), K("http", "wrong_arity_short"),
                  K("http", "wrong_arity_long"), K("http", "empty"), K("http", "eof"), K("http", "bad_method"),
                  K("http", "oversized"), K("http", "nonutf8"), K("http", "nonutf8_pct"), K("http", "garbage") >>
SlowClasses == << K("tcp", "never_terminated"), K("tcp", "silent"), K("http", "never_terminated"), K("http", "silent") >>
ProbeSeq == << Q("v1", "wow", "versions"), Q("http", "wow", "cdns"), Q("v2", "wow_classic", "versions"),
               Q("http", "wow", "versions"), Q("v1", "wow_classic", "cdns"), Q("v2", "wow", "bgdl") >>
ProbeAt(i) == ProbeSeq[(i % Len(ProbeSeq)) + 1]

Open(c, k, n) == [op |-> "open", c |-> c, tr |-> k.tr, n |-> n]
Snd(c, k)     == [op |-> "send", c |-> c, cls |-> k.cls]
Fin(c)        == [op |-> "finish", c |-> c]

\* class pairs: quick = every class with the class 7 further on (TCP with HTTP for most); thorough = all pairs
NF == Len(FastClasses)
ConcPairs == {<<i, j>> \in (1..NF) \X (1..NF) : Tier # "quick" \/ ((j - i + NF) % NF) = 7}

\* ---- slow / flood ------------------------------------------------------------------
SlowPrograms ==
  { Prog("slow", BaseCfg, <<Base, Other>>,
         << Open(1, SlowClasses[i], n), Snd(1, SlowClasses[i]), ProbeAt(i), ProbeAt(i + 1), Fin(1), ProbeAt(i + 2) >>)
      : i \in 1..Len(SlowClasses), n \in {1, Many} } \cup
  { Prog("slow", BaseCfg, <<Base, Other>>,
         << Open(1, SlowClasses[i], 1), Snd(1, SlowClasses[i]), Open(2, FastClasses[j], 1), ProbeAt(i + j),
            Snd(2, FastClasses[j]), Fin(2), ProbeAt(i + j + 1), Fin(1), ProbeAt(i + j + 2) >>)
      : i \in 1..Len(SlowClasses), j \in {1, 7, 9, 12, 17, 22} } \cup
  { Prog("slow", BaseCfg, <<Base, Other>>,
         << Open(1, SlowClasses[i], 1), Open(2, SlowClasses[j], Many), Snd(2, SlowClasses[j]), Snd(1, SlowClasses[i]),
            ProbeAt(i + j), ProbeAt(i + j + 3), Fin(1), Fin(2), ProbeAt(i + j + 1) >>)
      : i \in 1..Len(SlowClasses), j \in 1..Len(SlowClasses) }

\* more connections than the process has descriptors; the clients then half-close without a request ("eof"), so the
\* server gets rid of every connection as soon as it has accepted it (with "silent" the connections left in the
\* listen backlog are closed in waves of one 10 s read time-out each - up to a minute of server time, depending on
\* how the descriptors happened to be split between client and server ends)
FloodPrograms ==
  { Prog("flood", BaseCfg, <<Base, Other>>,
         << ProbeAt(0), Open(1, K(tr, "eof"), FloodN), Snd(1, K(tr, "eof")), Fin(1),
            ProbeAt(0), ProbeAt(1), ProbeAt(2), ProbeAt(3) >>) : tr \in {"tcp", "http"} }

StaticPrograms ==
  CASE Family = "fields"  -> FieldsPrograms
    [] Family = "sample"  -> SamplePrograms
    [] Family = "newest"  -> NewestPrograms
    [] Family = "unknown" -> UnknownPrograms
    [] Family = "slow"    -> SlowPrograms
    [] Family = "flood"   -> FloodPrograms
    \* one TLC run for every static family (the programs carry their family name)
    [] Family = "static"  -> FieldsPrograms \cup SamplePrograms \cup NewestPrograms \cup UnknownPrograms \cup
                             SlowPrograms \cup FloodPrograms
    [] OTHER -> {}

NoProg == Prog("none", BaseCfg, <<>>, <<>>)
mcvars == <<conn, order, prog, hist, probes>>

\* ---- generator: static families - one initial state per program --------------------
GenInit == Init /\ prog \in StaticPrograms /\ hist = <<>> /\ probes = 0
GenNext == UNCHANGED mcvars

\* ---- generator: family "conc" - TLC enumerates the interleavings -------------------
\* prog.steps carries the class pair as two pseudo steps until the program is complete
ConcInit == /\ Init /\ hist = <<>> /\ probes = 0
            /\ prog \in {[NoProg EXCEPT !.fam = "conc", !.db = <<Base, Other>>, !.steps = <<p[1], p[2]>>] : p \in ConcPairs}
ClassOf(c) == FastClasses[prog.steps[c]]
NProbes == 1
ConcNext ==
  \/ \E c \in Conns :
       \* connections are opened in index order (they are interchangeable)
       \/ /\ \A d \in Conns : d < c => conn[d].st # "idle"
          /\ Connect(c, ClassOf(c).tr) /\ hist' = Append(hist, Open(c, ClassOf(c), 1)) /\ UNCHANGED <<prog, probes>>
       \/ /\ Send(c, [cls |-> ClassOf(c).cls, tr |-> ClassOf(c).tr])
          /\ hist' = Append(hist, Snd(c, ClassOf(c))) /\ UNCHANGED <<prog, probes>>
       \/ /\ conn[c].st = "sent" /\ Close(c) /\ hist' = Append(hist, Fin(c)) /\ UNCHANGED <<prog, probes>>
  \/ /\ probes < NProbes /\ probes' = probes + 1
     /\ hist' = Append(hist, ProbeAt(prog.steps[1] + prog.steps[2] + Len(hist)))
     /\ UNCHANGED <<conn, order, prog>>
ConcDone == probes = NProbes /\ \A c \in Conns : conn[c].st = "done"
ConcProgram == [prog EXCEPT !.cfg = BaseCfg,
                            !.steps = hist \o <<ProbeAt(prog.steps[1] + 2 * prog.steps[2])>>]

Emit == IF Family = "conc"
        THEN ConcDone => PrintT(<<"PROGRAM", ToJson(ConcProgram)>>)
        ELSE Family # "model" => PrintT(<<"PROGRAM", ToJson(prog)>>)

\* every generated database is inside the grid of Ribbit.tla (otherwise the monitor could not judge it)
Graded == Family \notin {"model", "conc"} => DbInGrid(prog.db, prog.cfg)

\* ---- family "model": the state machine -----------------------------------------------
ModelDB  == << NthBuild(1, "2024-01-01T10:00:00+09:00", FALSE), NthBuild(2, "2024-01-01T05:00:00+00:00", FALSE), Other >>
ModelCFG == BaseCfg
ModelReqs ==
  {[cls |-> "valid", tr |-> tr, product |-> "wow", ep |-> ep] : tr \in {"v1", "v2", "http"}, ep \in {"versions", "cdns"}} \cup
  {[cls |-> "valid", tr |-> "v1", product |-> "wow_classic", ep |-> "bgdl"],
   [cls |-> "valid", tr |-> "v1", product |-> "wow", ep |-> "summary"]} \cup
  {[cls |-> "valid", tr |-> tr, product |-> "nosuch", ep |-> "versions"] : tr \in {"v2", "http"}} \cup
  {[cls |-> c, tr |-> tr] : c \in {"wrong_arity_short", "nonutf8", "never_terminated", "silent"}, tr \in {"tcp", "http"}}
ModelInit == Init /\ prog = NoProg /\ hist = <<>> /\ probes = 0
ModelNext == Next /\ UNCHANGED <<prog, hist, probes>>
SH(c) == ServerHandle(c) /\ UNCHANGED <<prog, hist, probes>>
ST(c) == ServerTimeout(c) /\ UNCHANGED <<prog, hist, probes>>
MCSpec == ModelInit /\ [][ModelNext]_mcvars /\ \A c \in Conns : WF_mcvars(SH(c)) /\ WF_mcvars(ST(c))

\* the concretisation tables, printed once for the grid self-check of checks/c15.py
GridDump == PrintT(<<"GRID", ToJson([strs |-> StrTable, dec |-> DecTable, notdec |-> NotDec, hex |-> HexTable,
                                      nothex |-> NotHex, ts |-> TsTable])>>)
=============================================================================
