--------------------------- MODULE MC_MultiLayer ---------------------------
(***************************************************************************)
(* Bounded exhaustive checking of MultiLayer.tla and generation of         *)
(* programs (binding G).  The code-shaped machine is explored over every   *)
(* operation sequence of length <= D of one operation family; each         *)
(* completed call is judged by the property-level Verdict (refinement by   *)
(* invariant), EveryCallReturns / deadlock is checked on the per-call      *)
(* sub-machine, and every complete sequence is printed as a program.       *)
(* Sequences on which the machine predicts that a call never returns are   *)
(* printed (truncated at that call) under the tag HANGPROG.                *)
(***************************************************************************)
EXTENDS MultiLayer, Json

CONSTANTS D,        \* program length
          Family,   \* operation alphabet
          KD,       \* deviations the judge may use (ids of known findings)
          Layout,   \* "md" = memory + disk, "mmd" = memory + memory + disk, "mm" = two memory layers, "mdd" = memory + two disk layers
          Cap0,     \* max_entries of the first layer
          KA, KB,   \* the two key names (Keys = {KA, KB}); the name is the tail of the cache-key string, so
                    \* "a.tmp" / "b.TMP" give disk-layer files with the extension the directory sweep skips
          Policy,   \* eviction policy of the memory layers: "lru" | "victim" (= lru, lfu, fifo or random: the
                    \* check assigns one per program, the victim is open in the model anyway) | "ttl"
          Budget    \* max_memory_bytes of the memory layers (0 = none)
VARIABLE hist

\* substituted for Kinds / Caps in the cfg (a cfg file cannot contain tuples)
MCKinds == CASE Layout = "md" -> <<"mem", "disk">> [] Layout = "mmd" -> <<"mem", "mem", "disk">> [] Layout = "mm" -> <<"mem", "mem">>
             [] Layout = "mdd" -> <<"mem", "disk", "disk">>
MCCaps  == CASE Layout = "md" -> <<Cap0, 1000>> [] Layout = "mmd" -> <<Cap0, 2, 1000>> [] Layout = "mm" -> <<Cap0, 2>>
             [] Layout = "mdd" -> <<Cap0, 1000, 1000>>

MCBudgets  == [i \in 1..Len(MCKinds) |-> IF MCKinds[i] = "mem" THEN Budget ELSE 0]
MCPolicies == [i \in 1..Len(MCKinds) |-> IF MCKinds[i] = "mem" THEN Policy ELSE "lru"]
\* bytes of the named values as the driver concretises them (it logs its own table; this one steers the machine)
MCSizes    == [v1 |-> 17, v2 |-> 17, e |-> 0, bad |-> 24, big |-> 64]     \* "big" is larger than every byte budget used

K1 == KA
Low == NL - 1                  \* 0-based index of the slowest layer
LowLayers == 1..(NL - 1)       \* 0-based indices of the layers below the first

Put(k, v)      == [op |-> "put", k |-> k, v |-> v]
PutL(k, v, i)  == [op |-> "put_layer", k |-> k, v |-> v, layer |-> i]
Get(k)         == [op |-> "get", k |-> k]
GetL(k, i)     == [op |-> "get_layer", k |-> k, layer |-> i]
Prom(k, f, t)  == [op |-> "promote", k |-> k, from |-> f, to |-> t]
Rem(k)         == [op |-> "remove", k |-> k]
Clr            == [op |-> "clear"]

OpsCore ==      \* coherence across layers, eviction of the tiny first layer, the tracker lock
  {Put(k, v) : k \in Keys, v \in Vals} \cup {PutL(k, v, Low) : k \in Keys, v \in Vals}
  \cup {Get(k) : k \in Keys} \cup {Rem(k) : k \in Keys} \cup {Prom(k, Low, 0) : k \in Keys} \cup {Clr}

OpsLayer ==     \* the named-layer operations, every layer, bad indices
  {PutL(k, v, i) : k \in Keys, v \in {"v1"}, i \in 0..NL} \cup {GetL(K1, i) : i \in 0..NL}
  \cup {Prom(k, f, t) : k \in {K1}, f \in 0..NL, t \in 0..Low}
  \cup {Put(k, "v2") : k \in Keys} \cup {Get(k) : k \in Keys} \cup {Rem(K1)}

OpsBatch ==     \* batch calls are element-wise; ttl
  {[op |-> "batch_put", items |-> q] : q \in {<<[k |-> KA, v |-> "v1"], [k |-> KB, v |-> "v2"]>>,
                                               <<[k |-> KA, v |-> "v1"], [k |-> KA, v |-> "v2"]>>,
                                               <<[k |-> KB, v |-> "v1"]>>, <<>>}}
  \cup {[op |-> "batch_get", ks |-> q] : q \in {<<KA, KB>>, <<KB, KA>>, <<KA, KA>>, <<>>}}
  \cup {PutL(k, "v1", Low) : k \in Keys} \cup {Get(k) : k \in Keys} \cup {Rem(KA)}
  \cup {[op |-> "put_ttl", k |-> KA, v |-> v, ttl |-> "long"] : v \in Vals}

OpsTtl ==       \* short TTL + tick (sleep): kept small, every tick costs wall time
  {[op |-> "put_ttl", k |-> k, v |-> "v2", ttl |-> "short"] : k \in Keys}
  \cup {[op |-> "tick"]} \cup {PutL(K1, "v1", Low), Put(K1, "v1"), Get(K1), Prom(K1, Low, 0)}

OpsValid ==     \* validation hooks, corruption / truncation of disk files, the empty value
  {[op |-> "put_val", k |-> K1, v |-> q[1], ck |-> q[2]] : q \in {<<"v1", "v1">>, <<"v1", "v2">>, <<"v2", "v1">>, <<Nil, "v1">>}}
  \cup {[op |-> "get_val", k |-> K1, ck |-> c] : c \in Vals \cup {None}}
  \cup {PutL(K1, v, Low) : v \in Vals} \cup {PutL(K1, "v1", 0), Get(K1)}
  \cup {[op |-> f, k |-> K1] : f \in {"corrupt", "trunc0"}}

OpsFault ==     \* deletion / corruption / change of length of the disk layer's files under every reader
  {[op |-> f, k |-> KA] : f \in FaultOps} \cup {[op |-> f, k |-> KB] : f \in {"corrupt", "delete"}}
  \cup {PutL(k, "v1", Low) : k \in Keys} \cup {Put(KA, "v2")}
  \cup {Get(k) : k \in Keys} \cup {GetL(KA, Low), Prom(KA, Low, 0), Rem(KA)}
  \cup {[op |-> "get_val", k |-> KA, ck |-> "v1"], [op |-> "batch_get", ks |-> <<KA, KB>>]}

OpsFault2 ==    \* a file lost in ONE of two disk layers: the other one still has to answer (layout "mdd")
  {PutL(KA, "v1", i) : i \in 1..2} \cup {[op |-> "delete", k |-> KA, layer |-> i] : i \in 1..2}
  \cup {Get(KA), GetL(KA, 1), [op |-> "get_val", k |-> KA, ck |-> "v1"], [op |-> "batch_get", ks |-> <<KB, KA>>]}

Ops == CASE Family = "core"  -> OpsCore
         [] Family = "layer" -> OpsLayer
         [] Family = "batch" -> OpsBatch
         [] Family = "ttl"   -> OpsTtl
         [] Family = "valid" -> OpsValid
         [] Family = "fault" -> OpsFault
         [] Family = "fault2" -> OpsFault2

\* symmetry breaking on names: key KB / value v2 is not used before KA / v1 has been
Names(e, f) == IF f \in DOMAIN e THEN {e[f]} ELSE {}
Canon(e) ==
  LET usedK == UNION {Names(hist[i], "k") : i \in 1..Len(hist)}
      usedV == UNION {Names(hist[i], "v") : i \in 1..Len(hist)}
  IN /\ ("k" \in DOMAIN e /\ e.k = KB) => (KA \in usedK \/ Family \in {"batch", "fault"})
     /\ ("v" \in DOMAIN e /\ e.v = "v2") => ("v1" \in usedV \/ Family \in {"batch", "layer", "ttl", "fault"} \/ "v1" \notin Vals)

MCInit == MInit /\ hist = <<>>
MCNext ==
  \/ /\ pc = "idle" /\ Len(hist) < D
     /\ \E e \in Ops : Canon(e) /\ (CallAtomic(e) \/ GetCall(e)) /\ hist' = Append(hist, e)
  \/ StepGet /\ UNCHANGED hist
  \/ pc = "idle" /\ Len(hist) = D /\ UNCHANGED <<mvars, hist>>   \* program complete: the only deadlocks left are stuck calls

\* --- checked on the model --------------------------------------------------
Conforms     == Judged(KD) \in ({"ok"} \cup KD)      \* every completed call is accepted (ideal or listed deviation)
ConformsIdeal == Judged({}) = "ok"
Returns      == EveryCallReturns
\* value actually held is never outside fresh + stale bookkeeping (sanity of the ghost)
GhostSane    == \A k \in Keys : ValsAt(L, k) \subseteq g.fresh[k] \cup g.stale[k]

\* --- program output ----------------------------------------------------------
Prog == [kinds |-> Kinds, caps |-> Caps, budgets |-> Budgets, policies |-> Policies, hooks |-> Hooks,
         keys |-> <<KA, KB>>, ops |-> hist]
Emit ==
  /\ (pc = "idle" /\ Len(hist) = D) => PrintT(<<"PROGRAM", ToJson(Prog)>>)
  /\ Stuck => PrintT(<<"HANGPROG", ToJson(Prog)>>)
=============================================================================
