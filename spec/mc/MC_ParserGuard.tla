--------------------------- MODULE MC_ParserGuard ---------------------------
(***************************************************************************)
(* Bounded exhaustive instance of ParserGuard.tla and generator of the     *)
(* field vectors (binding G).                                              *)
(*                                                                         *)
(* Vectors of a format = every assignment of boundary classes to its       *)
(* control fields in which at most W fields differ from "typ" (the value   *)
(* the seed already has), plus the *full product* over the count/size      *)
(* fields (the class of defect named in the property: a count believed     *)
(* before it is checked) when that product has at most FullMax elements.   *)
(* Quick restricts the domains to QuickClasses.                            *)
(*                                                                         *)
(* TLC walks the abstract parser over every vector and checks the          *)
(* property on the ideal design (KnownDeviations = {}); run a second time  *)
(* with the listed deviations it must find the recorded counterexamples.   *)
(* A vector is printed once, when its run finishes (Emit).                 *)
(***************************************************************************)
EXTENDS ParserGuard, TLC, Json

CONSTANTS Fmts,        \* formats (heads of families) enumerated in this run
          W,           \* at most W fields off-typ in the sparse family
          FullMax,     \* size limit of the full product over count fields
          Quick        \* TRUE: reduced domains

VARIABLES fmt, vec, st

QuickClasses == {"typ", "zero", "one", "over", "big", "max", "bad", "len", "keep", "fix", "n:5", "n:6", "n:8", "n:16", "n:3", "n:2", "n:4", "n:65"}
Dom(f) == IF Quick THEN f.dom \cap QuickClasses ELSE f.dom
Neutral(f) == IF f.k = "seal" THEN "keep" ELSE "typ"
Fields(m) == {Row(m)[i] : i \in 1..Len(Row(m))}
CountFields(m) == {f \in Fields(m) : f.k \in {"count", "osize"}}
ByName(m, n) == CHOOSE f \in Fields(m) : f.n = n

RECURSIVE ProdSize(_)
ProdSize(S) == IF S = {} THEN 1 ELSE LET f == CHOOSE x \in S : TRUE IN Cardinality(Dom(f)) * ProdSize(S \ {f})

\* rows with more than ten fields (tvfs, patch index) deviate in at most two fields at a time
WFor(m) == IF Len(Row(m)) > 10 /\ W > 2 THEN 2 ELSE W
\* sparse family: choose the set of fields that deviate, then their classes
Sparse(m) ==
  UNION { { [n \in FieldNames(m) |-> IF n \in S THEN a[n] ELSE Neutral(ByName(m, n))] :
              a \in {b \in [S -> UNION {Dom(f) : f \in Fields(m)}] : \A n \in S : b[n] \in Dom(ByName(m, n)) \ {Neutral(ByName(m, n))}} }
          : S \in {T \in SUBSET FieldNames(m) : Cardinality(T) <= WFor(m)} }
\* full product over the count fields (seal free where there is one)
CNames(m) == {f.n : f \in CountFields(m)} \cup {f.n : f \in {g \in Fields(m) : g.k = "seal"}}
Full(m) ==
  IF ProdSize(CountFields(m)) > FullMax THEN {}
  ELSE { [n \in FieldNames(m) |-> IF n \in CNames(m) THEN a[n] ELSE Neutral(ByName(m, n))] :
           a \in {b \in [CNames(m) -> UNION {Dom(f) : f \in Fields(m)}] : \A n \in CNames(m) : b[n] \in Dom(ByName(m, n))} }
\* names: the full product (every kind x offset x width x length x extension case)
NameVectors(m) ==
  {[kind |-> k, off |-> o, wid |-> w, dlen |-> d, ext |-> x] :
     k \in ByName(m, "kind").dom, o \in ByName(m, "off").dom, w \in ByName(m, "wid").dom,
     d \in ByName(m, "dlen").dom, x \in ByName(m, "ext").dom}
\* the full product over all fields of a row (small rows only)
RECURSIVE ProdUpTo(_, _)
ProdUpTo(m, i) ==
  IF i = 0 THEN {<<>>}
  ELSE {g @@ (Row(m)[i].n :> c) : g \in ProdUpTo(m, i - 1), c \in Row(m)[i].dom}
\* text formats: every literal x unit x site without nesting, every depth x opener without a literal
TextVectors(m) ==
  {[site |-> s, lit |-> l, unit |-> u, depth |-> "none", opener |-> "n:0"] :
     s \in ByName(m, "site").dom, l \in ByName(m, "lit").dom, u \in ByName(m, "unit").dom}
  \cup {[site |-> "n:0", lit |-> "typ", unit |-> "none", depth |-> d, opener |-> o] :
     d \in (IF Quick THEN ByName(m, "depth").dom \ {"n:250000"} ELSE ByName(m, "depth").dom), o \in ByName(m, "opener").dom}
Vectors(m) == IF m = "dirnames" THEN NameVectors(m)
              ELSE IF m \in TextFormats THEN TextVectors(m)
              ELSE IF m \in {"zbsdiff_ctl", "blte_echunk"} THEN ProdUpTo(m, Len(Row(m)))
              ELSE Sparse(m) \cup Full(m)

MCInit == /\ fmt \in Fmts
          /\ vec \in Vectors(fmt)
          /\ st = Init0
MCNext ==
  /\ st.out = "run"
  /\ IF st.i > Len(Row(fmt)) THEN st' = [st EXCEPT !.out = "ok"]
     ELSE st' \in StepR(st, Row(fmt)[st.i], vec, fmt, KnownDeviations)
  /\ UNCHANGED <<fmt, vec>>

\* the property, on the model
FailClosed   == st.out \in {"run", "ok", "err"}
Proportional == st.peak <= AllocBoundKiB(L, Decomp(fmt))
StepsBounded == st.steps <= 2 * Len(Row(fmt)) + L
\* the functional fold used by the trace monitor agrees with the action
FoldAgrees   == st.out # "run" => st \in Finals(fmt, vec, KnownDeviations)

\* run with the listed deviations: every state that breaks the property names the finding whose guard
\* was skipped (the check compares the set of names with the list of known findings)
Witness ==
  (st.out \in {"panic", "abort", "stack"} \/ (st.out # "run" /\ st.peak > AllocBoundKiB(L, Decomp(fmt)))) =>
  PrintT(<<"WITNESS", ToJson([fmt |-> fmt, fid |-> Row(fmt)[st.i].dev, out |-> st.out])>>)

Seal(v) == IF "seal" \in DOMAIN v THEN v["seal"] ELSE "keep"
Emit == st.out # "run" =>
  PrintT(<<"PROGRAM", ToJson([fmt |-> fmt, v |-> vec, seal |-> Seal(vec), model |-> st.out])>>)
=============================================================================
