------------------------------ MODULE MC_Pools ------------------------------
(***************************************************************************)
(* Bounded instances of Pools.tla (X06).                                   *)
(*                                                                         *)
(*  GenInit/GenNext + Emit - binding G: enumerate the programs of family   *)
(*     `Family` (every operation sequence of length 1..D over the family's *)
(*     alphabet, for every configuration of its grid) and print each once  *)
(*     as a PROGRAM for harness/drv_pools.  Results come from the real     *)
(*     run; `aux` carries only what names the next slot / prunes pointless *)
(*     operations, plus the code-shaped bookkeeping of the W* invariants.  *)
(*  TabInit + EmitTab - the streaming decision tables: one program per     *)
(*     configuration with every operation of the table.                    *)
(*  LimInit + EmitLim - scripted programs that fill every pool class       *)
(*     beyond its retention limit and drain it again.                      *)
(*  AllInit = all of the above in one TLC run (the family is a variable    *)
(*     fixed in the initial state).                                        *)
(*  Design level (code-shaped variants against the stated properties; TLC  *)
(*  must REFUTE each, the counterexample is printed as WITNESS and         *)
(*  replayed on the real code):                                            *)
(*     WCapacity (Family "zcp")   a buffer handed out for n has capacity   *)
(*               >= n                                 - refuted: FX06a     *)
(*     WReuse    (Family "sized") P3b availability    - refuted: FX06b     *)
(*     WRefCount (Family "zce")   Z3                  - refuted: FX06c     *)
(***************************************************************************)
EXTENDS Pools, TLC, Json

CONSTANTS Fams,       \* the families of this run: subset of {"ngdp", "tl", "bbp", "zcp", "sized", "zce", "zcr", "zcc", "str", "bg",
                      \*                                          "stream", "limits"}
          F4, F5,     \* families enumerated to depth 4 / 5 (all others: 3)
          Wide        \* TRUE: the full alphabets / grids (thorough tier)

VARIABLES Family,     \* the family of this behaviour (chosen in the initial state, then constant)
          cfg, hist, aux

D == IF Family \in F5 THEN 5 ELSE IF Family \in F4 THEN 4 ELSE 3

RECURSIVE SetToSeqM(_)
SetToSeqM(S) == IF S = {} THEN <<>> ELSE LET x == CHOOSE y \in S : TRUE IN <<x>> \o SetToSeqM(S \ {x})
NoCfg == [none |-> TRUE]
Last == IF hist = <<>> THEN [op |-> "none"] ELSE hist[Len(hist)]

\* ------------------------------------------------------------------ buffer pools
\* aux = [next, held (slot -> capacity the model expects, 0 = unknown), filled, ...]
GetName == IF Family \in {"bbp", "zcp"} THEN "get" ELSE "alloc"
RetName == IF Family \in {"bbp", "zcp"} THEN "ret" ELSE "free"
Sizes == CASE Family = "ngdp" -> IF Wide THEN {0, 100, 16384, 16385, 300000, 8388609} ELSE {100, 16385, 300000}
           [] Family = "tl"   -> IF Wide THEN {100, 1000, 20000, 300000} ELSE {100, 1000, 20000}
           [] Family = "bbp"  -> IF Wide THEN {100, 1000, 60000, 70000} ELSE {100, 1000, 60000}
           [] Family = "zcp"  -> IF Wide THEN {0, 100, 1500, 2000, 2048, 2049} ELSE {100, 1500, 2000}
           [] OTHER -> {}
Foreigns == CASE Family = "ngdp" -> IF Wide THEN {<<0, 0>>, <<20000, 2>>, <<9000000, 0>>} ELSE {<<0, 0>>, <<20000, 2>>}
              [] Family = "tl"   -> IF Wide THEN {<<100, 2>>, <<20000, 0>>, <<0, 0>>, <<300000, 0>>} ELSE {<<100, 2>>, <<20000, 0>>}
              [] Family = "bbp"  -> IF Wide THEN {<<100, 2>>, <<2000, 0>>, <<2000000, 0>>} ELSE {<<100, 2>>, <<2000, 0>>}
              [] Family = "zcp"  -> IF Wide THEN {<<100, 0>>, <<1500, 2>>, <<70000000, 0>>} ELSE {<<100, 0>>, <<1500, 2>>}
              [] Family = "sized" -> {<<20000, 2>>}
              [] OTHER -> {}
MaxHeld == IF Wide THEN 3 ELSE 2
SizedAllocs == IF Wide THEN {<<"config", 100>>, <<"root", 100>>, <<"generic", 100>>, <<"archive", 100>>, <<"encoding", 100>>,
                             <<"download", 300000>>, <<"config", 20000>>}
               ELSE {<<"config", 100>>, <<"root", 100>>, <<"generic", 100>>, <<"archive", 100>>}
PoolOps ==
  (IF Cardinality(DOMAIN aux.held) >= MaxHeld THEN {}
   ELSE IF Family = "sized" THEN {[op |-> "alloc", s |-> aux.next, t |-> p[1], n |-> p[2]] : p \in SizedAllocs}
   ELSE {[op |-> GetName, s |-> aux.next, n |-> n] : n \in Sizes})
  \cup {[op |-> "fill", s |-> s, m |-> 3] : s \in DOMAIN aux.held \ aux.filled}
  \cup {[op |-> RetName, s |-> s] : s \in DOMAIN aux.held}
  \cup {[op |-> "foreign", c |-> p[1], m |-> p[2]] : p \in Foreigns}
  \cup (IF Family \in {"ngdp", "sized"} THEN {[op |-> "warm"]} ELSE {})
  \cup (IF Family \in {"ngdp", "tl", "zcp", "sized"} THEN {[op |-> "clear"]} ELSE {})
  \cup (IF Family = "ngdp" THEN {[op |-> "allocb", n |-> 100]} ELSE {})
  \cup (IF Family = "bbp" /\ cfg.api = "raii" THEN {[op |-> "into", s |-> s] : s \in DOMAIN aux.held \ aux.owned} ELSE {})
PoolEnabled(e) ==
  CASE e.op \in {"warm", "clear", "allocb"} -> Last.op # e.op
    [] OTHER -> TRUE
\* code-shaped bookkeeping for the design-level invariants (zcp: bags, sized: as-is routing)
AsIsSizedPool(t, c) == <<t, c>>
PoolAux0 == [next |-> 1, held |-> EmptyFn, filled |-> {}, owned |-> {}, z |-> ZP0, bad |-> FALSE,
             idle |-> EmptyFn, fresh |-> {}, ub |-> Four(0)]
IdleOf(a, p) == IF p \in DOMAIN a.idle THEN a.idle[p] ELSE 0
\* the capacity the as-is code hands out: a fresh buffer has exactly the request, a pooled one keeps its own unless it must grow
PoolAuxNext(a, e) ==
  LET base == [a EXCEPT !.bad = FALSE] IN
  CASE e.op \in {"alloc", "get"} ->
         IF Family = "zcp" THEN
            LET hit == ZpHit(a.z, e.n)
                c0  == IF hit THEN ZpTop(a.z, e.n) ELSE e.n
                cap == IF c0 >= e.n THEN c0 ELSE Max2p(c0, e.n - c0)       \* clear(); reserve(n - c0)
            IN [base EXCEPT !.next = @ + 1, !.held = FnWith(@, e.s, cap), !.z = ZpGetR(a.z, e.n), !.bad = cap < e.n]
         ELSE IF Family = "sized" THEN
            LET c    == NClassOf(SzOpt(e.t, e.n))
                p    == AsIsSizedPool(e.t, c)
                hit  == IdleOf(a, p) > 0
                must == <<e.t, c>> \in a.fresh
            IN [base EXCEPT !.next = @ + 1, !.held = FnWith(@, e.s, <<e.t, NBuf(c)>>),
                            !.idle = IF hit THEN FnWith(@, p, IdleOf(a, p) - 1) ELSE @,
                            !.ub[c] = IF @ > 0 THEN @ - 1 ELSE @, !.fresh = {q \in @ : q[2] # c}, !.bad = must /\ ~hit]
         ELSE [base EXCEPT !.next = @ + 1, !.held = FnWith(@, e.s, 0)]
    [] e.op = "fill" -> [base EXCEPT !.filled = @ \cup {e.s}]
    [] e.op \in {"free", "ret"} ->
         IF Family = "zcp" THEN [base EXCEPT !.held = FnWithout(@, e.s), !.z = ZpRetR(a.z, a.held[e.s])]
         ELSE IF Family = "sized" THEN
            LET t == a.held[e.s][1] cap == a.held[e.s][2] c == NClassOf(cap)
                p == AsIsSizedPool(FirstOfClass(c), c)                       \* FX06b: the first type of the size class
            IN [base EXCEPT !.held = FnWithout(@, e.s),
                            !.idle = IF IdleOf(a, p) < NMaxPool(c) THEN FnWith(@, p, IdleOf(a, p) + 1) ELSE @,
                            !.fresh = IF a.ub[c] < NMaxPool(c) THEN @ \cup {<<t, c>>} ELSE @, !.ub[c] = @ + 1]
         ELSE [base EXCEPT !.held = FnWithout(@, e.s)]
    [] e.op = "into" -> [base EXCEPT !.owned = @ \cup {e.s}]
    [] e.op = "foreign" -> IF Family = "zcp" THEN [base EXCEPT !.z = ZpRetR(a.z, e.c)] ELSE base
    [] e.op = "clear" -> IF Family = "zcp" THEN [base EXCEPT !.z = ZpClearR(a.z)]
                         ELSE IF Family = "sized" THEN [base EXCEPT !.idle = EmptyFn, !.fresh = {}, !.ub = Four(0)] ELSE base
    [] e.op = "warm" ->
         IF Family = "sized"
         THEN [base EXCEPT !.idle = [p \in {<<CTypes[i], c>> : i \in 1..8, c \in 1..4} |-> Min2p(NMaxPool(p[2]), IdleOf(a, p) + NWarm(p[2]))],
                           !.fresh = @ \cup {<<CTypes[i], c>> : i \in 1..8, c \in 1..4}, !.ub = [c \in 1..4 |-> @[c] + 8 * NWarm(c)]]
         ELSE base
    [] OTHER -> base

\* ------------------------------------------------------------------ zero-copy views
D3 == <<1, 2, 3>>
SlicePairs == IF Wide THEN {<<0, 0>>, <<0, 3>>, <<1, 2>>, <<2, 1>>, <<0, 4>>, <<3, 3>>, <<4, 4>>, <<4, 2>>, <<1, 3>>}
              ELSE {<<0, 0>>, <<0, 3>>, <<1, 2>>, <<2, 1>>, <<0, 4>>, <<3, 3>>}
\* aux = [next, kind (slot -> "e" | "s"), d (slot -> bytes), g (slot -> group), grp (group -> G0-like), ng, bad]
ZceAux0 == [next |-> 2, kind |-> [s \in {1} |-> "e"], d |-> [s \in {1} |-> D3], g |-> [s \in {1} |-> 1], grp |-> [x \in {1} |-> G0],
            ng |-> 1, bad |-> FALSE]
Ents(a) == {s \in DOMAIN a.kind : a.kind[s] = "e"}
ZceOps ==
  (IF Cardinality(DOMAIN aux.kind) >= 3 THEN {}
   ELSE {[op |-> "clone", s |-> s, t |-> aux.next] : s \in DOMAIN aux.kind}
        \cup {[op |-> "slice", s |-> s, t |-> aux.next, a |-> p[1], b |-> p[2]] : s \in Ents(aux), p \in SlicePairs}
        \cup {[op |-> "append", s |-> s, t |-> aux.next, x |-> <<9>>] : s \in Ents(aux)}
        \cup (IF Wide THEN {[op |-> "fromm", s |-> aux.next, d |-> <<>>]} ELSE {}))
  \cup {[op |-> "drop", s |-> s] : s \in DOMAIN aux.kind}
  \cup {[op |-> "info", s |-> s] : s \in DOMAIN aux.kind}
  \cup (IF Wide THEN {[op |-> "expired", s |-> s, ttl |-> t] : s \in Ents(aux), t \in {"zero", "huge"}} ELSE {})
ZceEnabled(e) == CASE e.op = "info" -> Last.op # "info" [] e.op = "expired" -> Last.op # "expired" [] OTHER -> TRUE
ZceAuxNext(a, e) ==
  LET b0 == [a EXCEPT !.bad = FALSE]
      a1 == CASE e.op = "clone" ->
                   LET gg == a.g[e.s] IN
                   [b0 EXCEPT !.next = @ + 1, !.kind = FnWith(@, e.t, a.kind[e.s]), !.d = FnWith(@, e.t, a.d[e.s]), !.g = FnWith(@, e.t, gg),
                              !.grp[gg] = IF a.kind[e.s] = "e" THEN [@ EXCEPT !.ents = @ + 1] ELSE [@ EXCEPT !.sls = @ + 1]]
              [] e.op = "slice" ->      \* the slot number is used up either way; the slice exists only for a valid range (Z2)
                   IF SliceValid(a.d[e.s], e.a, e.b)
                   THEN [b0 EXCEPT !.next = @ + 1, !.kind = FnWith(@, e.t, "s"), !.d = FnWith(@, e.t, SliceOf(a.d[e.s], e.a, e.b)),
                                   !.g = FnWith(@, e.t, a.g[e.s]), !.grp[a.g[e.s]].sls = @ + 1]
                   ELSE [b0 EXCEPT !.next = @ + 1]
              [] e.op \in {"append", "fromm"} ->
                   LET t == IF e.op = "append" THEN e.t ELSE e.s
                       dd == IF e.op = "append" THEN a.d[e.s] \o e.x ELSE e.d IN
                   [b0 EXCEPT !.next = @ + 1, !.kind = FnWith(@, t, "e"), !.d = FnWith(@, t, dd), !.g = FnWith(@, t, a.ng + 1),
                              !.grp = FnWith(@, a.ng + 1, G0), !.ng = @ + 1]
              [] e.op = "drop" ->
                   LET gg == a.g[e.s] IN
                   [b0 EXCEPT !.kind = FnWithout(@, e.s), !.d = FnWithout(@, e.s), !.g = FnWithout(@, e.s),
                              !.grp[gg] = IF a.kind[e.s] = "e" THEN [@ EXCEPT !.ents = @ - 1, !.drops = @ + 1] ELSE [@ EXCEPT !.sls = @ - 1]]
              [] OTHER -> b0
  IN [a1 EXCEPT !.bad = \E s \in Ents(a1) : ~RcIdeal(a1.grp[a1.g[s]], RcAsIs(a1.grp[a1.g[s]]))]

ZcrOps ==
  {[op |-> "seek", t |-> 1, p |-> p] : p \in (IF Wide THEN {0, 2, 3, 4, -1} ELSE {0, 2, 3, 4})}
  \cup {[op |-> "rexact", t |-> 1, n |-> n] : n \in (IF Wide THEN {0, 2, 3, 4, -1} ELSE {0, 2, 3, 4})}
  \cup {[op |-> "peek", t |-> 1, n |-> n] : n \in (IF Wide THEN {0, 1, 3, 4, -1} ELSE {1, 3, 4})}
  \cup {[op |-> "read", t |-> 1, n |-> n] : n \in (IF Wide THEN {0, 1, 2, 5} ELSE {0, 2, 5})}
  \cup {[op |-> "aread", t |-> 1, n |-> n] : n \in (IF Wide THEN {0, 2, 5} ELSE {2})}
  \cup {[op |-> "rrem", t |-> 1]}

\* ------------------------------------------------------------------ ZeroCopyCache
ZccPuts == IF Wide THEN {<<1, <<1>>>>, <<1, <<1, 2, 3>>>>, <<2, <<4, 5>>>>, <<2, <<1, 2, 3, 4, 5>>>>, <<2, <<>>>>}
           ELSE {<<1, <<1>>>>, <<1, <<1, 2, 3>>>>, <<2, <<4, 5>>>>, <<2, <<1, 2, 3, 4, 5>>>>}
ZccOps ==
  {[op |-> "put", k |-> p[1], d |-> p[2]] : p \in ZccPuts}
  \cup (IF Cardinality(aux.held) >= 2 THEN {} ELSE {[op |-> "get", k |-> k, s |-> aux.next] : k \in {1, 2}})
  \cup {[op |-> "gslice", k |-> 1, a |-> p[1], b |-> p[2]] : p \in (IF Wide THEN {<<0, 1>>, <<2, 1>>, <<0, 9>>, <<1, 1>>, <<1, 3>>} ELSE {<<0, 1>>, <<2, 1>>, <<0, 9>>})}
  \cup {[op |-> "greader", k |-> 1], [op |-> "remove", k |-> 1], [op |-> "contains", k |-> 1], [op |-> "clear"],
        [op |-> "compact", ttl |-> "zero"], [op |-> "hot", min |-> 1]}
  \cup (IF Wide THEN {[op |-> "compact", ttl |-> "huge"], [op |-> "hot", min |-> 2], [op |-> "remove", k |-> 2]} ELSE {})
  \cup {[op |-> "drop", s |-> s] : s \in aux.held}
ZccEnabled(e) == CASE e.op \in {"clear", "compact", "hot", "contains"} -> Last.op # e.op [] OTHER -> TRUE
ZccAuxNext(a, e) == CASE e.op = "get"  -> [a EXCEPT !.next = @ + 1, !.held = @ \cup {e.s}]
                      [] e.op = "drop" -> [a EXCEPT !.held = @ \ {e.s}]
                      [] OTHER -> a

\* ------------------------------------------------------------------ strings
StrOps ==
  {[op |-> "intern", x |-> x, api |-> a] : x \in (IF Wide THEN {"a", "b", "", "a:b"} ELSE {"a", "b", ""}), a \in {"global", "obj"}}
  \cup {[op |-> "key", p |-> p[1], e |-> p[2]] : p \in {<<"a", "c">>, <<"a:b", "c">>, <<"a", "b:c">>, <<"", "">>}}
  \cup {[op |-> "ehash", e |-> x] : x \in {"v1/products/wow/versions", "x"}}

\* ------------------------------------------------------------------ background manager
BgOps ==
  {[op |-> "start"], [op |-> "shutdown"], [op |-> "press", resp |-> "clear"], [op |-> "tune"],
   [op |-> "submit", task |-> "monitor", t |-> "config", ms |-> 7], [op |-> "submit", task |-> "warm", t |-> "config", n |-> 2],
   [op |-> "adv", ms |-> 20], [op |-> "adv", ms |-> 100000]}
  \cup (IF Wide THEN {[op |-> "press", resp |-> "log"], [op |-> "press", resp |-> "reduce"], [op |-> "adv", ms |-> 0], [op |-> "alloc", t |-> "root"],
                      [op |-> "submit", task |-> "cleanup"], [op |-> "submit", task |-> "defrag", t |-> "root"]} ELSE {})
\* aux = "idle" | "run" | "stopped" | "dead" (a start after a shutdown ends the program)
BgEnabled(e) == aux # "dead" /\ (e.op = "adv" => Last.op # "adv")
BgAuxNext(a, e) == CASE e.op = "start" -> IF a = "idle" THEN "run" ELSE IF a = "stopped" THEN "dead" ELSE a
                     [] e.op = "shutdown" -> IF a = "run" THEN "stopped" ELSE a
                     [] OTHER -> a

\* ------------------------------------------------------------------ families
Cfgs == CASE Family = "bbp" -> {[api |-> a] : a \in {"obj", "tls", "raii"}}
          [] Family = "zcc" -> {[max |-> 1000], [max |-> 4]}
          [] Family = "bg"  -> {[mon |-> 15000, press |-> 10000, clean |-> 300000, warmup |-> TRUE], [mon |-> 10, press |-> 5, clean |-> 50, warmup |-> TRUE]}
          [] OTHER -> {NoCfg}
IsPool == Family \in {"ngdp", "tl", "bbp", "zcp", "sized"}
Ops == CASE IsPool -> PoolOps [] Family = "zce" -> ZceOps [] Family = "zcr" -> ZcrOps [] Family = "zcc" -> ZccOps
         [] Family = "str" -> StrOps [] Family = "bg" -> BgOps
Enabled(e) == CASE IsPool -> PoolEnabled(e) [] Family = "zce" -> ZceEnabled(e) [] Family = "zcc" -> ZccEnabled(e)
                [] Family = "bg" -> BgEnabled(e) [] OTHER -> TRUE
Aux0 == CASE IsPool -> PoolAux0 [] Family = "zce" -> ZceAux0 [] Family = "zcc" -> [next |-> 1, held |-> {}]
          [] Family = "bg" -> "idle" [] OTHER -> NoCfg
AuxNext(e) == CASE IsPool -> PoolAuxNext(aux, e) [] Family = "zce" -> ZceAuxNext(aux, e) [] Family = "zcc" -> ZccAuxNext(aux, e)
                [] Family = "bg" -> BgAuxNext(aux, e) [] OTHER -> aux

Enumerated == {"ngdp", "tl", "bbp", "zcp", "sized", "zce", "zcr", "zcc", "str", "bg"}
GenInit == Family \in Fams \cap Enumerated /\ cfg \in Cfgs /\ hist = <<>> /\ aux = Aux0
GenNext == /\ Family \in Enumerated
           /\ \E e \in Ops : /\ Enabled(e)
                             /\ hist' = Append(hist, e) /\ aux' = AuxNext(e) /\ cfg' = cfg /\ Family' = Family
Constr == Len(hist) <= D

KindOf == CASE Family \in {"zce", "zcr"} -> "zc" [] OTHER -> Family
Prefix == CASE Family = "zce" -> <<[op |-> "mk", s |-> 1, d |-> D3]>>
            [] Family = "zcr" -> <<[op |-> "newr", t |-> 1, d |-> D3]>>
            [] OTHER -> <<>>
Suffix == CASE IsPool -> <<[op |-> "check"]>>
            [] Family = "zcc" -> <<[op |-> "probe"]>>
            [] Family = "zcr" -> <<[op |-> "rrem", t |-> 1]>>
            [] OTHER -> <<>>
Program == [kind |-> KindOf, cfg |-> cfg, keys |-> <<1, 2>>, ops |-> Prefix \o hist \o Suffix]
\* (TLC evaluates invariants also on the successors it then discards by the CONSTRAINT, hence the upper bound)
Emit == (Family \in Enumerated /\ Len(hist) >= 1 /\ Len(hist) <= D) => PrintT(<<"PROGRAM", ToJson(Program)>>)

\* ---- design-level refutations ----------------------------------------------------
Witness(tag) == PrintT(<<"WITNESS", ToJson([inv |-> tag, program |-> Program])>>)
WCapacity == (Family = "zcp" /\ aux.bad) => ~Witness("CapacityAtLeastRequest")
WReuse    == (Family = "sized" /\ aux.bad) => ~Witness("ReturnedBufferIsReusedByItsType")
WRefCount == (Family = "zce" /\ aux.bad) => ~Witness("RefCountTruthful")

\* ---- streaming decision tables: one program per configuration --------------------------
StreamCfgs == {[chunk |-> c, maxbuf |-> mb, val |-> v] : c \in {0, 1, 2, 3}, mb \in {0, 1, 2, 16}, v \in {"noop", "ngdp", "off"}}
Datas == {<<>>, <<7>>, <<1, 2, 3, 4, 5>>}
Reads == {<<>>, <<1>>, <<2, 1>>, <<1, 1, 1, 1, 1, 1>>, <<5>>}
StreamOps ==
  SetToSeqM({[op |-> "proc", d |-> d, reads |-> rd, exp |-> ex] : d \in Datas, rd \in Reads, ex \in {<<>>, <<5>>}})
  \o <<[op |-> "recon", chunks |-> <<>>], [op |-> "recon", chunks |-> <<<<1>>, <<>>, <<2, 3>>>>],
       [op |-> "vchunks", chunks |-> <<>>], [op |-> "vchunks", chunks |-> <<<<1>>, <<2, 3>>>>]>>
  \o SetToSeqM({[op |-> "cstream", size |-> sz, marks |-> mk, ask |-> <<0, 1, 7>>] : sz \in {<<>>, <<0>>, <<5>>, <<6>>}, mk \in {<<>>, <<0, 7>>, <<1, 1>>}})
  \o SetToSeqM({[op |-> "sstats", cp |-> cp, tc |-> tc, bp |-> 5, cv |-> cv] : cp \in {0, 2}, tc \in {<<>>, <<0>>, <<3>>}, cv \in {0, 3}})
TabInit == Family = "stream" /\ "stream" \in Fams /\ cfg \in StreamCfgs /\ hist = <<>> /\ aux = NoCfg
EmitTab == (Family = "stream") => PrintT(<<"PROGRAM", ToJson([kind |-> "stream", cfg |-> cfg, ops |-> StreamOps])>>)

\* ---- retention limits: fill a class beyond its limit, then drain it ------------------------
Rep(e, n) == [i \in 1..n |-> e]
LimAllocs(kind, n, k) == [i \in 1..k |-> [op |-> IF kind \in {"bbp", "zcp"} THEN "get" ELSE "alloc", s |-> i, n |-> n]]
LimProg(kind, c, cap, n, k) == [kind |-> kind, cfg |-> c, ops |-> Rep([op |-> "foreign", c |-> cap, m |-> 1], k) \o LimAllocs(kind, n, k) \o <<[op |-> "check"]>>]
LimPrograms ==
  {LimProg("ngdp", NoCfg, NBuf(c), NBuf(c), NMaxPool(c) + 2) : c \in 1..4}
  \cup {LimProg("tl", NoCfg, p[1], p[2], 10) : p \in {<<16384, 100>>, <<262144, 20000>>, <<300000, 300000>>}}
  \cup {LimProg("bbp", [api |-> a], p[1], p[2], p[3]) : a \in {"obj", "tls"}, p \in {<<1000, 1000>> \o <<34>>, <<2000, 2000>> \o <<18>>, <<70000, 70000>> \o <<6>>}}
  \cup {LimProg("zcp", NoCfg, 2048, 2048, 34), LimProg("zcp", NoCfg, 1000, 1000, 2), LimProg("zcp", NoCfg, 67108865, 67108865, 2)}
LimInit == Family = "limits" /\ "limits" \in Fams /\ cfg = NoCfg /\ hist = <<>> /\ aux = NoCfg
EmitLim == (Family = "limits") => \A p \in LimPrograms : PrintT(<<"PROGRAM", ToJson(p)>>)

\* everything in one run: the enumerated families, the tables, the scripts (GenNext has no step for the last two)
AllInit == GenInit \/ TabInit \/ LimInit
=============================================================================
