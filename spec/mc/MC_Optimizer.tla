---------------------------- MODULE MC_Optimizer ----------------------------
(***************************************************************************)
(* Bounded instances of Optimizer.tla (X09): one machine per family.  Each  *)
(* machine (a) is a CORRECT implementation of the family in the small: TLC  *)
(* checks on every reachable state that the judge of Optimizer.tla accepts  *)
(* every step of it without any known deviation (the judge is not           *)
(* vacuously strict, the properties are satisfiable together) and that the  *)
(* properties hold "in their own words" over the machine's state, (b) has a *)
(* code-shaped twin (Variant = "code") that TLC must REFUTE (the pinned     *)
(* variants regenerate the findings at the level of the model), and (c)     *)
(* emits the programs (binding G) that drv_optimizer executes on the real   *)
(* code.                                                                    *)
(***************************************************************************)
EXTENDS Optimizer, Json

CONSTANTS Family,   \* "coal" | "queue" | "buf" | "bw" | "sblte"
          N,        \* coal: offsets 0..N-1; queue / buf / bw: program length; sblte: at most N chunks
          K,        \* coal: at most K requested ranges; queue: at most K requests; buf: max_pooled; bw: unused
          Tier,     \* "quick" | "thorough": size of the configuration grids
          Variant   \* "ideal" | "code"

VARIABLES cfg,      \* configuration of the run (part of the program)
          mst,      \* machine state of the family
          hist,     \* operations so far (the program)
          acc       \* did the judge accept every step so far (with no known deviation)?
vars == <<cfg, mst, hist, acc>>

Prog(ops) == [fam |-> Family, cfg |-> cfg, ops |-> ops]
EmitProg(ops) == PrintT(<<"PROGRAM", ToJson(Prog(ops))>>)
Code == Variant = "code"

\* ===========================================================================
\* coal: every request of at most K ranges over N offsets x thresholds x bandwidth tiers
\* ===========================================================================
\* N >= 7: the instance that tells the bandwidth tiers apart (holes strictly between t/2, t, 2t and 3t need 7 offsets)
CoalTM == IF N >= 7 THEN {<<2, N>>, <<3, N>>}
          ELSE IF Tier = "quick" THEN {<<1, 2>>, <<2, 3>>} ELSE {<<0, 2>>, <<1, 2>>, <<2, 3>>, <<2, 8>>, <<4, 4>>}
CoalBw == {0, MiB, 5 * MiB, 20 * MiB, 100 * MiB}
CoalCfgs == {c \in {[impl |-> "adv", thr |-> x[1], max |-> x[2], maxn |-> 64, bw |-> b, shift |-> s, lim |-> N - 1] :
                      x \in CoalTM, b \in CoalBw, s \in {"0", "top"}} : c.shift = "top" => c.bw = 0}
CRanges == {r \in (0..(N - 1)) \X (0..(N - 1)) : r[1] <= r[2]}
CReqs   == UNION {[1..k -> CRanges] : k \in 0..K}
Second  == <<<<0, 1>>, <<N - 1, N - 1>>>>
CoalInit == cfg \in CoalCfgs /\ mst \in CReqs /\ hist = <<>> /\ acc = TRUE
CoalOf(c, Rq) == IF Code THEN AdvNow(c, Rq).plan ELSE AdvFixed(c, Rq)
CoalEv(st, Rq) ==
  LET P == CoalOf(CoalCfg(cfg), Rq) IN
  [op |-> "coalesce", reqs |-> Rq, res |-> [kind |-> "Ok", plan |-> P],
   obs |-> [stats |-> <<st.proc + Len(Rq), st.coal + Len(Rq) - Len(P),
                        st.saved + (IF Code THEN AdvNow(CoalCfg(cfg), Rq).saved ELSE Bridged(Rq, P))>>]]
\* the judge accepts both calls of the program, counters included
CoalConforms ==
  Family = "coal" =>
    LET v1 == JudgeCoal(cfg, CoalSt0, CoalEv(CoalSt0, mst))
        v2 == JudgeCoal(cfg, v1.st, CoalEv(v1.st, Second))
    IN v1.ok /\ v1.dev = "" /\ v2.ok /\ v2.st.proc = Len(mst) + 2
\* the fold as coded is RangePlan!AdvIdeal (X02's correct coalescer w.r.t. P1-P6) with a counter
CoalNowIsAdvIdeal == Family = "coal" => AdvNow(CoalCfg(cfg), mst).plan = AdvIdeal(CoalCfg(cfg), mst)
\* C1 / C2 in their own words, byte by byte
CoalBytes ==
  Family = "coal" =>
    LET c2 == CoalCfg(cfg)   P == CoalOf(c2, mst) IN
    /\ Sliceable(mst, RSet(P))
    /\ \A x \in Bytes(RSet(P)) \ Bytes(RSet(mst)) : \E g \in Holes(RSet(mst)) : Inside(x, g) /\ RLen(g) <= c2.thr
    /\ Bridged(mst, P) = Cardinality(Bytes(RSet(P)) \ Bytes(RSet(mst)))
    /\ ~NestedIn(P)
CoalEmit == Family = "coal" => EmitProg(<<[op |-> "coalesce", reqs |-> mst], [op |-> "coalesce", reqs |-> Second]>>)

\* ===========================================================================
\* queue: all histories of length N over at most K requests
\* ===========================================================================
QPrios == IF Tier = "quick" THEN {1, 3} ELSE {0, 2, 4}
QCfgs == {[max |-> m, corder |-> o] : m \in {1, 2}, o \in {"asc", "desc"}}
Created(k) == IF cfg.corder = "asc" THEN k ELSE 100 - k
\* the waiting requests in the order they are to be started (ties by request number: any order would do)
RECURSIVE SortPend(_, _)
SortPend(q, P) ==
  IF P = {} THEN <<>>
  ELSE LET b == CHOOSE x \in P : \A y \in P : y = x \/ QBefore(q, x, y) \/ (~QBefore(q, y, x) /\ x < y)
       IN <<b>> \o SortPend(q, P \ {b})
\* requests started by an operation: q0 before it, q1 after its own effect
Starts(q0, q1, op) ==
  LET all == SortPend(q1, QPend(q1)) IN
  IF Code THEN (IF op = "enq" /\ Cardinality(QInFl(q0)) < cfg.max THEN all ELSE <<>>)
  ELSE SubSeq(all, 1, RMin(QFree(q1, cfg.max), Len(all)))
QObs(q) == [started |-> q.started, pend |-> Cardinality(QPend(q)), act |-> Cardinality(QInFl(q)), infl |-> Cardinality(QInFl(q)),
            bad_range |-> 0, dl |-> SumBody({f[1] : f \in {g \in q.fin : g[2]}})]
Deliver(q, k) == [r |-> "some", id |-> q.reqs[k].id, k |-> k, ok |-> QOutcome(q, k), len |-> IF QOutcome(q, k) THEN BodyLen(k) ELSE 0, uniform |-> TRUE]
MinOf(S) == CHOOSE x \in S : \A y \in S : x <= y
QIdle(q) == (IF Code THEN FALSE ELSE q.shut) /\ QInFl(q) = {}          \* the code never notices a shutdown
\* one step: the program operation o0 -> [q (after), ev (the event a correct queue would log)]
QStep(q, o0) ==
  LET U == QUndl(q)
      own == CASE o0.op = "enq" -> [q1 |-> [q EXCEPT !.reqs = Append(@, [id |-> o0.k, p |-> o0.p, c |-> o0.c])], res |-> [kind |-> "Ok", id |-> o0.k]]
               [] o0.op = "fin" -> [q1 |-> IF o0.k \in QInFl(q) THEN [q EXCEPT !.fin = @ \cup {<<o0.k, o0.ok>>}] ELSE q,
                                    res |-> [kind |-> "Ok", was |-> o0.k \in QInFl(q)]]
               [] o0.op \in {"recv", "try"} ->
                    IF U # {} THEN [q1 |-> [q EXCEPT !.dlv = @ \cup {MinOf(U)}], res |-> [kind |-> "Ok", r |-> Deliver(q, MinOf(U))]]
                    ELSE [q1 |-> q, res |-> [kind |-> "Ok", r |-> [r |-> IF o0.op = "try" \/ QIdle(q) THEN "none" ELSE "blocked"]]]
               [] o0.op = "rtry" ->
                    LET k1 == IF U # {} THEN {MinOf(U)} ELSE {}
                        U2 == U \ k1
                        k2 == IF U2 # {} THEN {MinOf(U2)} ELSE {}
                        bg == IF k1 # {} THEN Deliver(q, MinOf(U)) ELSE [r |-> IF QIdle(q) THEN "none" ELSE "blocked"]
                        tr == IF k2 # {} THEN Deliver(q, MinOf(U2)) ELSE [r |-> IF Code /\ k1 = {} THEN "blocked" ELSE "none"]
                    IN [q1 |-> [q EXCEPT !.dlv = @ \cup k1 \cup k2], res |-> [kind |-> "Ok", bg |-> bg, try |-> tr]]
               [] o0.op = "shutdown" -> [q1 |-> [q EXCEPT !.shut = TRUE], res |-> [kind |-> "Ok"]]
      S  == Starts(q, own.q1, o0.op)
      q2 == [own.q1 EXCEPT !.started = @ \o S]
  IN [q |-> q2, ev |-> (o0 @@ [res |-> own.res]) @@ [obs |-> QObs(q2)]]
QOps(q) ==
  (IF Len(q.reqs) < K THEN {[op |-> "enq", k |-> Len(q.reqs) + 1, p |-> p, c |-> Created(Len(q.reqs) + 1)] : p \in QPrios} ELSE {})
  \cup UNION {{[op |-> "fin", k |-> k, ok |-> b] : b \in (IF Tier = "quick" /\ k > 1 THEN {TRUE} ELSE BOOLEAN)} : k \in QInFl(q)}
  \cup {[op |-> "recv"], [op |-> "try"]}
  \cup (IF \E j \in 1..Len(hist) : hist[j].op = "rtry" THEN {} ELSE {[op |-> "rtry"]})
  \cup (IF q.shut THEN {} ELSE {[op |-> "shutdown"]})
QueueInit == cfg \in QCfgs /\ mst = QSt0 /\ hist = <<>> /\ acc = TRUE
QueueNext ==
  /\ Len(hist) < N
  /\ \E o0 \in QOps(mst) :
       LET r == QStep(mst, o0)
           v == JudgeQueue(cfg, mst, r.ev)
       IN /\ (hist = <<>> => o0.op = "enq")               \* nothing happens before the first request
          /\ mst' = r.q /\ hist' = Append(hist, o0)
          /\ acc' = (acc /\ v.ok /\ v.dev = "" /\ v.st = r.q)
  /\ UNCHANGED cfg
\* the final drain of every program, as a correct queue performs it
RECURSIVE DeliverSeq(_, _)
DeliverSeq(q, D) == IF D = {} THEN <<>> ELSE <<Deliver(q, MinOf(D))>> \o DeliverSeq(q, D \ {MinOf(D)})
DrainEv(q) ==
  LET S   == IF Code \/ q.shut THEN <<>> ELSE SortPend(q, QPend(q))
      q1  == [q EXCEPT !.started = @ \o S]
      q2  == [q1 EXCEPT !.fin = @ \cup {<<k, TRUE>> : k \in QInFl(q1)}]
      due == QUndl(q2)
      q3  == [q2 EXCEPT !.dlv = @ \cup due]
  IN [op |-> "drain", res |-> [kind |-> "Ok", dl |-> DeliverSeq(q2, due)], obs |-> QObs(q3)]
QueueJudgeAccepts == Family = "queue" => acc /\ JudgeDrain(cfg, mst, DrainEv(mst)).ok /\ JudgeDrain(cfg, mst, DrainEv(mst)).dev = ""
\* Q4, Q5, Q6, Q2 in their own words over the machine's state
QueueLimit    == Family = "queue" => Cardinality(QInFl(mst)) <= cfg.max
QueueProgress == Family = "queue" => (mst.shut \/ QPend(mst) = {} \/ Cardinality(QInFl(mst)) >= cfg.max)
QueueBooks    == Family = "queue" => mst.dlv \subseteq QFin(mst) /\ QFin(mst) \subseteq QStarted(mst) /\ QStarted(mst) \subseteq 1..Len(mst.reqs)
QueueEmit == (Family = "queue" /\ Len(hist) >= 2) => EmitProg(Append(hist, [op |-> "drain"]))

\* ===========================================================================
\* buf: all histories of length N, pool of at most K buffers of 4 bytes
\* ===========================================================================
BufSize == 4
\* mst = [b |-> the judge's state, held |-> {<<handle, capacity>>}, n |-> handles given out]
BufInit == cfg = [size |-> BufSize, maxp |-> K] /\ mst = [b |-> BSt0, held |-> {}, n |-> 0] /\ hist = <<>> /\ acc = TRUE
CapAfter(c, how) == CASE how = "own" -> c [] how = "shrunk" -> 0 [] how = "grown" -> RMax(c, 3 * BufSize)
BufOps(m) == {[op |-> "get"]}
             \cup {[op |-> "ret", h |-> x[1], how |-> w, fill |-> IF w = "own" THEN 2 ELSE 0] : x \in m.held, w \in {"own", "shrunk", "grown"}}
             \cup {[op |-> "retf", cap |-> c, fill |-> 1] : c \in {1, BufSize}}
BufStep(m, o0) ==
  LET b == m.b IN
  IF o0.op = "get" THEN
       LET fromPool == b.pool # <<>>
           cap == IF fromPool THEN b.pool[Len(b.pool)] ELSE BufSize
           b1  == IF fromPool THEN [b EXCEPT !.pool = DropOne(@, cap), !.r = @ + 1] ELSE [b EXCEPT !.a = @ + 1]
       IN [m |-> [b |-> b1, held |-> m.held \cup {<<m.n + 1, cap>>}, n |-> m.n + 1],
           ev |-> (o0 @@ [res |-> [kind |-> "Ok", h |-> m.n + 1, len |-> 0, cap |-> cap]]) @@ [obs |-> [stats |-> <<Len(b1.pool), b1.a, b1.r, b1.t>>]]]
  ELSE LET cap  == IF o0.op = "retf" THEN o0.cap ELSE CapAfter((CHOOSE x \in m.held : x[1] = o0.h)[2], o0.how)
           keep == Len(b.pool) < cfg.maxp /\ (Code \/ cap >= cfg.size)          \* the code keeps whatever it is given
           b1   == IF keep THEN [b EXCEPT !.pool = Append(@, cap), !.t = @ + 1] ELSE b
           held == IF o0.op = "retf" THEN m.held ELSE {x \in m.held : x[1] # o0.h}
       IN [m |-> [b |-> b1, held |-> held, n |-> m.n],
           ev |-> (o0 @@ [res |-> [kind |-> "Ok", cap |-> cap, len |-> o0.fill]]) @@ [obs |-> [stats |-> <<Len(b1.pool), b1.a, b1.r, b1.t>>]]]
BufNext ==
  /\ Len(hist) < N
  /\ \E o0 \in BufOps(mst) :
       LET r == BufStep(mst, o0)
           v == JudgeBuf(cfg, mst.b, r.ev)
       IN /\ (hist = <<>> => o0.op = "get")
          /\ mst' = r.m /\ hist' = Append(hist, o0)
          /\ acc' = (acc /\ v.ok /\ v.dev = "" /\ v.st = r.m.b)
  /\ UNCHANGED cfg
BufJudgeAccepts == Family = "buf" => acc
BufBounded == Family = "buf" => Len(mst.b.pool) <= cfg.maxp /\ Len(mst.b.pool) = mst.b.t - mst.b.r /\ mst.b.a + mst.b.r = mst.n   \* Z2, Z4
BufCapacity == Family = "buf" => (\A x \in mst.held : x[2] >= cfg.size) /\ (\A j \in 1..Len(mst.b.pool) : mst.b.pool[j] >= cfg.size)   \* Z1
BufEmit == (Family = "buf" /\ Len(hist) >= 2) => EmitProg(hist)

\* ===========================================================================
\* bw: all sample sequences of length N
\* ===========================================================================
BwCfgs == {[win |-> w] : w \in {"1h", "20ms", "max"}}
BwSamples == IF cfg.win = "1h" THEN {<<1000, 1000>>, <<2000, 1000>>, <<1500, 500>>, <<7, 3>>, <<5, 0>>, <<-1, 1000>>, <<3, -1>>}
             ELSE IF cfg.win = "max" THEN {<<1000, 1000>>, <<2000, 1000>>, <<1500, 500>>, <<5, 0>>, <<0, 1000>>}
             ELSE {<<1000, 1000>>, <<2000, 1000>>, <<1500, 500>>}
BwOps == {[op |-> "rec", b |-> x[1], ms |-> x[2]] : x \in BwSamples}
         \cup (IF cfg.win = "20ms" THEN {[op |-> "sleep", ms |-> 80], [op |-> "rng", tms |-> 1000]}
               ELSE {[op |-> "rng", tms |-> t] : t \in {0, 2000, -1}})
BwInit == cfg \in BwCfgs /\ mst = WSt0 /\ hist = <<>> /\ acc = TRUE
\* a correct monitor: exact arithmetic; the "20ms" window keeps the samples since the last pause
BwStep(w, o0) ==
  IF o0.op = "rec" THEN
     IF o0.ms = 0 THEN [w |-> w, ev |-> (o0 @@ [res |-> [kind |-> "Ok"]]) @@ [obs |-> w.last]]
     ELSE LET v == RMin(ExpSample(o0.b, o0.ms), SAT)
              q == Append(w.samples, [v |-> v, ep |-> w.ep])
              n == Len(q)
              hg == Huge(q, 1, n) # {}
              j == IF Code /\ cfg.win = "max" THEN 1 ELSE MaxS(WCands(cfg, q))
              ov == Code /\ SumOverflows(q, j)
              o == [cur |-> v, peak |-> RMax(w.last.peak, v), avg |-> IF hg THEN RMax(w.last.peak, v) ELSE SumV(q, 1, n) \div n,
                    mavg |-> IF ov THEN -1 ELSE IF Huge(q, n - j + 1, n) # {} THEN SAT ELSE MeanLast(q, j)]
          IN [w |-> [samples |-> q, ep |-> w.ep, last |-> o], ev |-> (o0 @@ [res |-> [kind |-> "Ok"]]) @@ [obs |-> o]]
  ELSE IF o0.op = "sleep" THEN
     LET o == [w.last EXCEPT !.mavg = IF Code THEN @ ELSE 0] IN         \* nothing within the window any more
     [w |-> [w EXCEPT !.ep = @ + 1, !.last = o], ev |-> (o0 @@ [res |-> [kind |-> "Ok"]]) @@ [obs |-> o]]
  ELSE LET m == w.last.mavg
           tt == IF o0.tms = -1 THEN 100000 ELSE o0.tms \div 100
           v == IF m = 0 THEN MiB ELSE IF tt = 0 THEN KiB64 ELSE IF m >= SAT \/ o0.tms = -1 \/ (m > 20000000 /\ tt >= 20) THEN MiB32
                ELSE IF m <= 20000000 THEN Clamp((m * tt) \div 10) ELSE MiB32
       IN [w |-> w, ev |-> (o0 @@ [res |-> IF m = -1 THEN [kind |-> "panic"] ELSE [kind |-> "Ok", v |-> v]]) @@ [obs |-> w.last]]
BwNext ==
  /\ Len(hist) < N
  /\ \E o0 \in BwOps :
       LET r == BwStep(mst, o0)
           v == JudgeBw(cfg, mst, r.ev)
       IN /\ (hist = <<>> => o0.op = "rec")
          /\ (o0.op = "sleep" => hist[Len(hist)].op = "rec")
          /\ mst' = r.w /\ hist' = Append(hist, o0)
          /\ acc' = (acc /\ v.ok /\ v.dev = "" /\ v.st = r.w)
  /\ UNCHANGED cfg
BwJudgeAccepts == Family = "bw" => acc
\* B3, B4 in their own words
BwShape == Family = "bw" =>
             LET q == mst.samples IN
             /\ mst.last.peak >= mst.last.cur
             /\ q # <<>> => /\ mst.last.peak = MaxS({q[x].v : x \in 1..Len(q)})
                            /\ mst.last.avg >= MinS({q[x].v : x \in 1..Len(q)}) /\ mst.last.avg <= mst.last.peak
                            /\ mst.last.mavg \in {-1, 0} \/ (mst.last.mavg >= MinS({q[x].v : x \in 1..Len(q)}) /\ mst.last.mavg <= mst.last.peak)
BwEmit == (Family = "bw" /\ Len(hist) >= 2) => EmitProg(hist)

\* ===========================================================================
\* sblte: every chunk structure of at most N chunks
\* ===========================================================================
ChunkKinds == {[m |-> m, n |-> n] : m \in {"N", "Z"}, n \in (IF Tier = "quick" THEN {1, 40} ELSE {0, 1, 5, 40})}
SblteCfgs == {[chunks |-> ch, multi |-> mu] : ch \in UNION {[1..k -> ChunkKinds] : k \in 1..N}, mu \in BOOLEAN}
SblteInit == cfg \in {c \in SblteCfgs : ~c.multi => Len(c.chunks) = 1} /\ mst = 0 /\ hist = <<>> /\ acc = TRUE
SblteOps == <<[op |-> "all"], [op |-> "info"], [op |-> "range", a |-> 0, n |-> 1], [op |-> "range", a |-> 1, n |-> 2],
              [op |-> "range", a |-> 0, n |-> 0], [op |-> "range", a |-> 3, n |-> 1]>>
SblteEmit == Family = "sblte" => EmitProg(SblteOps)
\* S3 on the requests a straightforward reader makes: probe, chunk table, then the chunks
SblteHeaderRule ==
  Family = "sblte" =>
    LET h == HeaderLen(cfg)
        calls == <<<<0, 11>>>> \o (IF cfg.multi THEN <<<<0, h - 1>>>> ELSE <<>>) \o <<<<h, h + 5>>, <<0, 1000>>>>
    IN HeaderReadsOK(cfg, calls) /\ ~HeaderReadsOK(cfg, <<<<0, 11>>, <<0, h + 12>>>>)

\* ===========================================================================
MCInit == CASE Family = "coal" -> CoalInit [] Family = "queue" -> QueueInit [] Family = "buf" -> BufInit
            [] Family = "bw" -> BwInit [] Family = "sblte" -> SblteInit
MCNext == CASE Family = "queue" -> QueueNext [] Family = "buf" -> BufNext [] Family = "bw" -> BwNext
            [] OTHER -> UNCHANGED vars
Emit == CoalEmit /\ QueueEmit /\ BufEmit /\ BwEmit /\ SblteEmit
=============================================================================
