---------------------------- MODULE MC_PathCache ----------------------------
(***************************************************************************)
(* Bounded instances of PathCache.tla / CdnBoot.tla (X12).                 *)
(*                                                                         *)
(* Family "time" / "rules" (CdnPathCache behind a CdnUrlBuilder): a        *)
(* machine in the model executes every operation sequence of length <= D   *)
(* on a NOMINAL clock (a call takes 3 us, the observation block 3 us, a    *)
(* sleep its length) and produces the very records the driver logs; the    *)
(* judge PcJudge runs next to it.                                          *)
(*   Variant "ideal": a correct cache (exact stamps, validation rejecting  *)
(*     BadMust, either way for BadMay).  TLC checks JudgeAccepts (every    *)
(*     step accepted with no deviation) and JudgeTracks, and the sequences *)
(*     are printed as PROGRAMs for harness/drv_pathcache (binding G).      *)
(*   Variant "inert": the cache as coded (the validation flag is stored    *)
(*     and reported, nothing else): with KnownDeviations = {} JudgeAccepts *)
(*     must be REFUTED (pinned variant of FX12a), with {"FX12a"} it holds. *)
(*   Variants "noexpiry", "bootalways", "bulkmerge", "cleanupcount",       *)
(*     "staleclear": wrong caches the judge must refute (anti-vacuity).    *)
(* Family "url": the grid of U1-U3 as programs; UrlInjective (U4).         *)
(* Family "boot" / "mk": tables / hand-made bootstraps as programs; the    *)
(*   judges are run on records synthesised from the documented functions   *)
(*   (Variant "ideal": accepted without deviation) and from the functions  *)
(*   as coded (Variant "code": BootPinned / MkPinned must be REFUTED -     *)
(*   FX12f, FX12b, FX12c).                                                 *)
(* Family "cfg" / "env": presets x boundary values; Variant "code":        *)
(*   CfgPinned must be REFUTED (FX12d, FX12e).                             *)
(***************************************************************************)
EXTENDS CdnBoot, Json

CONSTANTS Family,           \* "time" | "rules" | "url" | "boot" | "mk" | "cfg" | "env"
          D,                \* cache: operations per program; boot: rows per table; cfg: fields assigned
          Wide,             \* TRUE: the thorough grids
          Variant,          \* see above
          KnownDeviations   \* deviations the model-level judge run may use

VARIABLES cfg, hist, ms, js, clock, bad

McMerge(r1, r2) == [k \in DOMAIN r1 \cup DOMAIN r2 |-> IF k \in DOMAIN r2 THEN r2[k] ELSE r1[k]]
RECURSIVE SetToSeqX(_)
SetToSeqX(S) == IF S = {} THEN <<>> ELSE LET x == CHOOSE y \in S : TRUE IN <<x>> \o SetToSeqX(S \ {x})

\* =========================================================================== cache
UU == <<"a", "b">>
Uq0 == [server |-> "cdn.example.net", ct |-> "data", https |-> TRUE,
        hc |-> <<"0","1","2","3","4","5","6","7","8","9","a","b","c","d","e","f","A","B","C","D","E","F","0","1","2","3","4","5","6","7","8","9">>,
        hn |-> [i \in 1..32 |-> 1]]
NumChars(k) == IF k < 10 THEN <<Digits[k + 1]>> ELSE <<Digits[(k \div 10) + 1], Digits[(k % 10) + 1]>>
GoodPc(k) == <<"t", "p", "r", "/", "x">> \o NumChars(k) \o (IF k % 5 = 0 THEN <<"/">> ELSE <<>>)
BadPcs == << <<>>, <<"/">>, <<"t","p","r","/",".",".","/","w">>, <<"t","p","r"," ","w">>, <<"/","t","p","r">>, <<"t","p","r","/","/","w">> >>

Uq0P == UqPrep(Uq0)
\* the machine: ms = [ttl, val, m] with m[p] = [path, pc, c]
MAbsent(p) == p \notin DOMAIN ms.m
MExpAt(s, en, g) == s.ttl >= 0 /\ g - en.c > s.ttl
MPut(m, p, en) == [q \in DOMAIN m \cup {p} |-> IF q = p THEN en ELSE m[q]]
MDel(m, S) == [q \in DOMAIN m \ S |-> m[q]]
\* storing one path: the set of possible maps
MStore(s, m, p, pc, c) ==
  LET stored == MPut(m, p, [path |-> Flat(pc), pc |-> pc, c |-> c]) IN
  IF Variant = "inert" \/ ~s.val THEN {stored}
  ELSE IF BadMust(pc) THEN {m}
  ELSE IF BadMay(pc) THEN {m, stored}
  ELSE {stored}
\* mode "all": every pair is stored (bulk_update); mode "boot": update_from_bootstrap's rule
ShouldStore(s, mode, force, m, p, c) ==
  mode = "all" \/ Variant = "bootalways" \/ force \/ p \notin DOMAIN m \/ (s.ttl # -1 /\ MExpAt(s, m[p], c))
RECURSIVE MStoreAll(_, _, _, _, _, _)
MStoreAll(s, M, pairs, c, mode, force) ==       \* M: set of maps; pairs: sequence of [p, pc]
  IF pairs = <<>> THEN M
  ELSE MStoreAll(s, UNION {IF ShouldStore(s, mode, force, m, Head(pairs).p, c) THEN MStore(s, m, Head(pairs).p, Head(pairs).pc, c) ELSE {m} : m \in M},
                 Tail(pairs), c, mode, force)

\* one operation at effect instant c: set of [s, res]
MStep(s, e, c) ==
  CASE e.op = "set"   -> {[s |-> [s EXCEPT !.m = m2], res |-> [k |-> "unit"]] : m2 \in MStore(s, s.m, e.p, e.pc, c)}
    [] e.op = "rm"    -> {[s |-> [s EXCEPT !.m = MDel(s.m, {e.p})],
                           res |-> [k |-> "opt", v |-> IF e.p \in DOMAIN s.m THEN <<s.m[e.p].path>> ELSE <<>>]]}
    [] e.op = "clear" -> {[s |-> [s EXCEPT !.m = IF Variant = "staleclear" THEN MDel(s.m, {p \in DOMAIN s.m : ~MExpAt(s, s.m[p], c)}) ELSE <<>>],
                           res |-> [k |-> "unit"]]}
    [] e.op = "cleanup" ->
         LET gone == IF s.ttl = -1 THEN {} ELSE {p \in DOMAIN s.m : MExpAt(s, s.m[p], c)} IN
         {[s |-> [s EXCEPT !.m = MDel(s.m, gone)],
           res |-> [k |-> "n", v |-> IF Variant = "cleanupcount" THEN Cardinality(DOMAIN s.m) ELSE Cardinality(gone)]]}
    [] e.op = "bulk" ->
         {[s |-> [s EXCEPT !.m = m2], res |-> [k |-> "unit"]] :
             m2 \in MStoreAll(s, {IF e.rep /\ Variant # "bulkmerge" THEN <<>> ELSE s.m}, e.pairs, c, "all", FALSE)}
    [] e.op = "boot" ->
         {[s |-> [s EXCEPT !.m = m2], res |-> [k |-> "unit"]] :
             m2 \in MStoreAll(s, {s.m}, e.pairs, c, "boot", e.force)}
    [] e.op = "ttl"   -> {[s |-> [s EXCEPT !.ttl = e.ttl], res |-> [k |-> "unit"]]}
    [] e.op = "val"   -> {[s |-> [s EXCEPT !.val = e.b], res |-> [k |-> "unit"]]}
    [] OTHER          -> {[s |-> s, res |-> [k |-> "unit"]]}      \* sleep, clone

\* the observation block of machine state s, every reader at instant g
MObs(s, g, o0, o1) ==
  LET live(p) == p \in DOMAIN s.m /\ ~MExpAt(s, s.m[p], g)
      served(p) == p \in DOMAIN s.m /\ (Variant = "noexpiry" \/ ~MExpAt(s, s.m[p], g))
      N == Cardinality(DOMAIN s.m)
      nv == Cardinality({p \in DOMAIN s.m : live(p)})
      ps == SetToSeqX(DOMAIN s.m)
  IN [o0 |-> o0, o1 |-> o1,
      get |-> [i \in 1..Len(UU) |-> IF served(UU[i]) THEN <<s.m[UU[i]].path>> ELSE <<>>],
      gb  |-> [i \in 1..Len(UU) |-> IF served(UU[i]) THEN <<s.m[UU[i]].path>> ELSE <<>>],
      exp |-> [i \in 1..Len(UU) |-> UU[i] \in DOMAIN s.m /\ ~live(UU[i])],
      url |-> [i \in 1..Len(UU) |-> IF served(UU[i]) THEN <<UrlOf(Uq0.server, s.m[UU[i]].pc, Uq0.ct, Uq0.hc, Uq0.https)>> ELSE <<>>],
      ents |-> [i \in 1..Len(ps) |-> <<ps[i], s.m[ps[i]].path, IF live(ps[i]) THEN 1 ELSE 0>>],
      vlen |-> nv, stats |-> <<N, nv, N - nv, IF s.ttl # -1 THEN 1 ELSE 0, IF s.val THEN 1 ELSE 0>>, hasv |-> nv > 0,
      gnc |-> [i \in 1..Len(UU) |-> IF UU[i] \in DOMAIN s.m THEN <<s.m[UU[i]].path>> ELSE <<>>],
      len |-> N, empty |-> (N = 0)]

\* operations: the program text (what the driver reads) and the extra fields the driver logs (pc)
Via == IF Len(hist) % 2 = 0 THEN "c" ELSE "b"
K0 == 2 * Len(hist) + 1
PairP(p, pc) == [p |-> p, path |-> Flat(pc), pc |-> pc]
OpSet(p, pc) == [op |-> "set", p |-> p, path |-> Flat(pc), pc |-> pc, via |-> Via]
TimeOps ==
  {OpSet("a", GoodPc(K0)), OpSet("b", GoodPc(K0)), [op |-> "rm", p |-> "a"], [op |-> "cleanup", via |-> Via],
   [op |-> "boot", pairs |-> <<PairP("a", GoodPc(K0)), PairP("b", GoodPc(K0 + 1))>>, force |-> FALSE, via |-> Via],
   [op |-> "boot", pairs |-> <<PairP("a", GoodPc(K0))>>, force |-> TRUE, via |-> Via],
   [op |-> "bulk", pairs |-> <<PairP("b", GoodPc(K0))>>, rep |-> FALSE],
   [op |-> "bulk", pairs |-> <<PairP("a", GoodPc(K0))>>, rep |-> TRUE],
   [op |-> "sleep", ms |-> 30], [op |-> "sleep", ms |-> 8],
   [op |-> "ttl", ttl |-> -1], [op |-> "ttl", ttl |-> 20000], [op |-> "ttl", ttl |-> 0]}
  \cup (IF Wide THEN {[op |-> "clear"], [op |-> "clone"], [op |-> "ttl", ttl |-> -2], [op |-> "ttl", ttl |-> 8010]} ELSE {})
RulesOps ==
  {OpSet("a", GoodPc(K0)), [op |-> "rm", p |-> "a"], [op |-> "clear"], [op |-> "cleanup", via |-> Via], [op |-> "clone"],
   [op |-> "val", b |-> TRUE], [op |-> "val", b |-> FALSE],
   [op |-> "boot", pairs |-> <<PairP("a", GoodPc(K0)), PairP("b", BadPcs[1])>>, force |-> FALSE, via |-> Via],
   [op |-> "boot", pairs |-> <<PairP("a", BadPcs[3]), PairP("b", GoodPc(K0))>>, force |-> TRUE, via |-> Via],
   [op |-> "bulk", pairs |-> <<PairP("a", BadPcs[4]), PairP("b", GoodPc(K0))>>, rep |-> FALSE],
   [op |-> "bulk", pairs |-> <<PairP("b", BadPcs[2])>>, rep |-> TRUE],
   [op |-> "bulk", pairs |-> <<PairP("a", GoodPc(K0))>>, rep |-> TRUE]}
  \cup {OpSet("a", BadPcs[i]) : i \in 1..Len(BadPcs)} \cup {OpSet("b", BadPcs[i]) : i \in {1, 5}}
  \cup (IF Wide THEN {[op |-> "ttl", ttl |-> -1], [op |-> "ttl", ttl |-> 1000000000], [op |-> "ttl", ttl |-> -2]} ELSE {})
CacheOps == IF Family = "time" THEN TimeOps ELSE RulesOps
Ctors == <<"direct", "runtime", "setters">>
CtorOf(t, v) == Ctors[1 + (((IF v THEN 1 ELSE 0) + (IF t < 0 THEN 0 ELSE IF t = 0 THEN 1 ELSE 2)) % 3)]
TimeTtls == {20000, 0} \cup (IF Wide THEN {8010, 35000} ELSE {})
RulesTtls == {0 - 1, 1000000000} \cup (IF Wide THEN {0 - 2} ELSE {})
CacheCfgs ==
  IF Family = "time" THEN {[ctor |-> CtorOf(t, FALSE), ttl |-> t, val |-> FALSE] : t \in TimeTtls}
  ELSE {[ctor |-> CtorOf(t, v), ttl |-> t, val |-> v] : t \in RulesTtls, v \in BOOLEAN}
\* pruning: operations that cannot teach anything where they stand
CacheEnabled(e) ==
  CASE e.op = "sleep" -> ms.m # <<>> /\ ms.ttl >= 0 /\ (hist = <<>> \/ hist[Len(hist)].op # "sleep" \/ e.ms = 8)
                         /\ Cardinality({i \in 1..Len(hist) : hist[i].op = "sleep"}) < 3
    [] e.op = "ttl"   -> e.ttl # ms.ttl
    [] e.op = "val"   -> e.b # ms.val
    [] e.op = "clear" -> ms.m # <<>>
    [] e.op = "clone" -> hist # <<>> /\ hist[Len(hist)].op # "clone"
    [] e.op = "cleanup" -> hist # <<>> /\ hist[Len(hist)].op # "cleanup"
    [] OTHER          -> TRUE
ProgOp(e) == IF "pairs" \in DOMAIN e
             THEN [k \in DOMAIN e |-> IF k = "pairs" THEN [i \in 1..Len(e.pairs) |-> [p |-> e.pairs[i].p, path |-> e.pairs[i].path]] ELSE e[k]]
             ELSE [k \in DOMAIN e \ {"pc"} |-> e[k]]

Accepts(v) == v.ok /\ v.devs \subseteq KnownDeviations
CacheInit ==
  /\ cfg \in CacheCfgs /\ hist = <<>> /\ clock = 6
  /\ ms = [ttl |-> cfg.ttl, val |-> cfg.val, m |-> <<>>]
  /\ LET v == PcJudgeNew([cfg |-> cfg, U |-> UU, uq |-> Uq0, res |-> [k |-> "unit"], obs |-> MObs(ms, 4, 3, 6)])
     IN js = v.st /\ bad = ~Accepts(v)
CacheNext ==
  /\ Len(hist) < D
  /\ \E e \in CacheOps :
    /\ CacheEnabled(e)
    /\ LET dur == IF e.op = "sleep" THEN e.ms * 1000 ELSE 0 IN
       \E r \in MStep(ms, e, clock + 1) :
         LET t1 == clock + dur + 3
             ev == McMerge(e, [seq |-> Len(hist) + 1, t0 |-> clock, t1 |-> t1, res |-> r.res, obs |-> MObs(r.s, t1 + 1, t1, t1 + 3)])
             v  == PcJudge(js, UU, Uq0P, ev)
         IN /\ ms' = r.s /\ js' = v.st /\ bad' = (bad \/ ~Accepts(v)) /\ clock' = t1 + 3
            /\ hist' = Append(hist, ProgOp(e)) /\ cfg' = cfg
JudgeAccepts == ~bad
JudgeTracks == /\ DOMAIN js.m = DOMAIN ms.m /\ \A p \in DOMAIN ms.m : js.m[p].path = ms.m[p].path /\ js.m[p].lo <= ms.m[p].c /\ ms.m[p].c <= js.m[p].hi
               /\ js.ttl = ms.ttl /\ js.val = ms.val

\* =========================================================================== url
HexBase1 == <<"0","1","2","3","4","5","6","7","8","9","a","b","c","d","e","f","0","1","2","3","4","5","6","7","8","9","a","b","c","d","e","f">>
HexBase2 == <<"f","e","d","c","b","a","9","8","7","6","5","4","3","2","1","0","f","e","d","c","b","a","9","8","7","6","5","4","3","2","1","0">>
HexBase3 == <<"0","1","3","2","4","5","6","7","8","9","a","b","c","d","e","f","0","1","2","3","4","5","6","7","8","9","a","b","c","d","e","f">>
UpperOf(c) == IF c \in LowerSet THEN UpperSeq[CHOOSE i \in 1..26 : LowerSeq[i] = c] ELSE c
Upper(cs) == [i \in 1..Len(cs) |-> UpperOf(cs[i])]
Mixed(cs) == [i \in 1..Len(cs) |-> IF i % 3 = 0 THEN UpperOf(cs[i]) ELSE cs[i]]
WithAt(cs, i, c) == [j \in 1..Len(cs) |-> IF j = i THEN c ELSE cs[j]]
ValidHashes == {HexBase1, HexBase2, HexBase3, Upper(HexBase1), Mixed(HexBase1), Upper(HexBase2), Mixed(HexBase3)}
BadHashes ==
  {SubSeq(HexBase1, 1, n) : n \in (0..6) \cup {16, 30, 31}} \cup {HexBase1 \o SubSeq(HexBase2, 1, n) : n \in {1, 2, 32}}
  \cup {WithAt(HexBase1, i, c) : i \in (IF Wide THEN 1..32 ELSE {1, 2, 3, 4, 5, 17, 31, 32}), c \in {"g", "G"}}
  \cup {WithAt(HexBase2, i, c) : i \in {1, 3, 32}, c \in {" ", "/", ".", "-", "x", "+"}}
  \cup {<<"z","z","1","2">>, <<"A","B","C","D","E","F","1","2","3","4","5","6","7","8","9","0">>, <<"1","2","3","4","5","6","7","8","9","0","a","b","c","d","e","f">>}
HashSyms == {"e16", "e_at2", "e_at1", "e_at3", "e_tail", "I16", "fw32", "fw_b32", "ar16", "e2", "ae12"}
UrlServers == {"level3.blizzard.com", "127.0.0.1:8080"} \cup (IF Wide THEN {"h", ""} ELSE {})
UrlBases == {<<"t","p","r","/","w","o","w">>, <<"t","p","r","/","w","o","w","_","c","l","a","s","s","i","c">>, <<"a">>}
            \cup (IF Wide THEN {<<>>, <<"/","t","p","r">>, <<"t","p","r"," ","w">>, <<"t","p","r","/","/","w">>} ELSE {<<>>})
UrlCfgs == {[server |-> s, pc |-> b \o [i \in 1..n |-> "/"], https |-> h] : s \in UrlServers, b \in UrlBases, n \in 0..2, h \in BOOLEAN}
UrlCalls(c) ==
  LET mk(f, ct, hc, cached) == [f |-> f, server |-> c.server, path |-> Flat(c.pc), ct |-> ct, hash |-> Flat(hc), https |-> c.https, cached |-> cached]
      sy(f, ct, hs) == [f |-> f, server |-> c.server, path |-> Flat(c.pc), ct |-> ct, hsym |-> hs, https |-> c.https, cached |-> TRUE]
  IN SetToSeqX({mk("build", ct, h, TRUE) : ct \in ContentTypes, h \in ValidHashes})
     \o SetToSeqX({mk(f, "data", h, TRUE) : f \in {"build", "pcfg", "dirs", "prod"}, h \in BadHashes})
     \o SetToSeqX({mk(f, "config", h, TRUE) : f \in {"pcfg", "dirs", "prod"}, h \in ValidHashes})
     \o SetToSeqX({mk("prod", "patch", h, FALSE) : h \in {HexBase1, SubSeq(HexBase1, 1, 5)}})
     \o SetToSeqX({sy(f, "data", hs) : f \in {"build", "pcfg", "dirs", "prod"}, hs \in HashSyms})
UrlInit == cfg \in UrlCfgs /\ hist = <<>> /\ ms = 0 /\ js = 0 /\ clock = 0 /\ bad = FALSE
\* U4 on the model: on one (server, path, scheme) two different (type, lower-cased hash) never share a URL; the product-config
\* URL differs from every typed URL unless the path is the product-config path itself
UrlInjective ==
  Family = "url" =>
    \A c1, c2 \in ContentTypes, h1, h2 \in ValidHashes :
       (UrlOf(cfg.server, cfg.pc, c1, h1, cfg.https) = UrlOf(cfg.server, cfg.pc, c2, h2, cfg.https)) => (c1 = c2 /\ LowerAll(h1) = LowerAll(h2))
\* the judge accepts the documented function itself (records as the driver logs them)
UrlSelf ==
  Family = "url" =>
    \A ct \in ContentTypes, h \in ValidHashes \cup BadHashes :
       LET e == [op |-> "build", server |-> cfg.server, pc |-> cfg.pc, ct |-> ct, hc |-> h, hn |-> [i \in 1..Len(h) |-> 1], https |-> cfg.https, cached |-> TRUE,
                 res |-> IF HashValid(h, [i \in 1..Len(h) |-> 1]) THEN [k |-> "ok", v |-> UrlOf(cfg.server, cfg.pc, ct, h, cfg.https)] ELSE [k |-> "err", kind |-> "x"]]
       IN UrlJudge(e).ok

\* =========================================================================== boot (tables)
HA == "level3.blizzard.com"     \* HTTPS-capable by name
HB == "casc.wago.tools"         \* HTTPS-capable by name
HC == "cdn.arctium.tools"       \* HTTP only by name
HD == "eu.version.battle.net"
CharTab == [x \in {HA, HB, HC, HD, "wow", "wowt", "wow_classic", "us", "ow", "", "tpr/wow", "tpr/wowt", "tpr/wow_classic", "tpr/us", "tpr/", "classic", "zz",
                   "x", "http://x/?maxhosts=4", "tpr/configs/data"} |->
  CASE x = HA -> <<"l","e","v","e","l","3",".","b","l","i","z","z","a","r","d",".","c","o","m">>
    [] x = HB -> <<"c","a","s","c",".","w","a","g","o",".","t","o","o","l","s">>
    [] x = HC -> <<"c","d","n",".","a","r","c","t","i","u","m",".","t","o","o","l","s">>
    [] x = HD -> <<"e","u",".","v","e","r","s","i","o","n",".","b","a","t","t","l","e",".","n","e","t">>
    [] x = "wow" -> <<"w","o","w">> [] x = "wowt" -> <<"w","o","w","t">>
    [] x = "wow_classic" -> <<"w","o","w","_","c","l","a","s","s","i","c">>
    [] x = "us" -> <<"u","s">> [] x = "ow" -> <<"o","w">> [] x = "" -> <<>> [] x = "zz" -> <<"z","z">> [] x = "x" -> <<"x">>
    [] x = "classic" -> <<"c","l","a","s","s","i","c">>
    [] x = "tpr/wow" -> <<"t","p","r","/","w","o","w">> [] x = "tpr/wowt" -> <<"t","p","r","/","w","o","w","t">>
    [] x = "tpr/wow_classic" -> <<"t","p","r","/","w","o","w","_","c","l","a","s","s","i","c">>
    [] x = "tpr/us" -> <<"t","p","r","/","u","s">> [] x = "tpr/" -> <<"t","p","r","/">>
    [] x = "http://x/?maxhosts=4" -> <<"h","t","t","p",":","/","/","x","/","?","m","a","x","h","o","s","t","s","=","4">>
    [] x = "tpr/configs/data" -> <<"t","p","r","/","c","o","n","f","i","g","s","/","d","a","t","a">>]
Sp == <<" ">>
HostLists ==      \* as character sequences
  {<<>>, CharTab[HA], CharTab[HA] \o Sp \o CharTab[HC], CharTab[HC] \o Sp \o Sp \o CharTab[HA], CharTab[HA] \o Sp \o CharTab[HA],
   CharTab[HC], CharTab[HB] \o Sp \o CharTab[HA]} \cup (IF Wide THEN {CharTab[HD] \o Sp \o CharTab[HC] \o Sp \o CharTab[HB], Sp \o CharTab[HC] \o Sp} ELSE {})
BootNames == {"wow", "wowt", ""} \cup (IF Wide THEN {"wow_classic", "us"} ELSE {})
RowAlphabet == {[name |-> n, path |-> p, hosts |-> h] : n \in BootNames, p \in {"tpr/", ""}, h \in HostLists}
\* a row's path is "tpr/<name>" or empty
RowPathC(r) == IF r.path = "" THEN <<>> ELSE CharTab["tpr/"] \o CharTab[r.name]
Headers == << <<"Name", "Path", "Hosts">>, <<"Region", "Path", "Server">>, <<"Name", "Path", "Hosts", "Servers", "ConfigPath">>, <<"Hosts", "Name", "Path">>,
              <<"Name", "Path">> >>
RowCells(hdr, r) == [i \in 1..Len(hdr) |->
  CASE hdr[i] \in {"Name", "Region"} -> CharTab[r.name]
    [] hdr[i] = "Path" -> RowPathC(r)
    [] hdr[i] \in {"Hosts", "Server"} -> r.hosts
    [] hdr[i] = "Servers" -> CharTab["http://x/?maxhosts=4"]
    [] OTHER -> CharTab["tpr/configs/data"]]
BootFilters == {<<>>, <<"wow">>} \cup (IF Wide THEN {<<"wowt">>, <<"classic">>, <<"zz">>} ELSE {})
\* cfg = [hdr (index), rows (sequence of alphabet rows), filter]
RowSeqs(n) == UNION {[1..k -> RowAlphabet] : k \in 0..n}
BootCfgs ==
  {[hdr |-> 1, rows |-> rs, filter |-> f] : rs \in RowSeqs(D), f \in BootFilters}
  \cup {[hdr |-> h, rows |-> rs, filter |-> f] : h \in 1..Len(Headers), rs \in RowSeqs(1), f \in BootFilters \cup {<<"ow">>}}
BootQueries ==
  <<[q |-> "stats"], [q |-> "validate"], [q |-> "primary"], [q |-> "getpath", p |-> "wow"], [q |-> "getpath", p |-> "wow_classic"],
    [q |-> "getpath", p |-> "w"], [q |-> "getpath", p |-> "zz"], [q |-> "runtime"], [q |-> "merge", fbk |-> "fallback"],
    [q |-> "cfgupd", base |-> "default"], [q |-> "cfgfrom", base |-> "development"]>>
BootProgram(c) ==
  [fam |-> "boot",
   src |-> [parse |-> [hdr |-> Headers[c.hdr], rows |-> [i \in 1..Len(c.rows) |-> [j \in 1..Len(Headers[c.hdr]) |-> Flat(RowCells(Headers[c.hdr], c.rows[i])[j])]],
                       filter |-> c.filter, seqn |-> (Len(c.rows) % 2 = 1)]],
   qs |-> BootQueries]
BootInit == cfg \in BootCfgs /\ hist = <<>> /\ ms = 0 /\ js = 0 /\ clock = 0 /\ bad = FALSE
\* the record the driver would log for this table, from the documented function (ideal) or the function as coded
BootTable(c) == ParseTable(Headers[c.hdr], [i \in 1..Len(c.rows) |-> RowCells(Headers[c.hdr], c.rows[i])],
                           IF c.filter = <<>> THEN <<>> ELSE <<CharTab[c.filter[1]]>>)
PairSeq(fn) == SetToSeqX(PathPairs(fn))
BootEvent(c, servers) ==
  LET m == BootTable(c) IN
  [src |-> [parse |-> [hdr |-> Headers[c.hdr]]], same |-> TRUE,
   rc |-> [i \in 1..Len(c.rows) |-> RowCells(Headers[c.hdr], c.rows[i])], fc |-> IF c.filter = <<>> THEN <<>> ELSE <<CharTab[c.filter[1]]>>,
   res |-> IF m.err THEN [k |-> "err"]
           ELSE [k |-> "ok", servers |-> servers, paths |-> PairSeq(m.paths), pref |-> DedupStr(m.pref, {}), official |-> TRUE]]
ServersIdeal(c) == StableSortBy("https", DedupHosts(BootTable(c).raw, {}))
ServersCode(c) == StableSortBy("https", BootTable(c).raw)
BootSelf == (Family = "boot" /\ Variant = "ideal") =>
  LET v == BootJudgeNew(BootEvent(cfg, ServersIdeal(cfg))) IN v.ok /\ v.devs = {}
\* pinned (FX12f): the list as coded is accepted without a deviation - must be REFUTED
BootPinned == (Family = "boot" /\ Variant = "code") =>
  LET v == BootJudgeNew(BootEvent(cfg, ServersCode(cfg))) IN v.ok /\ v.devs \subseteq KnownDeviations
\* B1 in its own words: no host twice; HTTPS-capable servers first; equal keys keep row order
BootShape == (Family = "boot" /\ ~BootTable(cfg).err) =>
  LET s == IF Variant = "code" THEN ServersCode(cfg) ELSE ServersIdeal(cfg) IN
  /\ ~HasDupHosts(s)
  /\ \A i, j \in 1..Len(s) : (s[i][2] = 1 /\ s[j][2] = 0) => i < j

\* =========================================================================== mk (hand-made bootstraps, merge, get_path)
SrvAlphabet == {<<h, IF h = HC THEN FALSE ELSE TRUE, p>> : h \in {HA, HC, HD}, p \in {10, 20, -1}}
SrvLists(n) == UNION {[1..k -> SrvAlphabet] : k \in 0..n}
KeySets == {{}, {"wow"}, {"wow", "wow_classic"}, {"wow", "wowt"}, {"wowt", "wow_classic"}, {""}, {"us", "wow", "wowt"}}
FbBuiltin == [k |-> "builtin", s |-> <<>>]
MkCfgs == {[servers |-> s, keys |-> k, fb |-> f] : s \in SrvLists(2), k \in (IF Wide THEN KeySets ELSE {{"wow", "wow_classic"}}),
                                                   f \in {FbBuiltin} \cup {[k |-> "custom", s |-> <<x>>] : x \in SrvAlphabet} \cup (IF Wide THEN {[k |-> "custom", s |-> <<>>]} ELSE {})}
          \cup {[servers |-> s, keys |-> k, fb |-> FbBuiltin] : s \in SrvLists(1), k \in KeySets}
MkQueries(c) ==
  <<[q |-> "stats"], [q |-> "validate"], [q |-> "primary"], [q |-> "getpath", p |-> "wow"], [q |-> "getpath", p |-> "wow_classic_ptr"],
    [q |-> "getpath", p |-> "w"], [q |-> "getpath", p |-> "us"], [q |-> "runtime"],
    IF c.fb.k = "builtin" THEN [q |-> "merge", fbk |-> "fallback"]
    ELSE [q |-> "merge", fbk |-> "custom", fb |-> [servers |-> c.fb.s, paths |-> << <<"wow", "fb/wow">>, <<"zz", "fb/zz">> >>]],
    [q |-> "cfgupd", base |-> "high_availability"], [q |-> "cfgfrom", base |-> "blizzard_only"],
    [q |-> "cfgrm", base |-> "default", hosts |-> <<HA, "casc.wago.tools", "nobody.example.org">>],
    [q |-> "cfgrm", base |-> "blizzard_only", hosts |-> <<HA>>],
    [q |-> "cfgrm", base |-> "community_only", hosts |-> <<"casc.wago.tools", "cdn.arctium.tools", "archive.wow.tools">>],
    [q |-> "cfgmerge", base |-> "community_only", servers |-> c.servers \o << <<HD, TRUE, 15>>, <<HD, FALSE, 5>> >>],
    [q |-> "cfgprio", base |-> "blizzard_only", upd |-> << <<HA, 35>>, <<"eu.cdn.blizzard.com", 0>>, <<"us.cdn.blizzard.com", -1>> >>]>>
MkProgram(c) ==
  [fam |-> "boot", src |-> [mk |-> [servers |-> c.servers, paths |-> [i \in 1..Len(SetToSeqX(c.keys)) |-> <<SetToSeqX(c.keys)[i], "tpr/" \o SetToSeqX(c.keys)[i]>>],
                                   official |-> (Len(c.servers) % 2 = 0)]],
   qs |-> MkQueries(c)]
MkInit == cfg \in MkCfgs /\ hist = <<>> /\ ms = 0 /\ js = 0 /\ clock = 0 /\ bad = FALSE
\* --- merge at model level: priorities as the log shows them (u32::MAX = HugeP)
LogSrv(s) == <<s[1], IF s[2] THEN 1 ELSE 0, IF s[3] < 0 THEN HugeP ELSE s[3]>>
LogSrvs(xs) == [i \in 1..Len(xs) |-> LogSrv(xs[i])]
BuiltinFb == << <<"cdn.arctium.tools", 1, 100>>, <<"casc.wago.tools", 1, 110>>, <<"cdn.marlam.in", 1, 120>> >>
SatP(x) == IF x >= HugeP THEN HugeP ELSE x
SatAdd(a, b) == IF a >= HugeP \/ b >= HugeP THEN HugeP ELSE SatP(a + b)
MaxPrio(xs) == IF xs = <<>> THEN -1 ELSE CHOOSE x \in {xs[i][3] : i \in 1..Len(xs)} : \A y \in {xs[i][3] : i \in 1..Len(xs)} : x >= y
\* the merge as documented, with saturating priority arithmetic
MergeIdeal(off, fb) ==
  LET offset == IF off = <<>> THEN 1000 ELSE SatAdd(MaxPrio(off), 100)
      added == DedupHosts(FilterSeq(fb, LAMBDA s : s[1] \notin HostsOf(off)), {})
  IN StableSortBy("prio", off \o [i \in 1..Len(added) |-> <<added[i][1], added[i][2], SatAdd(added[i][3], offset)>>])
\* as coded: u32 arithmetic with overflow checks
MergePanics(off, fb) ==
  LET added == DedupHosts(FilterSeq(fb, LAMBDA s : s[1] \notin HostsOf(off)), {}) IN
  (off # <<>> /\ MaxPrio(off) >= HugeP) \/ (\E i \in 1..Len(added) : added[i][3] >= HugeP)
MergeEvent(c, panics) ==
  LET off == LogSrvs(c.servers)
      fb  == IF c.fb.k = "builtin" THEN BuiltinFb ELSE LogSrvs(c.fb.s)
      ks  == SetToSeqX(c.keys)
      bp  == [i \in 1..Len(ks) |-> <<ks[i], "tpr/" \o ks[i]>>]
      fp  == IF c.fb.k = "builtin" THEN << <<"wow", "tpr/wow">>, <<"wowt", "tpr/wowt">> >> ELSE << <<"wow", "fb/wow">>, <<"zz", "fb/zz">> >>
      op  == SetToSeqX({<<bp[i][1], bp[i][2]>> : i \in 1..Len(bp)} \cup {<<fp[i][1], fp[i][2]>> : i \in {j \in 1..Len(fp) : fp[j][1] \notin c.keys}})
      base == IF c.fb.k = "builtin" THEN [op |-> "merge", fbk |-> "fallback"] ELSE [op |-> "merge", fbk |-> "custom", fb |-> [servers |-> c.fb.s]]
  IN [b |-> [servers |-> off, paths |-> {<<bp[i][1], bp[i][2]>> : i \in 1..Len(bp)}, pref |-> <<>>, official |-> FALSE],
      e |-> McMerge(base, [res |-> IF panics THEN [k |-> "panic"]
                                   ELSE [k |-> "ok", fb_valid |-> TRUE, fbv |-> [servers |-> fb, paths |-> fp, pref |-> <<>>, official |-> FALSE],
                                         out |-> [servers |-> MergeIdeal(off, fb), paths |-> op, pref |-> <<>>, official |-> FALSE]]])]
\* --- get_path at model level
PathsOf(c) == {<<k, "tpr/" \o k>> : k \in c.keys}
KeyCharsTab == [k \in {"wow", "wowt", "wow_classic", "us", ""} |-> CharTab[k]]
QueryChars == [q \in {"wow", "wow_classic_ptr", "w", "us"} |->
  CASE q = "wow" -> CharTab["wow"] [] q = "us" -> CharTab["us"] [] q = "w" -> <<"w">>
    [] OTHER -> CharTab["wow_classic"] \o <<"_","p","t","r">>]
GetCands(c, q) == IF q \in c.keys THEN {"tpr/" \o q}
                  ELSE {"tpr/" \o k : k \in {x \in c.keys : ContainsSeq(KeyCharsTab[x], QueryChars[q]) \/ ContainsSeq(QueryChars[q], KeyCharsTab[x])}}
GetEvent(c, q, answers) ==    \* answers: a sequence of Option values
  LET ks == SetToSeqX(c.keys) IN
  [b |-> [servers |-> <<>>, paths |-> PathsOf(c), pref |-> <<>>, official |-> FALSE],
   e |-> [op |-> "getpath", p |-> q, res |-> [k |-> "ok", rs |-> answers, qc |-> QueryChars[q], kc |-> [i \in 1..Len(ks) |-> KeyCharsTab[ks[i]]]]]]
Judged(x) == BootJudge(x.b, x.e)
MkSelf == (Family = "mk" /\ Variant = "ideal") =>
  /\ LET v == Judged(MergeEvent(cfg, FALSE)) IN v.ok /\ v.devs = {}
  /\ \A q \in DOMAIN QueryChars :
        LET cs == GetCands(cfg, q)
            a  == IF cs = {} THEN <<>> ELSE <<CHOOSE x \in cs : TRUE>>
            v  == Judged(GetEvent(cfg, q, <<a, a, a>>))
        IN v.ok /\ v.devs = {}
\* pinned (FX12c, FX12b): the functions as coded are accepted without a deviation - must be REFUTED
MkPinnedMerge == (Family = "mk" /\ Variant = "code") =>
  LET v == Judged(MergeEvent(cfg, MergePanics(LogSrvs(cfg.servers), IF cfg.fb.k = "builtin" THEN BuiltinFb ELSE LogSrvs(cfg.fb.s))))
  IN v.ok /\ v.devs \subseteq KnownDeviations
MkPinnedGet == (Family = "mk" /\ Variant = "code") =>
  \A q \in DOMAIN QueryChars :
     \* as coded: the first match in HashMap iteration order - any candidate, independently per instance
     \A a1, a2 \in {<<x>> : x \in GetCands(cfg, q)} :
        LET v == Judged(GetEvent(cfg, q, <<a1, a2>>)) IN v.ok /\ v.devs \subseteq KnownDeviations

\* =========================================================================== cfg
IntSyms == <<"0", "1", "2", "8", "64k", "1m", "2p32", "big", "2p62", "max">>
SymB8 == [x \in SeqRange(IntSyms) \cup {"max32"} |->
  CASE x = "0" -> B8OfInt(0) [] x = "1" -> B8OfInt(1) [] x = "2" -> B8OfInt(2) [] x = "8" -> B8OfInt(8)
    [] x = "64k" -> B8OfInt(65536) [] x = "1m" -> B8OfInt(1048576) [] x = "2p32" -> <<0, 0, 0, 0, 1, 0, 0, 0>>
    [] x = "big" -> <<0, 0, 0, 0, 0, 1, 0, 0>> [] x = "2p62" -> <<0, 0, 0, 0, 0, 0, 0, 64>>
    [] x = "max32" -> <<255, 255, 255, 255, 0, 0, 0, 0>> [] OTHER -> B8Max]
JitSyms == <<"0", "0.5", "1", "-0.001", "1.001", "2", "nan", "inf", "-inf", "-0", "eps-", "1+">>
JitLog == [x \in SeqRange(JitSyms) |->
  CASE x = "0" -> <<"fin", 0>> [] x = "0.5" -> <<"fin", 500000>> [] x = "1" -> <<"fin", 1000000>> [] x = "-0.001" -> <<"fin", -1000>>
    [] x = "1.001" -> <<"fin", 1001000>> [] x = "2" -> <<"fin", 2000000>> [] x = "nan" -> <<"nan", 0>> [] x = "inf" -> <<"inf", 0>>
    [] x = "-inf" -> <<"-inf", 0>> [] x = "-0" -> <<"fin", 0>> [] x = "eps-" -> <<"fin", -1>> [] OTHER -> <<"fin", 1000001>>]
SrvSyms == <<"none", "one", "emptyhost", "three">>
CfgAssignments ==
  {<<f, v>> : f \in {"mcph", "sbs", "mrs", "rct", "mrpr", "mtc"}, v \in SeqRange(IntSyms)}
  \cup {<<f, v>> : f \in {"rmax", "mfa"}, v \in {"0", "1", "2", "8", "max32"}}
  \cup {<<"jit", v>> : v \in SeqRange(JitSyms)} \cup {<<"srv", v>> : v \in SeqRange(SrvSyms)}
  \cup {<<f, v>> : f \in {"rbase", "rmaxd", "rto", "cto", "ttl"}, v \in {"0", "1ns", "max"}} \cup {<<"mred", "max">>, <<"pmph", "0">>}
\* the fields validate() and the estimate relate to each other
RelAssignments == {a \in CfgAssignments : a[1] \in {"mcph", "sbs", "mrs", "rct", "mtc"}}
CfgBases == <<"default", "high_throughput", "low_memory", "unreliable_network", "cdn:blizzard_only", "cdn:community_only", "cdn:high_availability",
              "cdn:development", "parts">>
FieldOrder == <<"mcph", "sbs", "mrs", "rct", "mrpr", "mred", "rmax", "jit", "rbase", "rmaxd", "mtc", "pmph", "rto", "cto", "ttl", "mfa", "srv">>
FieldPos(f) == CHOOSE i \in 1..Len(FieldOrder) : FieldOrder[i] = f
CfgCfgs ==
  {[base |-> b, set |-> <<>>] : b \in SeqRange(CfgBases)}
  \cup {[base |-> b, set |-> <<a>>] : b \in SeqRange(CfgBases), a \in CfgAssignments}
  \cup (IF D >= 2 THEN {[base |-> "default", set |-> <<a1, a2>>] : a1, a2 \in (IF D >= 3 THEN CfgAssignments ELSE RelAssignments)} ELSE {})
  \cup (IF D >= 3 THEN {[base |-> "default", set |-> << <<"mcph", v>>, a1, a2>>] : a1 \in {<<"sbs", x>> : x \in SeqRange(IntSyms)},
                                                                                   a2 \in {<<"mtc", x>> : x \in SeqRange(IntSyms)}, v \in SeqRange(IntSyms)} ELSE {})
\* only ordered pairs of different fields
CfgOk(c) == \A i, j \in 1..Len(c.set) : i < j => FieldPos(c.set[i][1]) < FieldPos(c.set[j][1])
CfgInit == cfg \in {c \in CfgCfgs : CfgOk(c)} /\ hist = <<>> /\ ms = 0 /\ js = 0 /\ clock = 0 /\ bad = FALSE
CfgProgram(c) == [fam |-> "cfg", base |-> c.base, set |-> c.set]
\* the fields of StreamingConfig::default() with the assignments of c (base "default" only: the model-level check)
Assigned(c, f) == \E i \in 1..Len(c.set) : c.set[i][1] = f
ValOf(c, f) == c.set[CHOOSE i \in 1..Len(c.set) : c.set[i][1] = f][2]
DefaultInt == [mcph |-> 8, sbs |-> 65536, mrs |-> 10485760, rct |-> 65536, mrpr |-> 6, rmax |-> 3, mtc |-> 100, mfa |-> 3]
FieldsOf(c) ==
  LET num(f) == IF Assigned(c, f) THEN SymB8[ValOf(c, f)] ELSE B8OfInt(DefaultInt[f])
      jit == IF Assigned(c, "jit") THEN JitLog[ValOf(c, "jit")] ELSE <<"fin", 100000>>
      srv == IF Assigned(c, "srv") THEN ValOf(c, "srv") ELSE "seven"
  IN [mcph |-> num("mcph"), sbs |-> num("sbs"), mrs |-> num("mrs"), rct |-> num("rct"), mrpr |-> num("mrpr"), rmax |-> num("rmax"),
      jk |-> jit[1], jm |-> jit[2], mtc |-> num("mtc"), mfa |-> num("mfa"),
      nsrv |-> CASE srv = "none" -> 0 [] srv = "one" -> 1 [] srv = "emptyhost" -> 2 [] srv = "three" -> 3 [] OTHER -> 7,
      emptyhost |-> (srv = "emptyhost")]
\* validate() as coded: the first failing test, NaN passing both comparisons
CodeVerdict(f, nanPasses) ==
  LET jitBad == IF f.jk = "nan" THEN ~nanPasses ELSE ~JitterOk(f)
      tests == << <<B8Zero(f.mcph), "max_connections_per_host must be greater than 0">>, <<B8Zero(f.sbs), "stream_buffer_size must be greater than 0">>,
                  <<B8Zero(f.mrs), "max_range_size must be greater than 0">>, <<B8Zero(f.mrpr), "max_ranges_per_request must be greater than 0">>,
                  <<B8Less(f.mrs, f.rct), "range_coalesce_threshold should not exceed max_range_size">>,
                  <<B8Zero(f.rmax), "retry.max_attempts must be greater than 0">>, <<jitBad, "retry.jitter_factor must be between 0.0 and 1.0">>,
                  <<B8Zero(f.mtc), "connection_pool.max_total_connections must be greater than 0">>,
                  <<B8Less(f.mtc, f.mcph), "connection_pool.max_total_connections should be >= max_connections_per_host">>,
                  <<f.nsrv = 0, "At least one CDN server must be configured">>, <<B8Zero(f.mfa), "max_failover_attempts must be greater than 0">>,
                  <<B8Less(B8OfInt(f.nsrv), f.mfa), "max_failover_attempts should not exceed number of servers">>,
                  <<f.emptyhost, "Server 1 has empty host">> >>
      failing == {i \in 1..Len(tests) : tests[i][1]}
  IN IF failing = {} THEN [k |-> "ok"] ELSE [k |-> "err", msg |-> tests[CHOOSE i \in failing : \A j \in failing : i <= j][2]]
CdnVerdict(f) ==
  LET tests == << <<f.nsrv = 0, "At least one CDN server must be configured">>, <<B8Zero(f.mfa), "max_failover_attempts must be greater than 0">>,
                  <<B8Less(B8OfInt(f.nsrv), f.mfa), "max_failover_attempts should not exceed number of servers">>, <<f.emptyhost, "Server 1 has empty host">> >>
      failing == {i \in 1..Len(tests) : tests[i][1]}
  IN IF failing = {} THEN [k |-> "ok"] ELSE [k |-> "err", msg |-> tests[CHOOSE i \in failing : \A j \in failing : i <= j][2]]
CfgEvent(c, coded) ==
  LET f == FieldsOf(c)  v == CodeVerdict(f, coded) IN
  [op |-> "cfg", set |-> c.set, f |-> f, res |-> v, cres |-> CdnVerdict(f), again |-> (v.k = "ok"), updatable |-> TRUE,
   mem |-> IF coded /\ MemOverflows(f) THEN [k |-> "panic"] ELSE [k |-> "ok", v |-> MemWant(f)]]
CfgSelf == (Family = "cfg" /\ Variant = "ideal" /\ cfg.base = "default") =>
  LET v == CfgJudge(CfgEvent(cfg, FALSE)) IN v.ok /\ v.devs = {}
\* pinned (FX12d, FX12e): the configuration as coded is accepted without a deviation - must be REFUTED
CfgPinned == (Family = "cfg" /\ Variant = "code" /\ cfg.base = "default") =>
  LET v == CfgJudge(CfgEvent(cfg, TRUE)) IN v.ok /\ v.devs \subseteq KnownDeviations

\* =========================================================================== env
EnvVals == <<"0", "7", "300", "4294967295", "4294967296", "18446744073709551615", "18446744073709551616", "-1", "abc", "", "1.5", "0x10", "007">>
EnvNumVars == SetToSeqX(DOMAIN EnvNumDefault \cup DOMAIN EnvBigDefault)
EnvCfgs == {<<>>} \cup {<< <<EnvNumVars[i], EnvVals[j]>> >> : i \in 1..Len(EnvNumVars), j \in 1..Len(EnvVals)}
           \cup {[i \in 1..Len(EnvNumVars) |-> <<EnvNumVars[i], EnvVals[1 + ((i + k) % Len(EnvVals))]>>] : k \in 0..(Len(EnvVals) - 1)}
           \cup {<< <<"CASCETTE_RIBBIT_URL", "tcp://eu.version.battle.net:1119">>, <<"CASCETTE_CACHE_DIR", "/tmp/x12-cache">>,
                    <<"CASCETTE_TACT_HTTPS_URL", "">>, <<"CASCETTE_TACT_HTTP_URL", "not a url">> >>}
EnvInit == cfg \in EnvCfgs /\ hist = <<>> /\ ms = 0 /\ js = 0 /\ clock = 0 /\ bad = FALSE

\* =========================================================================== top level
MCInit == CASE Family \in {"time", "rules"} -> CacheInit
            [] Family = "url"  -> UrlInit
            [] Family = "boot" -> BootInit
            [] Family = "mk"   -> MkInit
            [] Family = "cfg"  -> CfgInit
            [] Family = "env"  -> EnvInit
MCNext == IF Family \in {"time", "rules"} THEN CacheNext ELSE UNCHANGED <<cfg, hist, ms, js, clock, bad>>
Constr == Len(hist) <= D
Program ==
  CASE Family \in {"time", "rules"} -> [fam |-> "cache", cfg |-> cfg, U |-> UU, ops |-> hist]
    [] Family = "url"  -> [fam |-> "url", calls |-> UrlCalls(cfg)]
    [] Family = "boot" -> BootProgram(cfg)
    [] Family = "mk"   -> MkProgram(cfg)
    [] Family = "cfg"  -> CfgProgram(cfg)
    [] Family = "env"  -> [fam |-> "env", vars |-> cfg]
\* (TLC evaluates invariants also on the successors it then discards by the CONSTRAINT, hence the upper bound)
Emit == ((Family \in {"time", "rules"}) => (Len(hist) >= 1 /\ Len(hist) <= D)) => PrintT(<<"PROGRAM", ToJson(Program)>>)
=============================================================================
