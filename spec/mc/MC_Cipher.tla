------------------------------ MODULE MC_Cipher ------------------------------
(***************************************************************************)
(* Bounded exhaustive check of the keystream-composition machine of        *)
(* Cipher.tla with a toy keystream, and generator of cutting programs      *)
(* (binding G): every way of cutting a message of up to N units into at    *)
(* most MaxCuts chunks (empty chunks included).  The driver scales the     *)
(* units to bytes and runs each cutting on the real Salsa20Cipher and      *)
(* Arc4Cipher.                                                             *)
(*                                                                         *)
(* Mode "check": all messages over Alphabet, invariants Composition and    *)
(*               RoundTrip.                                                *)
(* Mode "gen"  : Alphabet = {0} (one message per length); Emit prints each *)
(*               complete cutting once.                                    *)
(* Variant "reset_pos" is a deliberately wrong machine (the position       *)
(* restarts with every chunk): TLC must refute Composition on it           *)
(* (anti-vacuity of the model-level check).                                *)
(***************************************************************************)
EXTENDS Cipher, TLC, Json

CONSTANTS Alphabet, N, MaxCuts, Mode, Variant
VARIABLES msg,    \* the whole input
          rest,   \* input not yet applied
          acc,    \* concatenated outputs
          cuts    \* chunk lengths so far (the program)

\* toy keystream over 0..3, not periodic with any small period
ToyK(i) == (i * i + (i \div 2) + 1) % 4

Msgs == UNION {[1..n -> Alphabet] : n \in 0..N}

MCInit == CInit /\ msg \in Msgs /\ rest = msg /\ acc = <<>> /\ cuts = <<>>

Chunk(n) == SubSeq(rest, 1, n)

MCNext ==
  \E n \in 0..Len(rest) :
    /\ Len(cuts) < MaxCuts
    /\ IF Variant = "reset_pos"
         THEN pos' = pos + n /\ out' = XorAt(ToyK, 0, Chunk(n))
         ELSE CApply(ToyK, Chunk(n))
    /\ acc' = acc \o out'
    /\ rest' = SubSeq(rest, n + 1, Len(rest))
    /\ cuts' = Append(cuts, n)
    /\ UNCHANGED msg

\* chunk after chunk = at once, at every point of every cutting
Composition == /\ pos = Len(msg) - Len(rest)
               /\ acc = Whole(ToyK, SubSeq(msg, 1, pos))
\* decrypt after encrypt is the identity
RoundTrip == rest = <<>> => Whole(ToyK, acc) = msg

Emit == (Mode = "gen" /\ rest = <<>>) => PrintT(<<"PROGRAM", ToJson([cuts |-> cuts])>>)
=============================================================================
