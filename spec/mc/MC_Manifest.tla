---------------------------- MODULE MC_Manifest ----------------------------
(***************************************************************************)
(* Bounded exhaustive checking of Manifest.tla and generation of builder   *)
(* programs (binding G).                                                   *)
(*                                                                         *)
(* Family "seq":  every sequence of <= D builder operations from the empty *)
(*                builder (all positions 0..n, n = one past the end; tag   *)
(*                names present or absent; at most MaxBad refused ops).    *)
(* Family "edge": the builder is first filled with n0 files (every n0 in   *)
(*                N0, around the byte boundaries 8 and 16) and two tags    *)
(*                (A = the byte-edge positions, B = a membership pattern), *)
(*                then every sequence of <= D                              *)
(*                (pattern 1) or <= D2 (other patterns) operations over    *)
(*                ALL positions follows.                                   *)
(* Family "tags": the builder is first filled with nt tags A, B, C(, D)    *)
(*                (every nt in NTs) and n0 files, tag j holding the files  *)
(*                i with i mod nt = j-1; then every sequence of <= D       *)
(*                operations that name ANY tag follows: remove_tag of an   *)
(*                early, middle or late tag, then associate / dissociate / *)
(*                remove_tag / re-add by name.  (A builder that keeps a    *)
(*                name -> index table must renumber it whatever the        *)
(*                position of the removed tag.)  "sizetags" is the same    *)
(*                prefill on the size builder (tag_file by tag index).     *)
(* Family "size": the size-manifest builder (add_entry / add_tag /         *)
(*                tag_file on positions that may be filled later).         *)
(*                                                                         *)
(* Mode "gen":   the history is part of the state: every program is one    *)
(*               state, printed by Emit when it ends with `build`.         *)
(* Mode "reach": VIEW MCView hides the history; the design-level           *)
(*               invariants of Manifest.tla (mask layout, query algebra,   *)
(*               reader-inverts-writer for every container format) are     *)
(*               checked on every reachable model state.                   *)
(***************************************************************************)
EXTENDS Manifest, TLC, Json

CONSTANTS Family,    \* "seq" | "edge" | "tags" | "sizetags" | "size"
          NTs,       \* set of prefill tag counts 3..4 (tags, sizetags)
          D, D2,     \* program length after the prefill
          N0,        \* set of prefill file counts (edge)
          Pats,      \* set of membership patterns 1..5 (edge)
          Orders,    \* subset of {"tf", "ft"}: tags before files / files before tags (edge)
          Universe,  \* tag names that operations may mention
          MaxBad,    \* at most this many refused operations per program
          Defects    \* {} = the design; {"F19a"}, {"F19b"}: the code-shaped parts behave like the unchanged code

VARIABLES hist, k, done, bad,
          bmI, bmD   \* code-shaped byte vectors per tag: install-shaped (in family "size": size-shaped) / download-shaped

Positional == Family \in {"size", "sizetags"}

\* deterministic attributes of the file with a given id: sizes walk through the 40-bit
\* corner cases, priorities through the signed byte range and the category borders
SzTab == << <<0, 1>>, <<0, 0>>, <<255, 16777215>>, <<256, 0>>, <<65535, 16777215>>, <<0, 1000>>, <<1, 0>> >>
PrTab == <<0, -1, 1, 2, 3, 5, 6, 127, -128>>
SzOfId(id) == SzTab[(id % Len(SzTab)) + 1]
PrOfId(id) == PrTab[(id % Len(PrTab)) + 1]
TyOf(t) == CASE t = "A" -> 1 [] t = "B" -> 2 [] t = "C" -> 16384 [] OTHER -> 32768

OpAddFile == [op |-> "add_file", sz |-> SzOfId(m.next), pr |-> PrOfId(m.next)]
OpAddTag(t) == [op |-> "add_tag", t |-> t, ty |-> TyOf(t)]

IdxSeq(n) == [j \in 1..n |-> j - 1]
PatSeq(n, p) ==
  CASE p = 1 -> SelectSeq(IdxSeq(n), LAMBDA i : i % 2 = 0 \/ i = n - 1)
    [] p = 2 -> IdxSeq(n)
    [] p = 3 -> SelectSeq(IdxSeq(n), LAMBDA i : i = n - 1)
    [] p = 4 -> <<>>
    [] OTHER -> SelectSeq(IdxSeq(n), LAMBDA i : i % 2 = 1)
EdgeSeq(n) == SelectSeq(IdxSeq(n), LAMBDA i : i % 8 = 0 \/ i % 8 = 7)

PreOps(n, p, ord) ==
  LET files == <<[op |-> "add_files", files |-> [j \in 1..n |-> <<SzOfId(j - 1)[1], SzOfId(j - 1)[2], PrOfId(j - 1)>>]]>>
      tags  == <<OpAddTag("A"), OpAddTag("B")>>
      assoc == <<[op |-> "assoc_set", t |-> "A", files |-> EdgeSeq(n)],
                 [op |-> "assoc_set", t |-> "B", files |-> PatSeq(n, p)]>>
  IN IF ord = "tf" THEN tags \o files \o assoc ELSE files \o tags \o assoc

TagSeq == <<"A", "B", "C", "D">>
PreTags(n, nt, ord) ==
  LET files == <<[op |-> "add_files", files |-> [j \in 1..n |-> <<SzOfId(j - 1)[1], SzOfId(j - 1)[2], PrOfId(j - 1)>>]]>>
      tags  == [j \in 1..nt |-> OpAddTag(TagSeq[j])]
      assoc == [j \in 1..nt |-> [op |-> "assoc_set", t |-> TagSeq[j], files |-> SelectSeq(IdxSeq(n), LAMBDA i : i % nt = j - 1)]]
  IN IF ord = "tf" THEN tags \o files \o assoc ELSE files \o tags \o assoc

RECURSIVE Fold(_, _, _)
Fold(mm, ops, j) == IF j > Len(ops) THEN mm ELSE Fold(ApplyOp(mm, Positional, ops[j]).st, ops, j + 1)

\* the compound prefill operations as the primitive calls the driver makes
RECURSIVE Prim(_, _)
Prim(ops, j) ==
  IF j > Len(ops) THEN <<>>
  ELSE LET e == ops[j] IN
       IF e.op = "add_files"
       THEN [x \in 1..Len(e.files) |-> [op |-> "add_file", sz |-> <<e.files[x][1], e.files[x][2]>>, pr |-> e.files[x][3]]] \o Prim(ops, j + 1)
       ELSE IF e.op = "assoc_set"
       THEN [x \in 1..Len(e.files) |-> [op |-> "assoc", i |-> e.files[x], t |-> e.t]] \o Prim(ops, j + 1)
       ELSE <<e>> \o Prim(ops, j + 1)
ShapeI == IF Positional THEN "size" ELSE "install"
RECURSIVE FoldImpl(_, _, _, _, _)
FoldImpl(bm, shape, mm, ops, j) ==
  IF j > Len(ops) THEN bm
  ELSE FoldImpl(ImplApplyOp(bm, shape, mm, ops[j]), shape, ApplyOp(mm, Positional, ops[j]).st, ops, j + 1)

VARIABLE lim   \* operation budget of this program (depends on the pattern in family "edge")

MCInit ==
  /\ k = 0 /\ done = FALSE /\ bad = 0
  /\ IF Family = "edge"
     THEN \E n \in N0, p \in Pats, ord \in Orders :
            /\ hist = PreOps(n, p, ord)
            /\ m = Fold(M0, PreOps(n, p, ord), 1)
            /\ bmI = FoldImpl(<<>>, "install", M0, Prim(PreOps(n, p, ord), 1), 1)
            /\ bmD = FoldImpl(<<>>, "download", M0, Prim(PreOps(n, p, ord), 1), 1)
            /\ lim = IF p = 1 THEN D ELSE D2
     ELSE IF Family \in {"tags", "sizetags"}
     THEN \E n \in N0, nt \in NTs, ord \in Orders :
            /\ hist = PreTags(n, nt, ord)
            /\ m = Fold(M0, PreTags(n, nt, ord), 1)
            /\ bmI = FoldImpl(<<>>, ShapeI, M0, Prim(PreTags(n, nt, ord), 1), 1)
            /\ bmD = FoldImpl(<<>>, "download", M0, Prim(PreTags(n, nt, ord), 1), 1)
            /\ lim = D
     ELSE hist = <<>> /\ m = M0 /\ lim = D /\ bmI = <<>> /\ bmD = <<>>

N == NFiles(m)
OpsSeq ==
  {OpAddFile, [op |-> "reopen"]}
  \cup {OpAddTag(t) : t \in Universe \ TagNames(m)}
  \cup {[op |-> "assoc", i |-> i, t |-> t] : i \in 0..N, t \in Universe}
  \cup {[op |-> "dissoc", i |-> i, t |-> t] : i \in 0..N, t \in Universe}
  \cup {[op |-> "remove_file", i |-> i] : i \in 0..N}
  \cup {[op |-> "remove_tag", t |-> t] : t \in Universe}
\* (the operations address the SECOND tag and remove the FIRST, so that a builder which keeps a
\* name -> index table must renumber it)
OpsEdge ==
  {OpAddFile, OpAddTag("C"), [op |-> "remove_tag", t |-> "A"], [op |-> "reopen"]}
  \cup {[op |-> "assoc", i |-> i, t |-> "B"] : i \in 0..(N - 1)}
  \cup {[op |-> "dissoc", i |-> i, t |-> "B"] : i \in 0..(N - 1)}
  \cup {[op |-> "remove_file", i |-> i] : i \in 0..(N - 1)}
\* size builder: positions up to one past the end may be tagged in advance
OpsSize ==
  {OpAddFile}
  \cup {OpAddTag(t) : t \in Universe \ TagNames(m)}
  \cup {[op |-> "assoc", i |-> i, t |-> t] : i \in 0..(N + 1), t \in TagNames(m)}
\* every tag that exists or existed is addressed by name; a removed name may be added again
Named == {TagSeq[j] : j \in 1..4} \cap ({hist[j].t : j \in {x \in 1..Len(hist) : hist[x].op = "add_tag"}})
OpsTags ==
  {OpAddFile, [op |-> "reopen"]}
  \cup {OpAddTag(t) : t \in Named \ TagNames(m)}
  \cup {[op |-> "remove_tag", t |-> t] : t \in TagNames(m)}
  \cup {[op |-> "assoc", i |-> i, t |-> t] : i \in 0..(N - 1), t \in TagNames(m)}
  \cup {[op |-> "dissoc", i |-> i, t |-> t] : i \in 0..(N - 1), t \in TagNames(m)}
  \cup {[op |-> "remove_file", i |-> i] : i \in 0..(N - 1)}
OpsSizeTags ==
  {OpAddFile} \cup {[op |-> "assoc", i |-> i, t |-> t] : i \in 0..N, t \in TagNames(m)}
Ops == CASE Family = "seq" -> OpsSeq [] Family = "edge" -> OpsEdge [] Family = "tags" -> OpsTags
         [] Family = "sizetags" -> OpsSizeTags [] OTHER -> OpsSize

MCNext ==
  /\ ~done
  /\ \/ /\ k < lim
        /\ \E e \in Ops :
             LET r == ApplyOp(m, Positional, e) IN
             /\ r.valid # "unspec"
             /\ bad + (IF r.valid = "yes" THEN 0 ELSE 1) <= MaxBad
             /\ m' = r.st
             /\ bmI' = IF r.valid = "yes" THEN ImplApplyOp(bmI, ShapeI, m, e) ELSE bmI
             /\ bmD' = IF r.valid = "yes" THEN ImplApplyOp(bmD, "download", m, e) ELSE bmD
             /\ bad' = bad + (IF r.valid = "yes" THEN 0 ELSE 1)
             /\ hist' = Append(hist, e)
        /\ k' = k + 1 /\ done' = FALSE /\ lim' = lim
     \/ /\ done' = TRUE /\ hist' = Append(hist, [op |-> "build"])
        /\ UNCHANGED <<m, k, bad, lim, bmI, bmD>>

\* the vectors are functions of the set model when InvCodeShaped holds, so they stay out of the view
MCView == <<m, k, done, bad, lim>>

\* ---- design-level invariants (mode "reach") ---------------------------------------------------
InvModel    == WellFormed /\ (~Positional => MembersExist) /\ MaskRoundTrip
InvQueries  == (\A T \in SUBSET (Universe \cup {"Z"}) : QueryAlgebra(T)) /\ (\A bp \in {0, -1, 5, 127, -128} : PrioPartition(bp))
Cfgs ==
  IF Positional
  THEN {[kind |-> "size", ver |-> 1, cs |-> FALSE, fl |-> 0, base |-> 0, esb |-> w, eks |-> 9] : w \in {5, 8}}
       \cup {[kind |-> "size", ver |-> 2, cs |-> FALSE, fl |-> 0, base |-> 0, esb |-> 4, eks |-> 2]}
  ELSE {[kind |-> "install", ver |-> 1, cs |-> FALSE, fl |-> 0, base |-> 0, esb |-> 0, eks |-> 16],
        [kind |-> "download", ver |-> 1, cs |-> TRUE, fl |-> 0, base |-> 0, esb |-> 0, eks |-> 16],
        [kind |-> "download", ver |-> 2, cs |-> FALSE, fl |-> 3, base |-> 0, esb |-> 0, eks |-> 16],
        [kind |-> "download", ver |-> 3, cs |-> TRUE, fl |-> 1, base |-> -3, esb |-> 0, eks |-> 16]}
\* code-shaped mask maintenance refines the set model: after every operation each tag's byte vector
\* is the canonical MSB-first mask of its members, for both remove_file algorithms
InvCodeShaped == MasksRefine(bmI, ShapeI, m, Defects) /\ (~Positional => MasksRefine(bmD, "download", m, Defects))

\* sizes that a container cannot hold are the generator's business, not the format's (install takes a u32;
\* the size builder takes a u64 whatever the field width: with finding F19b it serialises what does not fit)
Narrow(mm) == [mm EXCEPT !.files = [j \in 1..Len(mm.files) |-> [mm.files[j] EXCEPT !.sz = <<mm.files[j].sz[1] % 256, mm.files[j].sz[2]>>]]]
Fits(cfg) == IF cfg.kind = "install" \/ (cfg.kind = "size" /\ cfg.ver = 2 /\ "F19b" \notin Defects) THEN Narrow(m) ELSE m
\* a size manifest is only built once every position named by tag_file exists
Buildable == ~Positional \/ MembersExist
InvFormats  == Buildable => \A cfg \in Cfgs : LET mm == Fits(cfg) IN BytesAgree(cfg, mm, ReadManifest(WriteManifest(cfg, mm)))

\* ---- program emission (mode "gen") --------------------------------------------------------------
Emit == done => PrintT(<<"PROGRAM", ToJson([fam |-> Family, ops |-> hist])>>)
=============================================================================
