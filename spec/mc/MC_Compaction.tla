--------------------------- MODULE MC_Compaction ---------------------------
(***************************************************************************)
(* Bounded exhaustive checking of Compaction.tla and generation of         *)
(* programs for drv_compaction (binding G).                                *)
(*                                                                         *)
(* Every *input* of the bounded space is an initial state; the code-shaped *)
(* machine (CStep / PStep) is then stepped to completion.  Checked on      *)
(* every reachable state: the forward-copy lemma ForwardSafe, and on final *)
(* states the property-level predicates CompactOK / PlanOK.  Each initial  *)
(* state prints its input as a PROGRAM line.                               *)
(*                                                                         *)
(*  Family "seq":  all sequences of <= K spans over files of <= N units    *)
(*                 (overlapping, empty, unsorted, duplicated ... spans)    *)
(*  Family "set":  all sets of disjoint non-empty spans over files of      *)
(*                 <= N units, in three input orders                       *)
(*  Family "move": all calls move_data(src file of n units @ so -> dst    *)
(*                 file of m units @ dof, len) with n, m <= N, the source  *)
(*                 range inside the source, dof <= m                       *)
(*  Family "plan": all populations of <= MaxSeg segments with write        *)
(*                 positions 0..MaxUsed, states in States ("F" frozen,     *)
(*                 "T" thawed), x thresholds 1/4, 1/2, 1, 2                *)
(***************************************************************************)
EXTENDS Compaction, TLC, Json

CONSTANTS Family, N, K, Bufs, Geo, MaxSeg, MaxUsed, SegSize, PlanUnit, States,
          Defects      \* {} = the corrected design; {"F18a"}, {"F18b"}, {"F18c"} = the code as found
VARIABLES c,           \* state of the code-shaped machine
          inp,         \* its input (never changes)
          fresh        \* TRUE in initial states only

Tie         == "F18b" \notin Defects
CursorFixed == "F18a" \notin Defects
NoChain     == "F18c" \notin Defects

Ids(n) == [i \in 1..n |-> i - 1]

\* ---- inputs of the segment families ---------------------------------------
SpansOf(n)   == {s \in (0..n) \X (0..n) : s[1] + s[2] <= n}
SeqInputs(n) == UNION {[1..k -> SpansOf(n)] : k \in 0..K}

RECURSIVE DisjFrom(_, _)
DisjFrom(lo, n) ==
  {<<>>} \cup UNION {{<<s>> \o r : r \in DisjFrom(SpEnd(s), n)} :
                      s \in {x \in SpansOf(n) : SpOff(x) >= lo /\ SpLen(x) > 0}}

Rev(q)    == [i \in 1..Len(q) |-> q[Len(q) + 1 - i]]
EvenOdd(q) == [i \in 1..(Len(q) \div 2) |-> q[2 * i]] \o [i \in 1..((Len(q) + 1) \div 2) |-> q[2 * i - 1]]
Orders(q) == {q, Rev(q), EvenOdd(q)}

\* ---- concretisation of an abstract buffer size: <<unit bytes, buffer budget bytes>> -------
\* per-buffer size of CompactionFileMover::new(budget): 0 -> 131072; 200000 -> 200000;
\* 262143 -> 262143; 262144 -> 2 x 131072; 3145728 -> 16 x 196608
GeomsOf(b) ==
  IF Geo = 0 THEN {<<16, 0>>}                                     \* tiny units: one chunk per span
  ELSE LET all == CASE b = 1 -> <<<<131072, 0>>, <<196608, 3145728>>>>     \* buffer = 1 unit
                    [] b = 2 -> <<<<65536, 0>>, <<100000, 200000>>>>       \* buffer = 2 units
                    [] b = 3 -> <<<<43691, 0>>, <<43690, 262144>>>>        \* 3 units - 1 byte / + 2 bytes
                    [] b = 4 -> <<<<32768, 0>>, <<65535, 262143>>>>        \* 4 units / + 3 bytes
                    [] OTHER -> <<<<16, 0>>, <<64, 0>>>>
       IN {all[i] : i \in 1..CMin(Geo, 2)}
EmitBuf == CHOOSE b \in Bufs : \A x \in Bufs : x <= b

\* ---- inputs of the plan family -------------------------------------------
Thrs == {<<1, 4>>, <<1, 2>>, <<1, 1>>, <<2, 1>>}
Populations == UNION {[1..k -> States \X (0..MaxUsed)] : k \in 0..MaxSeg}

\* ---- inputs of the move family: N = max length of either file ---------------
MoveInputs ==
  {[n |-> n, m |-> m, so |-> so, dof |-> dof, len |-> len] :
     n \in 0..N, m \in 0..N, so \in 0..N, dof \in 0..N, len \in 0..N}
DstIds(n, m) == [i \in 1..m |-> n + i - 1]

MCInit ==
  /\ fresh = TRUE
  /\ \/ /\ Family = "move"
        /\ \E x \in {y \in MoveInputs : y.so + y.len <= y.n /\ y.dof <= y.m} : \E b \in Bufs :
             inp = [n |-> x.n, m |-> x.m, so |-> x.so, dof |-> x.dof, len |-> x.len, buf |-> b]
             /\ c = MInit(Ids(x.n), DstIds(x.n, x.m), x.so, x.dof, x.len)
     \/ /\ Family = "seq"
        /\ \E n \in 0..N : \E sp \in SeqInputs(n) : \E b \in Bufs :
             inp = [n |-> n, sp |-> sp, buf |-> b] /\ c = CInit(Ids(n), sp, Tie)
     \/ /\ Family = "set"
        /\ \E n \in 0..N : \E base \in DisjFrom(0, n) : \E sp \in Orders(base) : \E b \in Bufs :
             inp = [n |-> n, sp |-> sp, buf |-> b] /\ c = CInit(Ids(n), sp, Tie)
     \/ /\ Family = "plan"
        /\ \E segs \in Populations : \E t \in Thrs :
             inp = [segs |-> segs, thr |-> t] /\ c = PInit(segs, t[1], t[2], SegSize, CursorFixed, NoChain)

MCNext ==
  /\ c.pc # "done"
  /\ c' = CASE Family = "plan" -> PStep(c, SegSize)
            [] Family = "move" -> MStep(c, inp.buf)
            [] OTHER -> CStep(c, inp.buf)
  /\ fresh' = FALSE
  /\ UNCHANGED inp

\* ---- what TLC checks --------------------------------------------------------
IsSeg == Family \in {"seq", "set"}
SegLemma == IsSeg => ForwardSafe(c, Ids(inp.n))
SegFinal == (IsSeg /\ c.pc = "done") =>
              CompactOK(Ids(inp.n), inp.sp, [ok |-> c.ok, saved |-> c.saved, file |-> c.file])
\* the result does not depend on the buffer size: it equals the one-chunk-per-span run
SegBufIndep == (IsSeg /\ c.pc = "done") =>
              LET r == CompactImpl(Ids(inp.n), inp.sp, inp.n + 1, Tie) IN r.file = c.file /\ r.saved = c.saved /\ r.ok = c.ok
PlanSafe == Family = "plan" => PlanOK(c.plan, inp.segs, SegSize)
\* move_data: the source is never written, at the end the destination is the overlay
MoveFinal == Family = "move" =>
  /\ c.src = Ids(inp.n)
  /\ c.pc = "done" => MoveOK(Ids(inp.n), DstIds(inp.n, inp.m), inp.so, inp.dof, inp.len, [ok |-> c.ok, src |-> c.src, dst |-> c.dst])
\* beyond the statement (F18c): no segment is both emptied and filled
PlanNoChain == Family = "plan" => ~Chained(c.plan)

\* ---- program emission -------------------------------------------------------
Scale(segs) == [i \in 1..Len(segs) |-> <<segs[i][1], segs[i][2] * PlanUnit>>]
Emit ==
  fresh =>
    IF Family = "plan"
    THEN PrintT(<<"PROGRAM", ToJson([kind |-> "plan",
                   ops |-> <<[op |-> "plan", size |-> SegSize * PlanUnit, segs |-> Scale(inp.segs), thr |-> inp.thr]>>])>>)
    ELSE IF Family = "move"
    THEN \A g \in GeomsOf(inp.buf) :
           PrintT(<<"PROGRAM", ToJson([kind |-> "move", n |-> inp.n, m |-> inp.m, unit |-> g[1],
                   ops |-> <<[op |-> "move", budget |-> g[2], src |-> inp.so, dst |-> inp.dof, len |-> inp.len]>>])>>)
    ELSE (Geo = 0 /\ inp.buf # EmitBuf) \/
         \A g \in GeomsOf(inp.buf) :
           PrintT(<<"PROGRAM", ToJson([kind |-> "seg", n |-> inp.n, unit |-> g[1],
                   ops |-> <<[op |-> "compact", budget |-> g[2], spans |-> inp.sp]>>])>>)
=============================================================================
