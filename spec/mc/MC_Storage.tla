----------------------------- MODULE MC_Storage -----------------------------
(* Bounded exhaustive checking of Storage.tla (model C against property A) and
   generation of programs for the real code (binding G).

   One run = one component, one payload family, one depth.  Every non-empty
   operation sequence up to length D that does not end in a read is printed as a
   PROGRAM; the driver appends a read of every payload of the table (audit), so
   each reachable state of each prefix is observed completely.                  *)
EXTENDS Storage, Sequences, Json

CONSTANTS Comp,      \* "dyn" | "inst" | "arch"
          Family,    \* payload family, see Table
          D,         \* maximal program length
          Mode,      \* arch: compression of the manager ("none" | "zlib" | "lz4")
          Compress   \* the compress flag passed to write_file / write_content
VARIABLES a, c, hist

\* <<name, class, length>>; the last entry of each family is never written
Table ==
  CASE Family = "sizes"   -> << <<"a", "plain", 300>>, <<"b", "plain", 100>>, <<"c", "plain", 20>>,
                                <<"e", "plain", 0>>, <<"x", "plain", 40>> >>
    [] Family = "sizes3"  -> << <<"a", "comp", 300>>, <<"b", "plain", 100>>, <<"e", "plain", 0>>,
                                <<"x", "plain", 40>> >>
    [] Family = "classes" -> << <<"n", "nested", 100>>, <<"h", "hdrnested", 120>>, <<"s", "blte0", 60>>,
                                <<"t", "blte30", 50>>, <<"u", "blte0", 20>>, <<"x", "nested", 40>> >>
    [] Family = "classes3" -> << <<"n", "nested", 100>>, <<"t", "blte30", 50>>, <<"u", "blte0", 20>>,
                                <<"x", "nested", 40>> >>
    \* family "fill": besides the table, the operations fill(n) / churn(n) write n fresh small objects
    \* whose keys share one index bucket (churn removes each again); 21 entries = one page of the
    \* bucket's update log, so 22 and 43 cross one and two page boundaries (11 pairs = 22 log entries)
    \* The bucket is the one of table payload a, so "write a; remove a; fill; write a" leaves a's
    \* tombstone and a's new entry in different pages of the same log.  "fill1": the smaller alphabet.
    [] Family = "fill"    -> << <<"a", "plain", 100>>, <<"x", "plain", 40>> >>
    [] Family = "fill1"   -> << <<"a", "plain", 100>>, <<"x", "plain", 40>> >>
    \* family "par": par(t, m) = t threads store m fresh objects each at the same time; for the
    \* specification that is t*m successful writes in some order, and no order matters
    [] Family = "par"     -> << <<"a", "plain", 100>>, <<"x", "plain", 40>> >>

Names    == {Table[i][1] : i \in 1..Len(Table)}
Never    == Table[Len(Table)][1]
Writable == Names \ {Never}
Row(p)   == Table[CHOOSE i \in 1..Len(Table) : Table[i][1] = p]

\* what the driver's concretisation of a class looks like to the read path
Desc(p) == LET cls == Row(p)[2]  n == Row(p)[3] IN
  [len |-> n, blte0 |-> cls \in {"blte0", "nested"} /\ n >= 4,
   blte30 |-> cls \in {"blte30", "hdrnested"} /\ n >= 34]
\* objects created by fill / churn: f1, f2, ... in order of creation (the driver picks concrete
\* 16..28-byte objects by bucket; the model only needs that they are fresh, small and plain)
FillFam  == Family \in {"fill", "fill1", "par"}
FillNs   == IF Family = "fill" THEN {22, 43} ELSE IF Family = "fill1" THEN {22} ELSE {}
ChurnNs  == IF Family \in {"fill", "fill1"} /\ Comp = "dyn" THEN {11} ELSE {}
ParTMs   == IF Family = "par" /\ Comp # "arch" THEN {<<4, 3>>} ELSE {}
BucketOf == "a"
FName(i) == "f" \o ToString(i)
FillAll  == IF FillFam THEN {FName(i) : i \in 1..(43 * (D + 1))} ELSE {}
FillDesc == [len |-> 20, blte0 |-> FALSE, blte30 |-> FALSE]
AllNames == Names \cup FillAll
DescOf == [p \in AllNames |-> IF p \in Names THEN Desc(p) ELSE FillDesc]
\* a second decode finds a decodable inner stream (otherwise it fails)
Inner(p) == (Row(p)[2] = "nested" /\ Row(p)[3] >= 9) \/ (Row(p)[2] = "hdrnested" /\ Row(p)[3] >= 39)

\* on-disk size of an uncompressed single-chunk entry: 30-byte local header + 8-byte BLTE header + mode byte
Overhead == 39

Written == DOMAIN c.endOf

NF == Cardinality(Written \ Names)     \* fill objects created so far

RECURSIVE FillC(_, _, _, _)
FillC(cc, k, n, rm) ==     \* n appends (each followed by a remove if rm) of f(k+1) .. f(k+n)
  IF n = 0 THEN cc
  ELSE LET c1 == CWrite(cc, Comp, FName(k + 1), cc.flen + Overhead + FillDesc.len)
           c2 == IF rm THEN CRemove(c1, Comp, FName(k + 1)) ELSE c1
       IN FillC(c2, k + 1, n - 1, rm)

Ops ==
  {[op |-> "write", p |-> p] : p \in Writable} \cup
  {[op |-> "read", p |-> p] : p \in (Written \cap Names) \cup {Never}} \cup
  {[op |-> "fill", n |-> n, of |-> BucketOf] : n \in FillNs} \cup
  {[op |-> "churn", n |-> n, of |-> BucketOf] : n \in ChurnNs} \cup
  {[op |-> "par", t |-> tm[1], m |-> tm[2]] : tm \in ParTMs} \cup
  (IF Comp = "dyn" THEN {[op |-> "remove", p |-> p] : p \in Written \cap Names} \cup {[op |-> "flush"]} ELSE {}) \cup
  (IF Comp = "arch" THEN {[op |-> "compact"]} ELSE {}) \cup
  {[op |-> "reopen"]}

Do(e) ==
  CASE e.op = "write"  -> /\ a' = AWrite(a, e.p, TRUE)
                          /\ c' = CWrite(c, Comp, e.p, c.flen + Overhead + Desc(e.p).len)
    [] e.op = "read"   -> LET r  == CReadPred(c, Comp, e.p, Desc(e.p))
                              ok == r.outs = {"exact"} \/ r.outs = {"other"} \/ ("other" \in r.outs /\ Inner(e.p))
                          IN a' = a /\ c' = CReadDone(c, Comp, e.p, ok)
    [] e.op = "fill"   -> LET new == {FName(i) : i \in (NF + 1)..(NF + e.n)} IN
                          /\ a' = [live |-> a.live \cup new, maybe |-> a.maybe \ new]
                          /\ c' = FillC(c, NF, e.n, FALSE)
    [] e.op = "par"    -> LET new == {FName(i) : i \in (NF + 1)..(NF + e.t * e.m)} IN
                          /\ a' = [live |-> a.live \cup new, maybe |-> a.maybe \ new]
                          /\ c' = FillC(c, NF, e.t * e.m, FALSE)
    [] e.op = "churn"  -> LET new == {FName(i) : i \in (NF + 1)..(NF + e.n)} IN
                          /\ a' = [live |-> a.live \ new, maybe |-> a.maybe \cup new]
                          /\ c' = FillC(c, NF, e.n, TRUE)
    [] e.op = "remove" -> a' = ARemove(a, e.p) /\ c' = CRemove(c, Comp, e.p)
    [] e.op = "flush"  -> a' = a /\ c' = CFlush(c, Comp)
    [] e.op = "compact" -> UNCHANGED <<a, c>>
    [] e.op = "reopen" -> a' = a /\ c' = CReopen(c, c.flen)

\* the executable definition of the location packing is lossless on the boundary grid (evaluated once)
ASSUME PackLossless

MCInit == a = A0 /\ c = C0 /\ hist = <<>>
MCNext == \E e \in Ops : Do(e) /\ hist' = Append(hist, e)
Constr == Len(hist) <= D

InvDurable == Durable(a, c, Comp, DescOf)
InvNoGhost == NoGhost(a, c, Comp, AllNames, DescOf)
InvMap     == MapCovers(c)
InvType    == /\ a.live \cap a.maybe = {} /\ a.live \cup a.maybe \subseteq AllNames
              /\ c.idx \subseteq Written /\ c.disk \subseteq Written /\ c.cache \subseteq c.idx
              /\ c.mlen <= c.flen /\ \A p \in Written : c.endOf[p] <= c.flen

Emit == (Len(hist) >= 1 /\ Len(hist) <= D /\ hist[Len(hist)].op # "read") =>
          PrintT(<<"PROGRAM", ToJson([comp |-> Comp, mode |-> Mode, compress |-> Compress,
                                      payloads |-> Table, ops |-> hist])>>)
=============================================================================
