--------------------------- MODULE MC_TypedCache ---------------------------
(***************************************************************************)
(* Bounded instances of TypedCache.tla (X04).  Selected by INIT / NEXT:    *)
(*                                                                         *)
(*  GenInit/GenNext + Emit - binding G: enumerate programs of family       *)
(*     `Family` (operation sequences up to depth D over the family's       *)
(*     alphabet, for every configuration of its grid) and print each once  *)
(*     as a PROGRAM for harness/drv_typedcache.  Results come from the     *)
(*     real run; only what is needed to prune pointless operations is      *)
(*     carried (`aux`).                                                    *)
(*  PairInit/PairNext + EmitPair - the key-pair programs: every ordered    *)
(*     pair of keys of every type's universe, a fixed script per backend,  *)
(*     and (EmitCollision) the design-level refutation of K1 for the       *)
(*     as-is naming function: every pair of different keys whose           *)
(*     documented strings coincide is printed as COLLISION.                *)
(*  InvInit/InvNext + EmitInv - the decision tables of PART I as one       *)
(*     program.                                                            *)
(*  Design level (code-shaped variants against the stated properties;      *)
(*  TLC must REFUTE each, the counterexample is printed as WITNESS and     *)
(*  replayed on the real code):                                            *)
(*     WStale   (Family "keymut")  no object reports the string of other   *)
(*              fields than its own           - refuted: FX04b             *)
(*     WPanic   (Family "met")     record_put never panics - refuted: FX04c*)
(*     WFull    (Family "blklim")  the as-is metadata refuses a block only *)
(*              when the refusal is justified - refuted: FX04e             *)
(***************************************************************************)
EXTENDS TypedCache, Json

CONSTANTS Family,     \* "keymut" | "met" | "blklim" | "blkcac" | "arc" | "res"
          D,          \* maximal number of enumerated operations
          Wide,       \* TRUE: the full configuration grids / scripts (thorough tier); FALSE: the reduced ones
          KT,         \* key types (keymut / pairs)
          Backs       \* backends (keymut / pairs): subset of {"none", "mem", "disk", "diskflat"}

VARIABLES cfg, hist, aux

RECURSIVE SetToSeqM(_)
SetToSeqM(S) == IF S = {} THEN <<>> ELSE LET x == CHOOSE y \in S : TRUE IN <<x>> \o SetToSeqM(S \ {x})
BackCfg(kt, b) == [kt |-> kt, back |-> IF b = "diskflat" THEN "disk" ELSE b, subdirs |-> b # "diskflat"]

\* ------------------------------------------------------------------ families
\* keymut: one object, its clone, assignments to public fields, observations and cache calls
KmStart(kt) == CHOOSE f \in Universe(kt) : TRUE
KmAlt(kt, i, cur) == FieldVals(kt)[i] \ {cur}
AltOf(kt, i, cur) == CHOOSE x \in KmAlt(kt, i, cur) : TRUE
\* aux = [slots |-> slot -> object, seen |-> every field tuple some object has had]
KmOps(kt, slots) ==
  {[op |-> "obs"]} \cup
  {[op |-> "set", s |-> s, i |-> i, v |-> AltOf(kt, i, slots[s].f[i])] :
      s \in DOMAIN slots, i \in {j \in 1..Len(FieldVals(kt)) : Cardinality(FieldVals(kt)[j]) > 1}} \cup
  (IF 2 \in DOMAIN slots THEN {} ELSE {[op |-> "clone", s |-> 1, t |-> 2]}) \cup
  (IF cfg.back = "none" THEN {}
   ELSE {[op |-> "put", s |-> s, n |-> 2 + s] : s \in DOMAIN slots} \cup {[op |-> "get", s |-> s] : s \in DOMAIN slots})
\* (IF, not \/: inside an action TLC explores both disjuncts)
KmEnabled(e) == IF e.op # "obs" \/ hist = <<>> THEN TRUE ELSE hist[Len(hist)].op # "obs"
KmSlots(kt, slots, e) ==
  CASE e.op = "set"   -> [slots EXCEPT ![e.s] = SetField(@, e.i, e.v)]
    [] e.op = "clone" -> FnWith(slots, e.t, slots[e.s])
    [] e.op = "obs"   -> [s \in DOMAIN slots |-> Touch(slots[s])]
    [] e.op \in {"put", "get"} -> [slots EXCEPT ![e.s] = Touch(@)]
    [] OTHER          -> slots
KmApply(kt, a, e) == LET sl == KmSlots(kt, a.slots, e) IN [slots |-> sl, seen |-> a.seen \cup {sl[s].f : s \in DOMAIN sl}]

MetOps == {[op |-> "mget", hit |-> h] : h \in BOOLEAN} \cup {[op |-> "mput", n |-> n] : n \in {1, 2}}
          \cup {[op |-> "mrem", n |-> n] : n \in {1, 2}} \cup {[op |-> "mevi", n |-> 1], [op |-> "mexp", n |-> 1]}
          \cup {[op |-> "mbatch", hits |-> <<TRUE, FALSE>>], [op |-> "mreset"]}

BlkKeys == << <<"x", 0, FALSE>>, <<"x", 1, FALSE>>, <<"x", 0, TRUE>>, <<"x", 2, FALSE>> >>
BlkLimOps ==
  {[op |-> "putb", c |-> BlkKeys[i][1], i |-> BlkKeys[i][2], d |-> BlkKeys[i][3], n |-> 2 + i] : i \in 1..4}
  \cup {[op |-> "getb", c |-> "x", i |-> 0, d |-> FALSE], [op |-> "getb", c |-> "x", i |-> 1, d |-> FALSE]}
  \cup {[op |-> "meta", c |-> "x"], [op |-> "evold", age |-> "zero"], [op |-> "evold", age |-> "huge"], [op |-> "tick"]}
BlkLimCfgs == {[maxe |-> me, dttl |-> t, maxb |-> mb, shared |-> FALSE, urls |-> 1] :
                 me \in {100, 1}, t \in {"long", "short"}, mb \in {1, 2}}
BlkCacOps ==
  {[op |-> "putb", c |-> "x", i |-> 0, d |-> FALSE, n |-> 3], [op |-> "putb", c |-> "x", i |-> 1, d |-> FALSE, n |-> 4],
   [op |-> "getb", c |-> "x", i |-> 0, d |-> FALSE],
   [op |-> "putv", c |-> "x", as |-> "x"], [op |-> "putv", c |-> "x", as |-> "m"], [op |-> "getv", c |-> "x"],
   [op |-> "getf", c |-> "x"], [op |-> "getf", c |-> "m"], [op |-> "tick"]}
BlkCacCfgs == {[maxe |-> 100, dttl |-> t, maxb |-> 1, shared |-> sh, urls |-> u] :
                 t \in {"long", "short"}, sh \in BOOLEAN, u \in {0, 1}}

ArcKeys == << <<"a", 0, 4>>, <<"a", 2, 4>>, <<"a", -1, 1>>, <<"a", 8, 2>> >>
ArcOps ==
  {[op |-> "putr", a |-> "a", o |-> ArcKeys[i][2], l |-> ArcKeys[i][3], n |-> 2 + i] : i \in 1..3}
  \cup {[op |-> "getr", a |-> "a", o |-> 0, l |-> 4], [op |-> "isc", a |-> "a", o |-> 0, l |-> 4],
        \* queries that TOUCH a range without intersecting it: [0,2) ends where (2,4) starts, [4,6) starts where (0,4) ends
        [op |-> "ovl", a |-> "a", o |-> 0, l |-> 2], [op |-> "ovl", a |-> "a", o |-> 4, l |-> 2],
        [op |-> "ovl", a |-> "a", o |-> -1, l |-> 1],
        [op |-> "getf", a |-> "a", o |-> 0, l |-> 4], [op |-> "getf", a |-> "a", o |-> 8, l |-> 2],
        [op |-> "meta", a |-> "a"], [op |-> "tick"]}
ArcCfgs == {[maxe |-> 100, dttl |-> "long", maxr |-> mr, urls |-> 1] : mr \in {1, 2}}
           \cup {[maxe |-> 100, dttl |-> "short", maxr |-> mr, urls |-> 1] : mr \in {1, 2}}
           \cup {[maxe |-> 1, dttl |-> "long", maxr |-> 2, urls |-> 1], [maxe |-> 100, dttl |-> "long", maxr |-> 2, urls |-> 0]}

ResOps ==
  {[op |-> "croot", r |-> "r1", as |-> "r1"], [op |-> "croot", r |-> "r1", as |-> "r2"], [op |-> "croot", r |-> "rj", as |-> "rj"],
   [op |-> "res", r |-> "r1", p |-> "p1"], [op |-> "res", r |-> "r1", p |-> "p3"], [op |-> "res", r |-> "r2", p |-> "p1"],
   [op |-> "cenc", e |-> "e1", as |-> "e1"], [op |-> "rese", e |-> "e1", c |-> "c1"], [op |-> "rese", e |-> "e1", c |-> "c3"],
   [op |-> "chain", r |-> "r1", e |-> "e1", p |-> "p1"],
   [op |-> "fb", r |-> "r1", p |-> "p1"], [op |-> "fb", r |-> "r1", p |-> "p3"], [op |-> "fb", r |-> "r2", p |-> "p1"],
   [op |-> "fb", r |-> "rj", p |-> "p1"], [op |-> "fcfg", h |-> "abcd1234"], [op |-> "fcfg", h |-> "abc"]}
ResCfgs == IF Wide THEN {[maxroots |-> m, urls |-> u] : m \in {100, 1}, u \in {0, 1}}
           ELSE {[maxroots |-> 100, urls |-> 1], [maxroots |-> 100, urls |-> 0]}

Cfgs == CASE Family = "keymut" -> {BackCfg(kt, b) : kt \in KT, b \in Backs}
          [] Family = "met"    -> {[k |-> "met"]}
          [] Family = "blklim" -> BlkLimCfgs
          [] Family = "blkcac" -> BlkCacCfgs
          [] Family = "arc"    -> ArcCfgs
          [] Family = "res"    -> ResCfgs
Ops  == CASE Family = "keymut" -> KmOps(cfg.kt, aux.slots)
          [] Family = "met"    -> MetOps
          [] Family = "blklim" -> BlkLimOps
          [] Family = "blkcac" -> BlkCacOps
          [] Family = "arc"    -> ArcOps
          [] Family = "res"    -> ResOps
\* pruning: operations that cannot teach anything in the current position
Enabled(e) ==
  CASE Family = "keymut" -> KmEnabled(e)
    [] e.op = "tick"     -> hist # <<>> /\ hist[Len(hist)].op # "tick" /\ cfg.dttl = "short"
    [] e.op = "evold"    -> hist # <<>> /\ hist[Len(hist)].op # "evold"
    [] e.op = "mreset"   -> hist # <<>> /\ hist[Len(hist)].op # "mreset"
    [] e.op = "fcfg"     -> hist = <<>>          \* independent of everything else: once, in first position
    [] OTHER             -> TRUE

Aux0(c) == IF Family = "keymut" THEN [slots |-> [s \in {1} |-> MkObj(KmStart(c.kt))], seen |-> {KmStart(c.kt)}]
           ELSE IF Family = "met" THEN [mi |-> 0, pan |-> FALSE]
           ELSE IF Family = "blklim" THEN [sb |-> C0, md |-> <<>>, bad |-> FALSE]
           ELSE [none |-> TRUE]
\* design-level bookkeeping for the W* invariants
AuxNext(e) ==
  CASE Family = "keymut" -> KmApply(cfg.kt, aux, e)
    [] Family = "met" ->
         [mi  |-> CASE e.op = "mput" -> aux.mi + e.n [] e.op \in {"mrem", "mevi", "mexp"} -> aux.mi - e.n
                    [] e.op = "mreset" -> 0 [] OTHER -> aux.mi,
          pan |-> e.op = "mput" /\ AsIsPutPanics(aux.mi, e.n)]
    [] Family = "blklim" ->
         LET cc == CoreCfg(cfg.maxe >= 100, cfg.dttl)
             G  == {x \in DOMAIN aux.sb.latest : x[1] = "x"} IN
         CASE e.op = "putb" ->
                IF AsIsFull(aux.md, e.i, cfg.maxb)
                THEN [aux EXCEPT !.bad = ~FullJustified(aux.sb, cc, G, LAMBDA y : y[2], e.i, cfg.maxb)]
                ELSE [sb |-> PutR(aux.sb, <<e.c, e.i, e.d>>, e.n, e.n, DefaultClass(cc)), md |-> AsIsListed(aux.md, e.i), bad |-> FALSE]
           [] e.op = "tick" -> [aux EXCEPT !.sb = TickR(@), !.bad = FALSE]
           [] e.op = "evold" /\ e.age = "zero" -> [sb |-> ClearR(aux.sb), md |-> <<>>, bad |-> FALSE]
           [] OTHER -> [aux EXCEPT !.bad = FALSE]
    [] OTHER -> aux

GenInit == cfg \in Cfgs /\ hist = <<>> /\ aux = Aux0(cfg)
GenNext == \E e \in Ops : /\ Enabled(e)
                          /\ hist' = Append(hist, e) /\ aux' = AuxNext(e) /\ cfg' = cfg
Constr == Len(hist) <= D

KindOf == CASE Family = "keymut" -> "keys" [] Family \in {"blklim", "blkcac"} -> "blk" [] OTHER -> Family
Prefix == IF Family = "keymut" THEN <<[op |-> "mk", s |-> 1, f |-> KmStart(cfg.kt)]>> ELSE <<>>
Suffix == CASE Family = "keymut" -> <<[op |-> "obs"]>> \o (IF cfg.back = "none" THEN <<>> ELSE <<[op |-> "probe"]>>)
            [] Family \in {"blklim", "blkcac", "arc"} -> <<[op |-> "probe"]>>
            [] OTHER -> <<>>
\* the universe a probe reads: every key an operation of the program can name
KeysOf == CASE Family = "keymut" -> SetToSeqM(aux.seen)
            [] Family \in {"blklim", "blkcac"} -> BlkKeys
            [] Family = "arc" -> ArcKeys
            [] OTHER -> <<>>
Program == [kind |-> KindOf, cfg |-> cfg, keys |-> KeysOf, cs |-> <<"x", "m">>, as |-> <<"a">>,
            ops |-> Prefix \o hist \o Suffix]
\* (TLC evaluates invariants also on the successors it then discards by the CONSTRAINT, hence the upper bound)
Emit == (Len(hist) >= 1 /\ Len(hist) <= D) => PrintT(<<"PROGRAM", ToJson(Program)>>)

\* ---- design-level refutations ----------------------------------------------------
Witness(tag) == PrintT(<<"WITNESS", ToJson([inv |-> tag, program |-> Program])>>)
WStale == (Family = "keymut" /\ \E s \in DOMAIN aux.slots : Stale(aux.slots[s])) => ~Witness("NoStaleName")
WPanic == (Family = "met" /\ aux.pan) => ~Witness("NoPanic")
WFull  == (Family = "blklim" /\ aux.bad) => ~Witness("RefusalJustified")

\* ---- key pairs (cfg = [kt, back], aux = [a, b], hist unused) ---------------------------
PairScripts(b) ==
  IF b = "none" THEN {<<>>}
  ELSE IF b = "mem" /\ ~Wide THEN
       {<<[op |-> "put", s |-> 1, n |-> 3], [op |-> "put", s |-> 2, n |-> 2], [op |-> "get", s |-> 1], [op |-> "get", s |-> 2],
          [op |-> "remove", s |-> 1], [op |-> "get", s |-> 2], [op |-> "contains", s |-> 2]>>}
  ELSE {<<[op |-> "put", s |-> 1, n |-> 3], [op |-> "put", s |-> 2, n |-> 2], [op |-> "get", s |-> 1], [op |-> "get", s |-> 2],
          [op |-> "remove", s |-> 1], [op |-> "get", s |-> 2], [op |-> "contains", s |-> 2]>>,
        <<[op |-> "put", s |-> 1, n |-> 3], [op |-> "get", s |-> 2], [op |-> "contains", s |-> 2], [op |-> "remove", s |-> 2],
          [op |-> "get", s |-> 1], [op |-> "put", s |-> 2, n |-> 1], [op |-> "get", s |-> 1]>>}
PairInit == /\ cfg \in {[kt |-> t, back |-> b] : t \in KT, b \in Backs} /\ hist = <<>>
            /\ aux \in {[a |-> x, b |-> y] : x \in Universe(cfg.kt), y \in Universe(cfg.kt)}
PairNext == UNCHANGED <<cfg, hist, aux>>
PairProgram(sc) ==
  [kind |-> "keys", cfg |-> BackCfg(cfg.kt, cfg.back), keys |-> IF aux.a = aux.b THEN <<aux.a>> ELSE <<aux.a, aux.b>>,
   ops |-> <<[op |-> "mk", s |-> 1, f |-> aux.a], [op |-> "mk", s |-> 2, f |-> aux.b], [op |-> "obs"]>> \o sc
           \o (IF cfg.back = "none" THEN <<>> ELSE <<[op |-> "obs"], [op |-> "probe"]>>)]
EmitPair == \A sc \in PairScripts(cfg.back) : PrintT(<<"PROGRAM", ToJson(PairProgram(sc))>>)
EmitCollision == (cfg.back = "none" /\ aux.a # aux.b /\ NameOf(cfg.kt, aux.a) = NameOf(cfg.kt, aux.b)) =>
                   PrintT(<<"COLLISION", ToJson([kt |-> cfg.kt, a |-> aux.a, b |-> aux.b, name |-> NameOf(cfg.kt, aux.a)])>>)

\* ---- decision tables ----------------------------------------------------------------
Strat(t, ms, max, of) == [t |-> t, ms |-> ms, max |-> max, of |-> of]
Atoms == {Strat("never", 0, 0, <<>>), Strat("lru", 0, 0, <<>>), Strat("lfu", 0, 0, <<>>), Strat("ttl", 5, 0, <<>>),
          Strat("size", 0, 2, <<>>), Strat("mem", 0, 2, <<>>)}
Strats == Atoms \cup {Strat("comb", 0, 0, <<a, b>>) : a, b \in Atoms} \cup {Strat("comb", 0, 0, <<>>)}
          \cup {Strat("comb", 0, 0, <<Strat("comb", 0, 0, <<Strat("size", 0, 2, <<>>), Strat("ttl", 7, 0, <<>>)>>), Strat("ttl", 5, 0, <<>>)>>)}
InvOps == SetToSeqM({[op |-> "sinv", strat |-> s, ent |-> en, size |-> sz, bytes |-> by] :
                       s \in Strats, en \in {"none", "live", "dead"}, sz \in {2, 3}, by \in {2, 3}})
          \o SetToSeqM({[op |-> "gttl", strat |-> s] : s \in Strats})
          \o SetToSeqM({[op |-> "wval", en |-> en, maxe |-> m] : en \in BOOLEAN, m \in {0, 1}})
InvInit == cfg = [k |-> "inv"] /\ hist = <<>> /\ aux = [none |-> TRUE]
InvNext == UNCHANGED <<cfg, hist, aux>>
\* (state-level on purpose: TLC evaluates constant-level definitions once at start-up, in EVERY run of this module)
EmitInv == (hist = <<>>) => PrintT(<<"PROGRAM", ToJson([kind |-> "inv", cfg |-> [k |-> "inv"], keys |-> <<>>, ops |-> InvOps])>>)
=============================================================================
