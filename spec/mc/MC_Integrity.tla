---------------------------- MODULE MC_Integrity ----------------------------
(***************************************************************************)
(* Bounded exhaustive checking of Integrity.tla and program generation.    *)
(*                                                                         *)
(* Family = "art":  every abstract artifact (layout x covered length x     *)
(*   bit contents) of every listed artifact kind is an initial state; one  *)
(*   step applies one fault and loads the result with the IDEAL loader.    *)
(*   Checked: the undamaged artifact loads (AbsBaseline) and the judgement *)
(*   rule never blames the ideal loader (AbsRuleSound).  Every             *)
(*   <<kind, variant, loader, fault class, region class, judged>> reached  *)
(*   is printed: the distinct <<kind, variant, loader, fault class>> are   *)
(*   the programs executed on the real code, the distinct                  *)
(*   <<kind, fault class, region class>> with judged = TRUE are the        *)
(*   classes the real traces must have exercised.                          *)
(*                                                                         *)
(* Family = "conc":  the validating read taken look by look (Integrity!LookR)*)
(*   with ONE operation of another user (plain put / put into a layer /    *)
(*   remove of right or wrong bytes) at any point; every initial placement *)
(*   of the key.  Checked: ValidatedOnly on every interleaving.  Every     *)
(*   <<initial placement, writer operation, number of looks before it>>    *)
(*   the driver can realise (before, after, or with the reader parked in a *)
(*   disk layer's lookup) is printed as a program.                         *)
(*                                                                         *)
(* Family = "cache": all sequences of D operations of the ValidatedCache   *)
(*   machine (put_val / get_val / put_raw / get / corrupt / delete) over   *)
(*   the given layers; checked SafeGet, PutSafe, GoneAfter on the ideal    *)
(*   design; every complete sequence that ends in a validating read is     *)
(*   printed as a program.                                                 *)
(***************************************************************************)
EXTENDS Integrity, TLC, Json, SequencesExt

CONSTANTS Family,    \* "art" | "cache" | "conc"
          Rule,      \* "spec": the judgement rule of Integrity.tla; "wide": every truncation that removes a covered
                     \* byte is judged (TLC must refute AbsRuleSound: the check value may be gone with it)
          Tier,      \* "quick" | "thorough": which artifact variants
          MaxN,      \* art: number of covered cells 1..MaxN
          Comp,      \* cache: "cac_mem" | "cac_disk" | "ml"
          Layers,    \* cache: layer kinds, one letter per layer: "d", "md", "mm", "mmd"
          Hooks,     \* cache: "md5" | "ngdp" | "none"
          Keys,      \* cache (ml): key names
          Vals,      \* cache: value names (symmetric)
          Hows,      \* cache: kinds of damage
          D,         \* cache: program length
          SecondLook \* conc: "none" (HEAD) | "validated" | "unvalidated" (TLC must refute ValidatedOnly)
VARIABLES phase, sc, hist, lay, prev, lastOp, lastRes, how, rd
vars == <<phase, sc, hist, lay, prev, lastOp, lastRes, how, rd>>

\* ------------------------------------------------------------------ artifacts
Row(kind, variant, loader, layout) == [kind |-> kind, variant |-> variant, loader |-> loader, layout |-> layout]
ArtTable ==
  {Row("enc", v, "parse", "leadfix") : v \in IF Tier = "quick" THEN {"v1"} ELSE {"v1", "v2"}} \cup
  {Row("aidx", v, l, "trail") : v \in (IF Tier = "quick" THEN {"v1", "v2"} ELSE {"v1", "v2", "v3"}), l \in {"parse", "chunked"}} \cup
  {Row("lru", v, l, "lead") : v \in {"v1", "v2"}, l \in {"deserialize", "manager"}} \cup
  {Row("upd", v, "entry", "leadfix") : v \in {"normal", "delete", "hdrnr", "datanr"}} \cup
  {Row("updsec", "three", "section", "leadfix")} \cup
  {Row("lhdr", v, "header", "trail") : v \in {"0", "30", "61", "483"}} \cup
  {Row("mime", v, "parse", "label") : v \in {"versions", "cdns", "summary"}}
\* fault classes that can be applied to a kind at all (an update entry is a fixed 24-byte array)
ClassesOf(kind) == IF kind = "upd" THEN {"flip", "subst"} ELSE {"flip", "subst", "trunc", "extend"}

Scenarios == {[row |-> r, n |-> n, bits |-> b, u |-> u] :
                r \in ArtTable, n \in 1..MaxN, b \in UNION {[1..m -> {0, 1}] : m \in 1..MaxN}, u \in {0, 1}}
ScOK(s) == Len(s.bits) = s.n
Art(s)  == AbsBuild(s.row.layout, s.bits, s.u)

\* one abstract fault: [class, at, fill]
FaultsOf(s) ==
  LET a == Art(s) k == s.row.kind IN
  {[class |-> c, at |-> p, fill |-> "-"] : c \in ClassesOf(k) \cap {"flip", "subst"}, p \in 0..(Len(a) - 1)} \cup
  {[class |-> "trunc", at |-> m, fill |-> "-"] : m \in (IF "trunc" \in ClassesOf(k) THEN 0..(Len(a) - 1) ELSE {})} \cup
  {[class |-> "extend", at |-> n, fill |-> f] : n \in (IF "extend" \in ClassesOf(k) THEN 1..2 ELSE {}), f \in {"zero", "tail"}}
Apply(s, f) ==
  LET a == Art(s) IN
  CASE f.class \in {"flip", "subst"} -> AbsFlip(a, f.at)
    [] f.class = "trunc"  -> AbsTrunc(a, f.at)
    [] f.class = "extend" -> AbsExtend(a, f.at, f.fill)
JudgedAbs(s, f) ==
  LET R == AbsRegions(s.row.layout, s.n) IN
  CASE f.class \in {"flip", "subst"} -> FlipJudged(R, f.at)
    [] f.class = "trunc"  -> IF Rule = "wide" THEN \E r \in R : f.at < r.hi ELSE TruncJudged(R, f.at)
    [] f.class = "extend" -> AbsCoversLength(s.row.layout)
ClassAbs(s, f) ==
  LET R == AbsRegions(s.row.layout, s.n) IN
  IF f.class \in {"flip", "subst"} THEN PosClass(R, f.at)
  ELSE IF JudgedAbs(s, f) THEN "prot" ELSE "other"

ArtInit == /\ phase = "produced" /\ sc \in {s \in Scenarios : ScOK(s)}
           /\ hist = <<>> /\ lay = <<>> /\ prev = <<>> /\ lastOp = [op |-> "none"] /\ lastRes = [res |-> "none"] /\ how = "none" /\ rd = Rd0
ArtNext == /\ phase = "produced"
           /\ \E f \in FaultsOf(sc) :
                /\ phase' = "loaded"
                /\ lastOp' = [op |-> "fault", f |-> f]
                /\ lastRes' = [res |-> IF AbsLoad(sc.row.layout, sc.n, Apply(sc, f)) THEN "accepted" ELSE "rejected"]
           /\ UNCHANGED <<sc, hist, lay, prev, how, rd>>

AbsBaseline  == (Family = "art" /\ phase = "produced") => AbsLoad(sc.row.layout, sc.n, Art(sc))
AbsRuleSound == (Family = "art" /\ phase = "loaded") => (JudgedAbs(sc, lastOp.f) => lastRes.res = "rejected")
ArtEmit == (Family = "art" /\ phase = "loaded") =>
  PrintT(<<"PROGRAM", ToJson([part |-> "art", kind |-> sc.row.kind, variant |-> sc.row.variant, loader |-> sc.row.loader,
                              fault |-> lastOp.f.class, cls |-> ClassAbs(sc, lastOp.f), judged |-> JudgedAbs(sc, lastOp.f)])>>)

\* --------------------------------------------------------------------- cache
KindSeq == CASE Layers = "d" -> <<"disk">> [] Layers = "m" -> <<"mem">> [] Layers = "md" -> <<"mem", "disk">>
             [] Layers = "mm" -> <<"mem", "mem">> [] Layers = "mmd" -> <<"mem", "mem", "disk">>
             [] Layers = "dd" -> <<"disk", "disk">> [] Layers = "mdd" -> <<"mem", "disk", "disk">>
NL == Len(KindSeq)
IsMl == Comp = "ml"
KeySet == IF IsMl THEN Keys ELSE Vals            \* a content-addressed cache is keyed by the value's own MD5
Validating == ~IsMl \/ Hooks # "none"
\* layers whose backing store the environment can damage: disk files; the shared inner cache of cac_mem
Damageable == IF IsMl THEN {l \in 1..NL : KindSeq[l] = "disk"} ELSE {1}
OtherVal(v) == IF \E w \in Vals : w # v THEN CHOOSE w \in Vals : w # v ELSE v

CacheOps ==
  {[op |-> "put_val", k |-> k, v |-> v, ck |-> ck] : k \in KeySet, v \in Vals, ck \in Vals} \cup
  {[op |-> "get_val", k |-> k, ck |-> ck] : k \in KeySet, ck \in Vals} \cup
  {[op |-> "put_raw", k |-> k, v |-> v, layer |-> l - 1] : k \in KeySet, v \in Vals, l \in 1..NL} \cup
  {[op |-> "get", k |-> k] : k \in (IF IsMl THEN KeySet ELSE {})} \cup
  {[op |-> "corrupt", k |-> k, how |-> h] : k \in KeySet, h \in Hows} \cup
  {[op |-> "delete", k |-> k] : k \in KeySet}
\* content-addressed caches: the key of a validating call is its content key
OpOK(o) == (~IsMl /\ o.op \in {"put_val", "get_val"}) => o.k = o.ck

Enabled(o) ==
  CASE o.op = "corrupt" -> /\ \E l \in Damageable : ~IsNoC(lay[l][o.k]) /\ lay[l][o.k].d = "ok"
                           /\ how \in {"none", o.how}
    [] o.op = "delete"  -> \E l \in Damageable : ~IsNoC(lay[l][o.k])
    [] OTHER -> TRUE
Result(o) ==
  CASE o.op = "put_val" -> PutValR(lay, o.k, o.v, o.ck, Validating)
    [] o.op = "get_val" -> GetValR(lay, o.k, o.ck, Validating)
    [] o.op = "put_raw" -> PutRawR(lay, o.k, o.v, o.layer + 1)
    [] o.op = "get"     -> GetR(lay, o.k, TRUE)
    [] o.op = "corrupt" -> CorruptR(lay, o.k, o.how, OtherVal(lay[IgMin({l \in Damageable : ~IsNoC(lay[l][o.k])})][o.k].v), Damageable)
    [] o.op = "delete"  -> DeleteR(lay, o.k, Damageable)

CacheInit == /\ phase = "cache" /\ sc = [row |-> "none"] /\ hist = <<>>
             /\ lay = [l \in 1..NL |-> [k \in KeySet |-> NoC]] /\ prev = lay
             /\ lastOp = [op |-> "none"] /\ lastRes = [res |-> "none"] /\ how = "none" /\ rd = Rd0
CacheNext == \E o \in CacheOps :
  /\ OpOK(o) /\ Enabled(o)
  /\ LET r == Result(o) IN
     /\ lay' = r.st /\ prev' = lay /\ lastOp' = o /\ lastRes' = r
     /\ how' = IF o.op = "corrupt" THEN o.how ELSE how
  /\ hist' = Append(hist, o)
  /\ UNCHANGED <<phase, sc, rd>>

SafeGet == (Family = "cache" /\ lastOp.op = "get_val" /\ Validating) =>
  SafeGetP(lastRes.res = "some", ValidFor(lastRes.c, lastOp.ck))
PutSafe == (Family = "cache" /\ lastOp.op = "put_val" /\ Validating) => PutSafeP(lastRes.res = "ok", lastOp.v = lastOp.ck)
GoneAfter == (Family = "cache" /\ lastOp.op = "get_val" /\ Validating) =>
  LET i == FirstHolding(prev, lastOp.k) IN
  GoneAfterP(i # 0 /\ ~ValidFor(prev[IF i = 0 THEN 1 ELSE i][lastOp.k], lastOp.ck),
             i # 0 /\ lay[IF i = 0 THEN 1 ELSE i][lastOp.k] = prev[IF i = 0 THEN 1 ELSE i][lastOp.k])
\* anti-vacuity of the design: corruption is really detected somewhere
CacheEmit == (Family = "cache" /\ Len(hist) = D /\ hist[D].op = "get_val") =>
  PrintT(<<"PROGRAM", ToJson([part |-> "cache", comp |-> Comp, kinds |-> KindSeq, hooks |-> Hooks, keys |-> SetToSeq(KeySet),
                              strategy |-> "on_hit", ops |-> hist])>>)

\* ---------------------------------------------------------------------- conc
CKey == "a"
ConcWriterOps ==
  {[op |-> "put", k |-> CKey, v |-> v] : v \in Vals} \cup
  {[op |-> "put_raw", k |-> CKey, v |-> v, layer |-> l - 1] : v \in Vals, l \in 1..NL} \cup
  {[op |-> "remove", k |-> CKey]}
ConcInit == /\ phase = "conc" /\ hist = <<>> /\ prev = <<>> /\ lastRes = [res |-> "none"] /\ how = "none"
            /\ lastOp = [op |-> "none"] /\ rd = Rd0
            /\ \E j \in 0..NL, v \in Vals, ck \in Vals :
                 /\ sc = [at0 |-> j, v0 |-> v, ck |-> ck]
                 /\ lay = [l \in 1..NL |-> [k \in {CKey} |-> IF l = j THEN OkC(v) ELSE NoC]]
ConcNext ==
  \/ /\ rd.pc # 0
     /\ LET r == LookR(lay, rd, CKey, sc.ck, Validating, SecondLook) IN lay' = r.st /\ rd' = r.rd
     /\ hist' = Append(hist, "r")
     /\ UNCHANGED <<phase, sc, prev, lastOp, lastRes, how>>
  \/ /\ lastOp.op = "none"
     /\ \E w \in ConcWriterOps :
          /\ lastOp' = w
          /\ lay' = CASE w.op = "put" -> PlainPutR(lay, CKey, w.v)
                      [] w.op = "put_raw" -> PutRawR(lay, CKey, w.v, w.layer + 1).st
                      [] w.op = "remove" -> RemoveAllR(lay, CKey)
     /\ hist' = Append(hist, "w")
     /\ UNCHANGED <<phase, sc, prev, lastRes, how, rd>>
ValidatedOnly == Family = "conc" => ValidatedOnlyP(rd, sc.ck, Validating)
\* number of looks the reader had made when the writer ran
LooksBefore == Cardinality({i \in 1..Len(hist) : hist[i] = "r" /\ \E j \in (i + 1)..Len(hist) : hist[j] = "w"})
WriterLast == hist[Len(hist)] = "w"
\* what the driver can arrange: the writer first, the writer last, or the reader parked inside a disk layer's lookup
Realisable == WriterLast \/ LooksBefore = 0 \/ (LooksBefore < NL /\ KindSeq[LooksBefore + 1] = "disk")
ConcEmit == (Family = "conc" /\ rd.pc = 0 /\ lastOp.op # "none" /\ Realisable) =>
  PrintT(<<"PROGRAM", ToJson([part |-> "conc", comp |-> "ml", kinds |-> KindSeq, hooks |-> Hooks, keys |-> <<CKey>>, strategy |-> "manual",
                              init |-> IF sc.at0 = 0 THEN <<>> ELSE <<[op |-> "put_raw", k |-> CKey, v |-> sc.v0, layer |-> sc.at0 - 1]>>,
                              reader |-> [k |-> CKey, ck |-> sc.ck], writer |-> lastOp,
                              at |-> IF WriterLast THEN 0 ELSE LooksBefore, after |-> WriterLast])>>)

MCInit == IF Family = "art" THEN ArtInit ELSE IF Family = "conc" THEN ConcInit ELSE CacheInit
MCNext == IF Family = "art" THEN ArtNext ELSE IF Family = "conc" THEN ConcNext ELSE CacheNext
Constr == Len(hist) <= D
Sym == Permutations(Vals)
=============================================================================
