--------------------------- MODULE MC_ArchClient ---------------------------
(***************************************************************************)
(* Bounded instances of ArchClient.tla (X10), one machine per family.  For  *)
(* every program (a world of the catalogue, a configuration variant, an     *)
(* operation sequence with its outcome scripts) the machine runs the two    *)
(* sequential implementations of the specification - Sim({}) (correct) and  *)
(* Sim(AllIds) (the code as it is) - and checks on every reachable state    *)
(*   IdealAccepted     the judge with NO known deviation accepts every      *)
(*                     event of the correct implementation, unlabelled      *)
(*   CodedExplained    the judge with all ids known accepts every event of  *)
(*                     the code-shaped implementation                       *)
(*   JudgeTracks       the judge's state is the implementation's state      *)
(*   PinnedCodedConforms  (pinned variant, expected to be REFUTED: the      *)
(*                     code-shaped implementation is NOT accepted without   *)
(*                     known deviations - regenerates the findings at the   *)
(*                     level of the model)                                  *)
(* and emits the program (binding G) for drv_archclient.                    *)
(***************************************************************************)
EXTENDS ArchClient, Json

CONSTANTS Family,   \* "rd" | "rs" | "bt" | "cf" | "cm"
          D,        \* program length
          Alpha,    \* "full" | "red" | "tiny": size of the operation alphabet
          Variant   \* configuration variant 1..3

VARIABLES cfg, xI, xC, jI, jC, jP, okI, okC, okP, hist
vars == <<cfg, xI, xC, jI, jC, jP, okI, okC, okP, hist>>

\* ---- the world catalogue -------------------------------------------------------------------
Keys == << [k |-> 1, enc |-> "blte", plen |-> 3], [k |-> 2, enc |-> "blte", plen |-> 4], [k |-> 3, enc |-> "raw", plen |-> 5],
           [k |-> 4, enc |-> "blte", plen |-> 2], [k |-> 5, enc |-> "zero", plen |-> 0], [k |-> 6, enc |-> "blte", plen |-> 2],
           [k |-> 9, enc |-> "blte", plen |-> 3] >>
E(k, off, size) == [k |-> k, off |-> off, size |-> size, src |-> k]
Arc(len, ents, n, t, u, d1, d2) == [len |-> len, ents |-> ents, h |-> [n |-> n, t |-> t, u |-> u], hl |-> [n |-> n, t |-> t, u |-> n], d1 |-> d1, d2 |-> d2]
Arcs == <<
  \* A1: three blobs, a raw (non-BLTE) one among them, a two-byte gap
  Arc(33, <<E(1, 0, 12), E(3, 12, 5), E(2, 20, 13)>>,
      "1a2b3c4d5e6f70811a2b3c4d5e6f7081", "1a2b3c4d5e6f70811a2b3c4d5e6f7010", "1A2B3C4D5E6F70811A2B3C4D5E6F7081", "1a", "2b"),
  \* A2: key 1 again at another offset, an entry of size 0, an entry that claims two bytes more than the archive holds
  Arc(38, <<E(1, 4, 12), E(4, 16, 11), E(6, 27, 13), E(5, 10, 0)>>,
      "2b3c4d5e6f70811a2b3c4d5e6f70811a", "2b3c4d5e6f70811a2b3c4d5e6f708110", "2B3C4D5E6F70811A2B3C4D5E6F70811A", "2b", "3c"),
  \* A3: clean
  Arc(24, <<E(2, 0, 13), E(4, 13, 11)>>,
      "3c4d5e6f70811a2b3c4d5e6f70811a2b", "3c4d5e6f70811a2b3c4d5e6f70811a10", "3C4D5E6F70811A2B3C4D5E6F70811A2B", "3c", "4d") >>
Cfg(host, hc, path, pathn, https) == [keys |-> Keys, arcs |-> Arcs, vc |-> TRUE, host |-> host, hc |-> hc, path |-> path, pathn |-> pathn,
                                      product |-> "wow", https |-> https]
Cfgs == << Cfg("cdn.example.com", "pub", "tpr/wow", "tpr/wow", TRUE),
           Cfg("cdn10.example.com", "pub10", "tpr/wow/", "tpr/wow", FALSE),
           Cfg("10.0.0.1", "priv", "tpr/wow", "tpr/wow", TRUE) >>

\* ---- alphabets ------------------------------------------------------------------------------
Tamper == {"short", "long", "flip"}
Errs1 == {"e503", "e404", "tmo"}
Bad == Tamper \cup Errs1
Outs1 == {<<>>} \cup {<<o>> : o \in Bad}
Outs2 == Outs1 \cup {<<"ok", o>> : o \in Bad}
Outs3 == Outs2 \cup {<<"ok", "ok", o>> : o \in Bad}
Q(k, blte, exp) == [k |-> k, blte |-> blte, exp |-> exp]
ReqLists == { <<Q(1, TRUE, -1)>>, <<Q(1, TRUE, -1), Q(3, FALSE, -1), Q(9, TRUE, -1)>>, <<Q(1, TRUE, 999), Q(1, FALSE, -1)>>,
              <<Q(3, TRUE, -1)>>, <<>>, <<Q(2, TRUE, 13), Q(4, FALSE, -1)>>, <<Q(2, TRUE, 4)>>, <<Q(5, TRUE, -1), Q(4, TRUE, -1)>>,
              <<Q(6, TRUE, -1)>>, <<Q(4, TRUE, -1), Q(2, TRUE, -1), Q(1, TRUE, -1)>> }
Windows == {<<0, 12>>, <<12, 5>>, <<17, 3>>, <<30, 6>>, <<40, 2>>, <<5, 0>>, <<0, 0>>}
J1 == [a |-> 1, reqs |-> <<Q(1, TRUE, -1)>>]
J3 == [a |-> 3, reqs |-> <<Q(2, TRUE, -1), Q(4, TRUE, -1)>>]
RdOps ==
  {[op |-> "xr", a |-> 1, off |-> w[1], size |-> w[2], top |-> FALSE, ks |-> ks, outs |-> o] : w \in Windows, ks \in BOOLEAN, o \in Outs1} \cup
  {[op |-> "xr", a |-> 1, off |-> w[1], size |-> w[2], top |-> TRUE, ks |-> FALSE, outs |-> <<>>] : w \in {<<0, 5>>, <<4, 5>>, <<9, 5>>}} \cup
  {[op |-> "xk", a |-> a, k |-> k, ks |-> ks, outs |-> o] : a \in 1..3, k \in {1, 2, 3, 4, 5, 6, 9}, ks \in BOOLEAN, o \in Outs1} \cup
  {[op |-> "xm", a |-> a, reqs |-> q, ks |-> FALSE, outs |-> o] : a \in 1..3, q \in ReqLists, o \in Outs2} \cup
  {[op |-> "xm", a |-> 1, reqs |-> <<Q(1, TRUE, -1), Q(2, FALSE, -1)>>, ks |-> TRUE, outs |-> <<>>]} \cup
  {[op |-> "xa", a |-> a, ks |-> FALSE, outs |-> o] : a \in 1..3, o \in Outs3} \cup
  {[op |-> o, a |-> 1, outs |-> x] : o \in {"sz", "sr"}, x \in {<<>>, <<"e503">>, <<"no">>}} \cup
  {[op |-> "bx", readers |-> r, jobs |-> j, outs |-> o] : r \in {1, 2}, j \in {<<J1>>, <<J1, J3>>},
                                                          o \in {<<>>, <<"e503">>, <<"ok", "short">>, <<"ok", "ok", "flip">>}}
\* the resolver
Rfa(a, hv, k, ks, o) == [op |-> "rfa", a |-> a, hv |-> hv, k |-> k, ks |-> ks, outs |-> o]
It(a, hv) == [a |-> a, hv |-> hv]
Pl(as, tok, o) == [op |-> "pl", as |-> as, tok |-> tok, outs |-> o]
Uh(h, hc) == [op |-> "uh", host |-> h, hc |-> hc]
RsFull ==
  {Rfa(a, "n", k, FALSE, o) : a \in {1, 2}, k \in {1, 4, 9}, o \in {<<>>, <<"e503">>, <<"junk">>, <<"ok", "short">>, <<"ok", "e404">>}} \cup
  {Rfa(1, hv, 1, FALSE, <<>>) : hv \in {"t", "u", "short", "nonhex"}} \cup
  {Rfa(2, "n", k, TRUE, o) : k \in {1, 5}, o \in {<<>>, <<"ok", "flip">>, <<"flip">>}} \cup
  {[op |-> "rc", k |-> k, ks |-> FALSE, outs |-> o] : k \in {1, 3, 4, 9}, o \in {<<>>, <<"short">>, <<"e503">>}} \cup
  {[op |-> "rm", reqs |-> q, ks |-> FALSE, outs |-> o] : q \in {<<>>, <<Q(1, TRUE, -1), Q(4, TRUE, -1)>>, <<Q(1, FALSE, -1), Q(9, TRUE, -1)>>, <<Q(4, TRUE, 999)>>},
                                                         o \in {<<>>, <<"ok", "e503">>}} \cup
  {Pl(as, "none", o) : as \in {<<It(1, "n")>>, <<It(1, "n"), It(2, "n")>>, <<It(1, "n"), It(1, "n")>>, <<It(1, "t")>>, <<It(1, "short"), It(2, "n")>>, <<>>},
                       o \in {<<>>, <<"e503">>, <<"junk", "ok">>}} \cup
  {Pl(as, "live", <<>>) : as \in {<<It(1, "n"), It(2, "n")>>, <<It(3, "u")>>}} \cup
  {Pl(as, "cancelled", <<>>) : as \in {<<It(1, "n"), It(2, "n")>>, <<>>}} \cup
  {[op |-> "cc"], [op |-> "sd"]} \cup
  {Uh("cdn.example.com", "pub"), Uh("other.example.net", "pub"), Uh("localhost", "local"), Uh("bad host", "bad")} \cup
  {[op |-> "uc", product |-> "wow", path |-> "tpr/wow", pathn |-> "tpr/wow", host |-> "cdn.example.com", hc |-> "pub", https |-> FALSE],
   [op |-> "uc", product |-> "wow_classic", path |-> "tpr/other", pathn |-> "tpr/other", host |-> "other.example.net", hc |-> "pub", https |-> TRUE]}
RsRed ==
  {Rfa(a, "n", k, FALSE, o) : a \in {1, 2}, k \in {1, 4}, o \in {<<>>, <<"e503">>, <<"ok", "short">>}} \cup
  {Rfa(1, "u", 1, FALSE, <<>>), Rfa(2, "n", 5, TRUE, <<>>)} \cup
  {[op |-> "rc", k |-> k, ks |-> FALSE, outs |-> o] : k \in {1, 4, 9}, o \in {<<>>, <<"e503">>}} \cup
  {[op |-> "rm", reqs |-> <<Q(1, TRUE, -1), Q(4, TRUE, -1)>>, ks |-> FALSE, outs |-> <<>>]} \cup
  {Pl(as, "none", o) : as \in {<<It(1, "n"), It(2, "n")>>, <<It(1, "n"), It(1, "n")>>}, o \in {<<>>, <<"e503">>}} \cup
  {Pl(<<It(2, "n")>>, "live", <<>>), Pl(<<It(1, "n")>>, "cancelled", <<>>)} \cup
  {[op |-> "cc"], Uh("cdn.example.com", "pub"), Uh("other.example.net", "pub"),
   [op |-> "uc", product |-> "wow_classic", path |-> "tpr/other", pathn |-> "tpr/other", host |-> "other.example.net", hc |-> "pub", https |-> TRUE]}
RsTiny ==
  {Rfa(1, "n", 1, FALSE, <<>>), Rfa(2, "n", 4, FALSE, <<"e503">>), Rfa(2, "n", 1, TRUE, <<>>),
   [op |-> "rc", k |-> 1, ks |-> FALSE, outs |-> <<>>], [op |-> "rc", k |-> 4, ks |-> FALSE, outs |-> <<"flip">>],
   [op |-> "rm", reqs |-> <<Q(1, TRUE, -1), Q(4, TRUE, -1)>>, ks |-> FALSE, outs |-> <<>>],
   Pl(<<It(1, "n"), It(2, "n")>>, "none", <<"ok", "e503">>), Pl(<<It(2, "n")>>, "none", <<>>),
   [op |-> "cc"], Uh("other.example.net", "pub")}
BtOps == {[op |-> "br", n |-> n, reqs |-> q, outs |-> <<>>] : n \in 0..2, q \in {<<>>, <<Q(1, TRUE, -1)>>, <<Q(1, TRUE, -1), Q(2, TRUE, -1), Q(4, FALSE, -1)>>}}
\* configuration decisions (R5): one program
Long51 == "aaaaaaaaaaaaaaaaaaaaaaaaaaaaaaaaaaaaaaaaaaaaaaaaaaa"
Long101 == "tpr/aaaaaaaaaaaaaaaaaaaaaaaaaaaaaaaaaaaaaaaaaaaaaaaaaaaaaaaaaaaaaaaaaaaaaaaaaaaaaaaaaaaaaaaaaaaaaaaaaaaaa"
Hosts == << <<"cdn.example.com", "pub">>, <<"cdn10.example.com", "pub10">>, <<"10.0.0.1", "priv">>, <<"localhost", "local">>,
            <<"127.0.0.1", "local">>, <<"", "bad">>, <<"bad host", "bad">>, <<"ex_ample.com", "bad">> >>
Prods == << <<"wow", "ok">>, <<"wow_classic-2", "ok">>, <<"", "empty">>, <<Long51, "long">>, <<"wo w", "badchar">> >>
Paths == << <<"tpr/wow", "ok">>, <<"tpr/x-y_z/", "ok">>, <<"", "empty">>, <<Long101, "long">>, <<"tpr/../x", "badchar">> >>
CfProgram ==
  [i \in 1..(Len(Hosts) * Len(Prods) * Len(Paths)) |->
     LET h == Hosts[((i - 1) % Len(Hosts)) + 1]
         p == Prods[(((i - 1) \div Len(Hosts)) % Len(Prods)) + 1]
         t == Paths[((i - 1) \div (Len(Hosts) * Len(Prods))) + 1]
     IN [op |-> "cfg_new", host |-> h[1], hc |-> h[2], product |-> p[1], pc |-> p[2], path |-> t[1], tc |-> t[2], https |-> (i % 2 = 0)]]
  \o [i \in 1..Len(Hosts) |-> [op |-> "whost", host |-> Hosts[i][1], hc |-> Hosts[i][2]]]

CmOps == {[op |-> o, key |-> "k1"] : o \in {"fc", "fe"}} \cup
         {[op |-> "fg", hash |-> "abcd1234", hcl |-> "ok"], [op |-> "fg", hash |-> "abc", hcl |-> "short"]} \cup
         {[op |-> "fr", name |-> "ab/cd/abcd.data", off |-> 7, len |-> n] : n \in {0, 5}}
Ops == CASE Family = "rd" -> RdOps
         [] Family = "cm" -> CmOps
         [] Family = "rs" -> (IF Alpha = "full" THEN RsFull ELSE IF Alpha = "red" THEN RsRed ELSE RsTiny)
         [] Family = "bt" -> BtOps
         [] OTHER -> {}

\* ---- the machine ---------------------------------------------------------------------------
X0(c) == IF Family = "cm" THEN St0("cm", [cfg |-> c]) ELSE St0(Family, [cfg |-> c, arcs |-> [a \in 1..Len(c.arcs) |-> ArcBytes(c, a)]])
CfgOf == IF Family = "cm" THEN [urls |-> Variant - 1] ELSE Cfgs[Variant]
RECURSIVE FoldJ(_, _, _, _, _)
FoldJ(kd, j, evs, i, acc) ==     \* acc = [ok, plain]: every event accepted / accepted without a label
  IF i > Len(evs) THEN [j |-> j, ok |-> acc.ok, plain |-> acc.plain]
  ELSE LET v == JudgeK(kd, Family, cfg, j, evs[i]) IN
       FoldJ(kd, v.st, evs, i + 1, [ok |-> acc.ok /\ v.ok, plain |-> acc.plain /\ v.ok /\ v.dev = ""])
Acc0 == [ok |-> TRUE, plain |-> TRUE]

MCInit == /\ cfg = CfgOf
          /\ xI = X0(cfg).x /\ xC = xI /\ jI = X0(cfg) /\ jC = jI /\ jP = jI
          /\ okI = TRUE /\ okC = TRUE /\ okP = TRUE /\ hist = <<>>
Do(op) ==
  LET sI == Sim(Family, cfg, {}, xI, op)
      sC == Sim(Family, cfg, AllIds, xC, op)
      fI == FoldJ({}, jI, sI.evs, 1, Acc0)
      fC == FoldJ(AllIds, jC, sC.evs, 1, Acc0)
      fP == FoldJ({}, jP, sC.evs, 1, Acc0)
  IN /\ xI' = sI.st /\ xC' = sC.st /\ jI' = fI.j /\ jC' = fC.j /\ jP' = fP.j
     /\ okI' = (okI /\ fI.plain) /\ okC' = (okC /\ fC.ok) /\ okP' = (okP /\ fP.ok)
     /\ hist' = Append(hist, op) /\ UNCHANGED cfg
DoAll == \* the decision table as one program
  LET RECURSIVE Go(_, _, _)
      Go(i, j, ok) == IF i > Len(CfProgram) THEN ok
                      ELSE LET evs == Sim("cf", cfg, {}, 0, CfProgram[i]).evs
                               f == FoldJ({}, j, evs, 1, Acc0)
                           IN Go(i + 1, f.j, ok /\ f.plain)
  IN /\ okI' = Go(1, jI, TRUE) /\ hist' = CfProgram
     /\ UNCHANGED <<cfg, xI, xC, jI, jC, jP, okC, okP>>

MCNext == IF Family = "cf" THEN (hist = <<>> /\ DoAll)
          ELSE Len(hist) < D /\ \E op \in Ops : Do(op)
IdealAccepted == okI
CodedExplained == okC
JudgeTracks == jI.x = xI /\ jC.x = xC /\ jI.calls = <<>> /\ jC.calls = <<>>
PinnedCodedConforms == okP

Complete == IF Family = "cf" THEN hist # <<>> ELSE Len(hist) = D
Emit == Complete => PrintT(<<"PROGRAM", ToJson([fam |-> Family, cfg |-> cfg, ops |-> hist])>>)
=============================================================================
