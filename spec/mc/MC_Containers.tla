--------------------------- MODULE MC_Containers ---------------------------
(***************************************************************************)
(* Bounded exhaustive checking of Containers.tla and generation of         *)
(* programs (binding G).  One configuration = (component, family of        *)
(* operations, fixed prefix, depth D): TLC steps the composed model with   *)
(* the first candidate of every operation (= what the present code does,   *)
(* without the listed deviations), checks the design invariants in every   *)
(* reachable state and prints every operation sequence of length D behind  *)
(* the prefix as a program for harness/src/bin/drv_containers.             *)
(***************************************************************************)
EXTENDS Containers, Json

CONSTANTS Comp,      \* "dyn" | "res" | "static" | "hl"
          Family,    \* operation alphabet within the component
          Pre,       \* name of the fixed prefix
          D,         \* number of operations behind the prefix
          ResM,      \* dyn: access mode of the attached residency container, or "off"
          LruOn,     \* dyn: a tracker is attached
          FCap       \* hl: capacity of the FD cache in the model (the program's floods are relative to it)
VARIABLE hist

Size(p) == (CASE p = "a" -> 100 [] p = "b" -> 50 [] p = "c" -> 20) + 39
Payloads == <<<<"a", 100>>, <<"b", 50>>, <<"c", 20>>>>
Desc == [len |-> 100, blte0 |-> FALSE, blte30 |-> FALSE]
Min2(a, b) == IF a < b THEN a ELSE b

(* ------------------------------- dyn ---------------------------------- *)
DNames == IF Family = "lru" THEN {"a", "b", "c"} ELSE IF Family = "modes" THEN {"a"} ELSE {"a", "b"}
DOps ==
  CASE Family = "lru" ->
         {[op |-> "write", p |-> p] : p \in {"a", "b", "c"}} \cup {[op |-> "read", p |-> p] : p \in {"a", "b", "c"}} \cup
         {[op |-> "remove", p |-> "a"], [op |-> "levict"], [op |-> "ltouch", p |-> "c"], [op |-> "reopen", mode |-> "rw"]}
    [] Family = "trunc" ->
         {[op |-> o, p |-> p] : o \in {"write", "read", "trunc", "mark"}, p \in {"a", "b"}} \cup
         {[op |-> "unmark", p |-> "a"], [op |-> "remove", p |-> "a"], [op |-> "rmspan", p |-> "a", off |-> 0, len |-> 10]}
    [] Family = "modes" ->
         {[op |-> o, p |-> "a"] : o \in {"write", "read", "remove", "reserve", "flushb", "trunc", "mark", "ltouch"}} \cup
         {[op |-> "read", p |-> "a", off |-> 5, len |-> 3], [op |-> "rmspan", p |-> "a", off |-> 0, len |-> 10], [op |-> "flush"]} \cup
         {[op |-> "reopen", mode |-> m] : m \in {"rw", "ro", "none", "excl"}}

\* the numbers the driver will log, as the model predicts them
DFull(d, o) ==
  CASE o.op = "write"  -> o @@ [off |-> d.c.flen, end |-> d.c.flen + Size(o.p)]
    [] o.op = "reopen" -> o @@ [flen |-> d.c.flen]
    [] o.op = "trunc"  -> o @@ [mode |-> d.mode, flen |-> Min2(d.loc[o.p][2] - 1, d.c.flen)]
    [] OTHER -> o
DEnabled(d, o) ==
  CASE o.op = "trunc" -> o.p \in DOMAIN d.loc /\ d.loc[o.p][2] <= d.c.flen
    [] o.op \in {"mark", "unmark"} -> d.resOn
    [] o.op \in {"ltouch", "levict"} -> d.lruOn
    [] OTHER -> TRUE
\* a trunc is written into the program with the mode it reopens in
DProg(d, o) == IF o.op = "trunc" THEN o @@ [mode |-> d.mode] ELSE o

DPrefix == CASE Pre = "none" -> <<>>
             [] Pre = "wa"   -> <<[op |-> "write", p |-> "a"]>>
             [] Pre = "wab"  -> <<[op |-> "write", p |-> "a"], [op |-> "write", p |-> "b"]>>
             [] Pre = "cut"  -> <<[op |-> "write", p |-> "a"], [op |-> "write", p |-> "b"], [op |-> "mark", p |-> "b"], [op |-> "trunc", p |-> "b"]>>

(* ------------------------------- res ---------------------------------- *)
RNames == {"a", "b"}
ROps ==
  {[op |-> o, k |-> "a"] : o \in {"mark", "unmark", "span", "cremove", "creserve", "cread", "cwrite"}} \cup
  {[op |-> "mark", k |-> "b"], [op |-> "delete", ks |-> <<"a", "b">>, pad |-> 0], [op |-> "save"]} \cup
  {[op |-> "reload", mode |-> m, ro |-> ~CanWrite(m)] : m \in {"rw", "ro", "none"}}
RPrefix == CASE Pre = "none" -> <<>>
             [] Pre = "saved" -> <<[op |-> "mark", k |-> "a"], [op |-> "save"]>>
\* the ideal candidate for whichever result the specification expects
RIdeal(x, o) ==
  LET ok == SelectSeq(ResCands(x.r, x.mode, RNames, o @@ [res |-> "ok"]), LAMBDA c : c.dev = {})
      er == SelectSeq(ResCands(x.r, x.mode, RNames, o @@ [res |-> "err"]), LAMBDA c : c.dev = {})
  IN IF ok # <<>> THEN ok[1] ELSE er[1]
RNext(x, o) == [r |-> RIdeal(x, o).st, mode |-> IF o.op = "reload" THEN o.mode ELSE x.mode]

(* ------------------------------ static -------------------------------- *)
SNames == {"a", "b"}
SOps ==
  {[op |-> "dwrite", p |-> "a"], [op |-> "dwrite", p |-> "b"], [op |-> "dremove", p |-> "a"], [op |-> "sopen"], [op |-> "snew"],
   [op |-> "sread", p |-> "a"], [op |-> "sread", p |-> "b"], [op |-> "swrite", p |-> "b"], [op |-> "sremove", p |-> "a"],
   [op |-> "sreserve", p |-> "a"]}
SPrefix == CASE Pre = "none" -> <<>>
             [] Pre = "wos"  -> <<[op |-> "dwrite", p |-> "a"], [op |-> "dwrite", p |-> "b"], [op |-> "sopen"]>>
SFull(x, o) == IF o.op = "dwrite" THEN o @@ [end |-> x.c.flen + Size(o.p)] ELSE o

(* -------------------------------- hl ---------------------------------- *)
HKeys == IF Family = "cache" THEN {"a", "b"} ELSE {"a", "b", "z"}
HKeySeq == IF Family = "cache" THEN <<"a", "b">> ELSE <<"a", "b", "z">>
HOps ==
  CASE Family = "links" ->
         {[op |-> "create", k |-> "a", src |-> s, dst |-> "trie"] : s \in {"s1", "s2", "missing"}} \cup
         {[op |-> "create", k |-> "b", src |-> "s1", dst |-> d] : d \in {"in", "out"}} \cup
         {[op |-> "create", k |-> "a", src |-> "s1", dst |-> "tk", dk |-> "b"], [op |-> "create", k |-> "z", src |-> "s1", dst |-> "trie"]} \cup
         {[op |-> "rmfile", k |-> "a", path |-> d] : d \in {"trie", "in", "out"}} \cup
         {[op |-> "rmfile", k |-> "a", path |-> "tk", dk |-> "b"], [op |-> "cremove", k |-> "a"], [op |-> "cremove", k |-> "b"]} \cup
         {[op |-> "delete", ks |-> <<"a">>], [op |-> "delete", ks |-> <<"a", "b">>], [op |-> "clean"], [op |-> "compact"],
          [op |-> "xrmsrc", src |-> "s1"]} \cup
         {[op |-> "reopen", mode |-> m, sup |-> "true"] : m \in {"rw", "ro", "none"}}
    [] Family = "trait" ->
         {[op |-> o, k |-> "a"] : o \in {"creserve", "cread", "cwrite", "cremove", "query"}} \cup
         {[op |-> "create", k |-> "a", src |-> "s1", dst |-> "trie"], [op |-> "probe"], [op |-> "xcreate", k |-> "a"], [op |-> "delete", ks |-> <<"a">>]} \cup
         {[op |-> "reopen", mode |-> m, sup |-> "true"] : m \in {"rw", "ro", "none", "excl"}}
    [] Family = "cache" ->
         {[op |-> "query", k |-> "a"], [op |-> "query", k |-> "b"], [op |-> "xcreate", k |-> "a"], [op |-> "xremove", k |-> "a"],
          [op |-> "create", k |-> "a", src |-> "s1", dst |-> "trie"], [op |-> "cremove", k |-> "a"], [op |-> "delete", ks |-> <<"a">>],
          [op |-> "flood", rel |-> 0 - 1], [op |-> "flood", rel |-> 0]}
HFull(h, o) ==
  CASE o.op = "flood" -> o @@ [n |-> FCap + o.rel]
    [] OTHER -> o
HPrefix == CASE Pre \in {"none", "unprobed"} -> <<>>
             [] Pre = "la" -> <<[op |-> "create", k |-> "a", src |-> "s1", dst |-> "trie"]>>
             [] Pre = "qa" -> <<[op |-> "query", k |-> "a"]>>
HProbed == Pre # "unprobed"
\* a query is answered as the code answers it; everything else takes its first (ideal) candidate
HNext(h, o) ==
  IF o.op = "query" THEN HQuery(h, o.k, HAnswer(h, o.k), FCap).st
  ELSE HCands(h, HFull(h, o), FCap)[1].st
\* with "obsq" the driver queries every key after every operation
RECURSIVE HObsQ(_, _, _)
HObsQ(h, ks, i) == IF i > Len(ks) THEN h ELSE HObsQ(HQuery(h, ks[i], HAnswer(h, ks[i]), FCap).st, ks, i + 1)
HObserved == Family # "cache"
HStep(h, o) == IF HObserved THEN HObsQ(HNext(h, o), HKeySeq, 1) ELSE HNext(h, o)

(* ----------------------------- the machine ---------------------------- *)
Start ==
  CASE Comp = "dyn"    -> D0(LruCap, LruOn, ResM, "rw")
    [] Comp = "res"    -> [r |-> R!R0, mode |-> "rw"]
    [] Comp = "static" -> S0
    [] Comp = "hl"     -> H0(HKeys, "rw", HProbed)
Ops == CASE Comp = "dyn" -> DOps [] Comp = "res" -> ROps [] Comp = "static" -> SOps [] Comp = "hl" -> HOps
Prefix == CASE Comp = "dyn" -> DPrefix [] Comp = "res" -> RPrefix [] Comp = "static" -> SPrefix [] Comp = "hl" -> HPrefix
Enabled(x, o) == IF Comp = "dyn" THEN DEnabled(x, o) ELSE TRUE
StepOf(x, o) ==
  CASE Comp = "dyn"    -> DCands(x, DFull(x, o))[1].st
    [] Comp = "res"    -> RNext(x, o)
    [] Comp = "static" -> SCands(x, SFull(x, o))[1].st
    [] Comp = "hl"     -> HStep(x, o)
ProgOp(x, o) == IF Comp = "dyn" THEN DProg(x, o) ELSE o

RECURSIVE RunPrefix(_, _, _)
RunPrefix(x, h, i) ==
  IF i > Len(Prefix) THEN <<x, h>>
  ELSE RunPrefix(StepOf(x, Prefix[i]), Append(h, ProgOp(x, Prefix[i])), i + 1)

MCInit == LET z == RunPrefix(Start, <<>>, 1) IN w = z[1] /\ hist = z[2]
MCNext == \E o \in Ops : Enabled(w, o) /\ w' = StepOf(w, o) /\ hist' = Append(hist, ProgOp(w, o))
Constr == Len(hist) <= Len(Prefix) + D

Program ==
  CASE Comp = "dyn"    -> [comp |-> "dyn", cap |-> LruCap, lru |-> LruOn, resm |-> ResM, mode |-> "rw", payloads |-> Payloads, ops |-> hist]
    [] Comp = "res"    -> [comp |-> "res", mode |-> "rw", keys |-> <<"a", "b">>, ops |-> hist]
    [] Comp = "static" -> [comp |-> "static", payloads |-> Payloads, ops |-> hist]
    [] Comp = "hl"     -> [comp |-> "hl", mode |-> "rw", keys |-> HKeySeq, obsq |-> HObserved, probe |-> HProbed, ops |-> hist]
Emit == Len(hist) = Len(Prefix) + D => PrintT(<<"PROGRAM", ToJson(Program)>>)

(* ----------------------------- invariants ----------------------------- *)
DynInv == /\ DLruSane /\ DTouchMRU(DNames) /\ DMarkedOnlyIfCut /\ DDurable(Desc) /\ DLruKnown({"a", "b", "c"})
ResInv == TRUE
StaticInv == (w.init /\ w.unsure = {}) => w.snap = w.c.disk
HlInv == /\ HConfined /\ HBounded(FCap) /\ HSourcesSafe
         /\ (Family # "cache" /\ Family # "trait" => HCoherent)
Inv == CASE Comp = "dyn" -> DynInv [] Comp = "res" -> ResInv [] Comp = "static" -> StaticInv [] Comp = "hl" -> HlInv
\* without write access nothing persistent moves (action property)
Frozen ==
  CASE Comp = "dyn" -> (hist'[Len(hist')].op # "trunc") => DFrozen      \* the truncation is the environment's doing
    [] Comp = "hl"  -> HFrozen
    [] Comp = "res" -> (~CanWrite(w.mode) /\ w'.mode = w.mode) => (w'.r.st = w.r.st /\ w'.r.disk = w.r.disk)
    [] OTHER -> TRUE
FrozenProp == [][Frozen]_<<w, hist>>
=============================================================================
