---------------------------- MODULE MC_KeyStore ----------------------------
(***************************************************************************)
(* Bounded instances of KeyStore.tla: design-level invariants of the map   *)
(* and generation of programs (binding G) for drv_bookkeeping.             *)
(*                                                                         *)
(* Family "api":  every sequence of D operations over two ids (a built-in  *)
(*   one and u64::MAX) and two keys, per (init, via) configuration; the    *)
(*   model map runs along and the invariants below are checked on it.      *)
(* Family "csv" / "txt": a store holding ID1 -> K0, then one load of every *)
(*   text of 1..N lines over the line alphabet (the alphabet is a set of   *)
(*   literal lines; <BOM> <NBSP> <TAB> .. are expanded by the driver; the  *)
(*   meaning of a line is defined on code points in KeyStore.tla PART T    *)
(*   and evaluated by the monitor).                                        *)
(* Family "kr":   every sequence of D keyring operations.                  *)
(***************************************************************************)
EXTENDS KeyStore, Json

CONSTANTS Family,   \* "api" | "csv" | "txt" | "kr"
          D,        \* program length (api, kr) / maximal number of lines (csv, txt)
          Init0,    \* "empty" | "new"
          Via       \* "direct" | "trait" | "unified" | "nested" | "custom"
VARIABLE hist

ID1 == <<2814, 5412, 9842, 7004, 1803>>      \* FA505078126ACB3E (a built-in id)
IDM == BnU64Max
K0  == [i \in 1..16 |-> 0]
K1  == [i \in 1..16 |-> i]
K2  == [i \in 1..16 |-> 255]

OpsApi ==
  {[op |-> "add", id |-> i, key |-> k] : i \in {ID1, IDM}, k \in {K1, K2}} \cup
  {[op |-> "remove", id |-> i] : i \in {ID1, IDM}} \cup
  {[op |-> "get", id |-> ID1], [op |-> "load_keys"], [op |-> "save_keys"], [op |-> "debug"]}

\* ---- line alphabet ------------------------------------------------------------------
IdU  == "FA505078126ACB3E"
KeyU == "BDC51862ABED79B2DE48C8E7E66C6200"
KeyL == "aa0b5c77f088ccc2d39049bd267f066d"
IdTexts == {IdU, "fa505078126acb3e", "0xFA505078126ACB3E", "0Xff", "0x0", "1000", "0000000000001000",
            "1234567890123456", "18446744073709551615", "18446744073709551616", "FA505078126ACB3",
            "0x1FA505078126ACB3E", "0x00FA505078126ACB3E", "+5", "DEADBEEF", "<E9>5", "0x", "<FW1>000"}
KeyTexts == {KeyL, "BDC51862ABED79B2DE48C8E7E66C62", "BDC51862ABED79B2DE48C8E7E66C620000",
             "BDC51862ABED79B2DE48C8E7E66C620", "BDC51862ABED79B2DE48C8E7E66C62GG", "0xBDC51862ABED79B2DE48C8E7E66C6200",
             "<E9>DC51862ABED79B2DE48C8E7E66C6200"}
Join(fmt, a, b) == IF fmt = "csv" THEN a \o "," \o b ELSE a \o " " \o b
Decorated(fmt) ==
  IF fmt = "csv"
  THEN {IdU \o " , " \o KeyU, IdU \o "<TAB>," \o KeyL, IdU \o "," \o KeyU \o ",x", IdU \o "," \o KeyU \o " # c",
        IdU \o " " \o KeyU, IdU \o ";" \o KeyU, "// " \o IdU \o "," \o KeyU}
  ELSE {IdU \o "<TAB>" \o KeyU, IdU \o "   " \o KeyL, IdU \o " " \o KeyU \o " x", IdU \o " " \o KeyU \o " # c",
        IdU \o "," \o KeyU, IdU \o ": " \o KeyU, "// " \o IdU \o " " \o KeyU, IdU \o "<VT>" \o KeyU}
Around(fmt) ==
  {p \o Join(fmt, IdU, KeyU) \o q : p \in {" ", "<TAB>", "<BOM>", "<NBSP>", "<IDSP>"}, q \in {""}} \cup
  {Join(fmt, IdU, KeyU) \o q : q \in {" ", "<TAB>", "<NBSP>", "<CR>"}}
Junk == {"", "   ", "# " \o IdU \o "," \o KeyU, "#", "//", IdU, KeyU, "<BOM>", "<E9><EMOJI>,<E9>", ",", "a,b,c", "<EMOJI>"}
Lines(fmt) == {Join(fmt, i, KeyU) : i \in IdTexts} \cup {Join(fmt, IdU, k) : k \in KeyTexts}
              \cup Decorated(fmt) \cup Around(fmt) \cup Junk
\* the lines that make up two- and three-line texts (interaction between lines)
Core(fmt) == {Join(fmt, IdU, KeyU), Join(fmt, IdU, KeyL), Join(fmt, "0xFF", KeyL), Join(fmt, "1000", KeyU),
              "<BOM>" \o Join(fmt, IdU, KeyL), Join(fmt, IdU, "BDC51862ABED79B2DE48C8E7E66C62"), Join(fmt, "+5", KeyU),
              "# c", "", "<E9><EMOJI>"}

Texts(fmt) ==
  {<<x>> : x \in Lines(fmt)} \cup
  (IF D >= 2 THEN {<<x, y>> : x \in Core(fmt), y \in Core(fmt)} ELSE {}) \cup
  (IF D >= 3 THEN {<<x, y, z>> : x \in Core(fmt), y \in Core(fmt), z \in Core(fmt)} ELSE {})
Endings(ls) == IF Len(ls) = 1 THEN {<<"lf", TRUE>>, <<"lf", FALSE>>, <<"crlf", TRUE>>, <<"crlf", FALSE>>}
               ELSE {<<"lf", TRUE>>, <<"crlf", FALSE>>}
OpsText(fmt) == {[op |-> "load", fmt |-> fmt, lines |-> ls, eol |-> en[1], fin |-> en[2]] : ls \in Texts(fmt), en \in {<<"lf", TRUE>>, <<"lf", FALSE>>, <<"crlf", TRUE>>, <<"crlf", FALSE>>}}
ValidText(o) == <<o.eol, o.fin>> \in Endings(o.lines)

\* ---- keyring alphabet ----------------------------------------------------------------
V1 == "C9316739348DCC033AA8112F9A3ACF5D"
V2 == "3de60d37c664723595f27c5cdbf08bfa"
OpsKr ==
  {[op |-> "add", idt |-> p[1], valt |-> p[2]] :
      p \in {<<"4EB4869F95F23B53", V1>>, <<"4eb4869f95f23b53", V2>>, <<"1b3e4e1ecfb25877", V1>>, <<"FFFFFFFFFFFFFFFF", V2>>,
             <<"short", V1>>, <<"1b3e4e1ecfb25877", "tooshort">>}} \cup
  {[op |-> "get", idt |-> i] : i \in {"4eb4869F95f23b53", "1B3E4E1ECFB25877"}} \cup
  {[op |-> "get_id", id |-> i] : i \in {<<9219, 3989, 8507, 1305, 567>>, BnU64Max}} \cup   \* 0x4eb4869f95f23b53
  {[op |-> "roundtrip"], [op |-> "to_store"]}

\* ---- the machine -------------------------------------------------------------------------
Ops == CASE Family = "api" -> OpsApi
         [] Family = "kr"  -> OpsKr
         [] OTHER          -> {o \in OpsText(Family) : ValidText(o)}
Len0 == IF Family \in {"csv", "txt"} THEN 2 ELSE D

MCInit == s = (IF Family = "api" /\ Init0 = "new" THEN OfPairs(BuiltIn) ELSE KS0) /\ res = "ok" /\ hist = <<>>
MCNext ==
  IF Family \in {"csv", "txt"}
  THEN \/ hist = <<>> /\ Do([op |-> "add", id |-> ID1, key |-> K0]) /\ hist' = <<[op |-> "add", id |-> ID1, key |-> K0]>>
       \/ Len(hist) = 1 /\ \E e \in Ops : hist' = Append(hist, e) /\ UNCHANGED <<s, res>>
  ELSE IF Family = "kr" THEN \E e \in Ops : hist' = Append(hist, e) /\ UNCHANGED <<s, res>>
  ELSE \E e \in Ops : Do(e) /\ hist' = Append(hist, e)
Constr == Len(hist) <= Len0

\* ---- design-level invariants of the map ----------------------------------------------------
IdsU == {ID1, IDM, <<>>}
MapLaws == \A i \in IdsU, k \in {K1, K2} :
             AddThenGet(i, k) /\ AddKeepsOthers(i, k) /\ RemoveThenGet(i) /\ AddRemoveId(i, k)
MapRoundTrip == PairsRoundTrip
NewKeepsBuiltIns == (Family = "api" /\ Init0 = "new") =>
   \A p \in BuiltIn : p[1] \in DOMAIN s \/ \E i \in 1..Len(hist) : hist[i].op = "remove" /\ hist[i].id = p[1]

Emit == Len(hist) = Len0 =>
  PrintT(<<"PROGRAM", ToJson(IF Family = "kr" THEN [kind |-> "kr", ops |-> hist]
                              ELSE [kind |-> "ks", init |-> Init0, via |-> Via, ops |-> hist])>>)
=============================================================================
