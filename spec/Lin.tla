-------------------------------- MODULE Lin --------------------------------
(***************************************************************************)
(* Sequential specification of one cache, as used to judge concurrent      *)
(* histories (property C11): what each operation may return and how it     *)
(* changes the abstract contents when operations happen one at a time.     *)
(* It is exactly as strict as the property statement:                      *)
(*  - a get returns the value of the latest put for the key, or nothing    *)
(*    (nothing is *required* if the entry was removed, cleared or expired) *)
(*  - removing an entry that is present but already expired may report     *)
(*    either true or false; looking up an expired entry returns nothing    *)
(*    and may or may not purge it                                          *)
(*  - size / memory report the entries that are present; entries that are  *)
(*    expired but were not looked up yet may or may not be counted         *)
(*  - a tick of the background cleanup task ("sweep") purges the entries   *)
(*    that are expired when it visits them, and nothing else               *)
(*  - no operation fails.                                                  *)
(*                                                                         *)
(* Abstract state: m = function key -> [id, exp], id = 0 meaning absent.   *)
(* A value is identified by the id of the put that wrote it; its size is   *)
(* 1 + 3*id bytes (distinct per id).                                       *)
(***************************************************************************)
EXTENDS Integers, Sequences, FiniteSets

\* typed results (TLC cannot compare an integer with a string): [k |-> kind, v |-> integer]
I(n) == [k |-> "int", v |-> n]
B(b) == [k |-> "bool", v |-> IF b THEN 1 ELSE 0]
Ok   == [k |-> "ok", v |-> 0]
Err  == [k |-> "err", v |-> 0]
ResOf(o) == [k |-> o.rk, v |-> o.rv]

Absent == [id |-> 0, exp |-> FALSE]
SizeOf(id) == 1 + 3 * id      \* as drv_conc sizes its values: distinct per id
Empty(K) == [k \in K |-> Absent]

RECURSIVE SumOf(_, _)
SumOf(m, S) == IF S = {} THEN 0 ELSE LET k == CHOOSE x \in S : TRUE IN SizeOf(m[k].id) + SumOf(m, S \ {k})
Present(m)  == {k \in DOMAIN m : m[k].id # 0}
LivePresent(m) == {k \in DOMAIN m : m[k].id # 0 /\ ~m[k].exp}

(* Outcomes(m, o): the set of [st, res] pairs the sequential cache allows for operation o *)
Outcomes(m, o) ==
  CASE o.op = "get" ->
         LET e == m[o.k] IN
         IF e.id = 0 THEN {[st |-> m, res |-> I(0)]}
         ELSE IF e.exp THEN {[st |-> [m EXCEPT ![o.k] = Absent], res |-> I(0)], [st |-> m, res |-> I(0)]}
         ELSE {[st |-> m, res |-> I(e.id)]}
    [] o.op = "contains" ->
         LET e == m[o.k] IN
         IF e.id = 0 THEN {[st |-> m, res |-> B(FALSE)]}
         ELSE IF e.exp THEN {[st |-> [m EXCEPT ![o.k] = Absent], res |-> B(FALSE)], [st |-> m, res |-> B(FALSE)]}
         ELSE {[st |-> m, res |-> B(TRUE)]}
    [] o.op = "put"     -> {[st |-> [m EXCEPT ![o.k] = [id |-> o.id, exp |-> FALSE]], res |-> Ok]}
    [] o.op = "put_exp" -> {[st |-> [m EXCEPT ![o.k] = [id |-> o.id, exp |-> TRUE]], res |-> Ok]}
    [] o.op = "remove" ->
         LET e == m[o.k] m2 == [m EXCEPT ![o.k] = Absent] IN
         IF e.id = 0 THEN {[st |-> m, res |-> B(FALSE)]}
         ELSE IF e.exp THEN {[st |-> m2, res |-> B(TRUE)], [st |-> m2, res |-> B(FALSE)]}
         ELSE {[st |-> m2, res |-> B(TRUE)]}
    \* remove without a result (DynamicContainer::remove returns () whether or not the key was there)
    [] o.op = "remove_u" -> {[st |-> [m EXCEPT ![o.k] = Absent], res |-> Ok]}
    \* closing and reopening a persistent store changes nothing
    [] o.op = "reopen" -> {[st |-> m, res |-> Ok]}
    [] o.op = "clear" -> {[st |-> [k \in DOMAIN m |-> Absent], res |-> Ok]}
    \* a clear is recorded as one operation per key with the same interval: a sharded map empties shard by shard
    [] o.op = "clear_k" -> {[st |-> [m EXCEPT ![o.k] = Absent], res |-> Ok]}
    \* one tick of a background cleanup task, recorded as one operation per key with the same interval (the
    \* task visits the keys one after the other): an entry that is expired when its key is visited is purged
    [] o.op = "sweep_k" -> {[st |-> IF m[o.k].id # 0 /\ m[o.k].exp THEN [m EXCEPT ![o.k] = Absent] ELSE m, res |-> Ok]}
    [] o.op = "size"  -> {[st |-> m, res |-> I(Cardinality(Present(m)))], [st |-> m, res |-> I(Cardinality(LivePresent(m)))]}
    [] o.op = "mem"   -> {[st |-> m, res |-> I(SumOf(m, Present(m)))], [st |-> m, res |-> I(SumOf(m, LivePresent(m)))]}
    [] OTHER -> {}

(* operation o may be linearized next: every operation that returned before o was invoked is already done *)
Eligible(ops, done, o) ==
  /\ o \notin done
  /\ \A p \in (1..Len(ops)) \ done : p = o \/ ~(ops[p].ret < ops[o].inv)
=============================================================================
