------------------------------ MODULE LruImpl ------------------------------
(***************************************************************************)
(* Code-shaped model of LruManager (cascette-client-storage::lru): a flat  *)
(* table of Cap slots forming a doubly linked list (prev toward the LRU    *)
(* tail, next toward the MRU head), a key map, a free list, and the        *)
(* checkpoint file as a copy of (head, tail, slots).                       *)
(*                                                                         *)
(* It refines the property-level Lru.tla through the mapping               *)
(*      order = the keys met walking from `tail` along `next`.             *)
(* TLC checks on every reachable state that the walk terminates, visits    *)
(* exactly the keys of the key map, that every slot is either on the list  *)
(* or on the free list (no slot is leaked: "capacity is never lost"), and  *)
(* - as an action property - that every operation changes `order` exactly  *)
(* as the textbook operation of Lru.tla does.                              *)
(*                                                                         *)
(* Variant re-introduces the pinned code's behaviour so that TLC           *)
(* regenerates the counterexamples of the fixed defects:                   *)
(*   "evict_leaks"   the public evict_tail does not return the slot to the *)
(*                   free list (F17a)                                      *)
(*   "zero_is_empty" occupancy is derived from the key bytes: the all-zero *)
(*                   key (ZKey) counts as an empty slot on reload and is   *)
(*                   skipped by enumeration (F17b)                         *)
(***************************************************************************)
EXTENDS Naturals, Sequences, FiniteSets, TLC

CONSTANTS Cap, Keys, ZKey, Variant
ASSUME ZKey \in Keys \/ ZKey = "none"

Nil == 0                       \* LRU_SENTINEL
Slots == 1..Cap
Empty == [prev |-> Nil, next |-> Nil, key |-> "empty"]

VARIABLES slot,     \* Slots -> [prev, next, key]
          head, tail,
          keymap,   \* key -> slot index or Nil
          free,     \* sequence of free slot indices (a stack)
          disk      \* the checkpoint file: [valid, slot, head, tail] (valid = FALSE: no file)

vars == <<slot, head, tail, keymap, free, disk>>

Init == /\ slot = [i \in Slots |-> Empty] /\ head = Nil /\ tail = Nil
        /\ keymap = [k \in Keys |-> Nil]
        /\ free = [i \in 1..Cap |-> i]      \* the code pops from the end
        /\ disk = [valid |-> FALSE, slot |-> [i \in Slots |-> Empty], head |-> Nil, tail |-> Nil]

\* ---- list surgery (unlink / link_at_head), as functions on (slot, head, tail) ----
Unlinked(s, h, t, i) ==
  LET p == s[i].prev n == s[i].next
      s1 == IF p # Nil THEN [s EXCEPT ![p].next = n] ELSE s
      s2 == IF n # Nil THEN [s1 EXCEPT ![n].prev = p] ELSE s1
  IN [s |-> [s2 EXCEPT ![i].prev = Nil, ![i].next = Nil],
      h |-> IF n = Nil THEN p ELSE h,
      t |-> IF p = Nil THEN n ELSE t]
LinkedAtHead(s, h, t, i) ==
  LET s1 == [s EXCEPT ![i].next = Nil, ![i].prev = h]
      s2 == IF h # Nil THEN [s1 EXCEPT ![h].next = i] ELSE s1
  IN [s |-> s2, h |-> i, t |-> IF h = Nil THEN i ELSE t]

\* ---- operations ------------------------------------------------------------------
EvictTailCore ==   \* returns the record after unlinking and clearing the tail slot
  LET u == Unlinked(slot, head, tail, tail) IN
  [s |-> [u.s EXCEPT ![tail] = Empty], h |-> u.h, t |-> u.t, victim |-> tail, key |-> slot[tail].key]

Touch(k) ==
  IF keymap[k] # Nil THEN
     LET i == keymap[k]
         u == Unlinked(slot, head, tail, i)
         l == LinkedAtHead(u.s, u.h, u.t, i)
     IN slot' = l.s /\ head' = l.h /\ tail' = l.t /\ UNCHANGED <<keymap, free, disk>>
  ELSE IF free # <<>> THEN
     LET i == free[Len(free)]
         s1 == [slot EXCEPT ![i] = [prev |-> Nil, next |-> Nil, key |-> k]]
         l == LinkedAtHead(s1, head, tail, i)
     IN /\ slot' = l.s /\ head' = l.h /\ tail' = l.t
        /\ keymap' = [keymap EXCEPT ![k] = i] /\ free' = SubSeq(free, 1, Len(free) - 1) /\ UNCHANGED disk
  ELSE IF tail = Nil THEN UNCHANGED vars          \* capacity 0 (or every slot leaked): touch fails
  ELSE
     LET e == EvictTailCore
         i == e.victim
         s1 == [e.s EXCEPT ![i] = [prev |-> Nil, next |-> Nil, key |-> k]]
         l == LinkedAtHead(s1, e.h, e.t, i)
     IN /\ slot' = l.s /\ head' = l.h /\ tail' = l.t
        /\ keymap' = [[keymap EXCEPT ![e.key] = Nil] EXCEPT ![k] = i]
        /\ UNCHANGED <<free, disk>>

Remove(k) ==
  IF keymap[k] = Nil THEN UNCHANGED vars
  ELSE LET i == keymap[k] u == Unlinked(slot, head, tail, i) IN
       /\ slot' = [u.s EXCEPT ![i] = Empty] /\ head' = u.h /\ tail' = u.t
       /\ keymap' = [keymap EXCEPT ![k] = Nil] /\ free' = Append(free, i) /\ UNCHANGED disk

EvictTail ==
  IF tail = Nil THEN UNCHANGED vars
  ELSE LET e == EvictTailCore IN
       /\ slot' = e.s /\ head' = e.h /\ tail' = e.t
       /\ keymap' = [keymap EXCEPT ![e.key] = Nil]
       /\ free' = IF "evict_leaks" \in Variant THEN free ELSE Append(free, e.victim)
       /\ UNCHANGED disk

Checkpoint == disk' = [valid |-> TRUE, slot |-> slot, head |-> head, tail |-> tail] /\ UNCHANGED <<slot, head, tail, keymap, free>>

RECURSIVE WalkSlots(_, _, _)
WalkSlots(s, i, fuel) == IF i = Nil \/ fuel = 0 THEN <<>> ELSE <<i>> \o WalkSlots(s, s[i].next, fuel - 1)

Load ==
  /\ disk.valid
  /\ LET onlist == {WalkSlots(disk.slot, disk.tail, Cap + 1)[j] : j \in 1..Len(WalkSlots(disk.slot, disk.tail, Cap + 1))}
         active == IF "zero_is_empty" \in Variant
                   THEN {i \in Slots : disk.slot[i].key \notin {"empty", ZKey}}
                   ELSE onlist
     IN /\ slot' = disk.slot /\ head' = disk.head /\ tail' = disk.tail
        /\ keymap' = [k \in Keys |-> IF \E i \in active : disk.slot[i].key = k
                                     THEN CHOOSE i \in active : disk.slot[i].key = k ELSE Nil]
        /\ free' = LET RECURSIVE F(_) F(i) == IF i > Cap THEN <<>> ELSE (IF i \in active THEN <<>> ELSE <<i>>) \o F(i + 1) IN F(1)
        /\ UNCHANGED disk

Next == \/ \E k \in Keys : Touch(k) \/ Remove(k)
        \/ EvictTail \/ Checkpoint \/ Load

\* ---- refinement mapping and properties -------------------------------------------
Walk == WalkSlots(slot, tail, Cap + 1)
Order == [j \in 1..Len(Walk) |-> slot[Walk[j]].key]
SetOf(q) == {q[j] : j \in 1..Len(q)}

WalkTerminates == Len(Walk) <= Cap                       \* no cycle
WalkIsKeymap   == SetOf(Order) = {k \in Keys : keymap[k] # Nil} /\ Len(Order) = Cardinality(SetOf(Order))
NoSlotLeaked   == SetOf(Walk) \cup SetOf(free) = Slots    \* capacity is never lost
FreeDisjoint   == SetOf(Walk) \cap SetOf(free) = {}
TypeOK == head \in Slots \cup {Nil} /\ tail \in Slots \cup {Nil}

\* textbook updates of Lru.tla on a plain sequence
Without(q, k) == SelectSeq(q, LAMBDA x : x # k)
TextTouch(o, k) == IF Cap = 0 THEN o ELSE LET o1 == Without(o, k) IN Append(IF Len(o1) >= Cap THEN Tail(o1) ELSE o1, k)
OrderP == [j \in 1..Len(WalkSlots(slot', tail', Cap + 1)) |-> slot'[WalkSlots(slot', tail', Cap + 1)[j]].key]
RefinesTouch  == [][\A k \in Keys : Touch(k) => OrderP = TextTouch(Order, k)]_vars
RefinesRemove == [][\A k \in Keys : Remove(k) => OrderP = Without(Order, k)]_vars
RefinesEvict  == [][EvictTail => OrderP = (IF Order = <<>> THEN <<>> ELSE Tail(Order))]_vars
RefinesLoad   == [][Load => OrderP = [j \in 1..Len(WalkSlots(disk.slot, disk.tail, Cap + 1)) |-> disk.slot[WalkSlots(disk.slot, disk.tail, Cap + 1)[j]].key]]_vars
Spec == Init /\ [][Next]_vars
=============================================================================
