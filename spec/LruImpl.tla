------------------------------ MODULE LruImpl ------------------------------
(***************************************************************************)
(* Code-shaped model of LruManager (cascette-client-storage::lru): a flat  *)
(* table of slots forming a doubly linked list (prev toward the LRU tail,  *)
(* next toward the MRU head), a key map, a free list, and the checkpoint   *)
(* file as a copy of (head, tail, slots).                                  *)
(*                                                                         *)
(* It refines the property-level Lru.tla through the mapping               *)
(*      order = the keys met walking from `tail` along `next`.             *)
(* TLC checks on every reachable state that the walk terminates, visits    *)
(* exactly the keys of the key map, that every slot is either on the list  *)
(* or on the free list (no slot is leaked: "capacity is never lost"), and  *)
(* - as an action property - that every operation changes `order` exactly  *)
(* as the textbook operation of Lru.tla does.                              *)
(*                                                                         *)
(* The directory can be reopened by a tracker of another capacity          *)
(* (Reopen(c), c \in Caps): `cap` is the capacity the tracker was created  *)
(* with, `tsize` the size of its slot table.  A checkpoint records the     *)
(* size of the table it copies.                                            *)
(*                                                                         *)
(* Variant re-introduces the pinned code's behaviour so that TLC           *)
(* regenerates the counterexamples of the fixed defects:                   *)
(*   "evict_leaks"   the public evict_tail does not return the slot to the *)
(*                   free list (F17a)                                      *)
(*   "zero_is_empty" occupancy is derived from the key bytes: the all-zero *)
(*                   key (ZKey) counts as an empty slot on reload and is   *)
(*                   skipped by enumeration (F17b)                         *)
(*   "load_adopts_size"  load_from_disk adopts the checkpoint's table      *)
(*                   whatever its size instead of rebuilding it in the     *)
(*                   tracker's own size (F17d)                             *)
(***************************************************************************)
EXTENDS Naturals, Sequences, FiniteSets, TLC

CONSTANTS Cap,      \* capacity of the first tracker
          Caps,     \* capacities the directory may be reopened with ({} = never reopened)
          Keys, ZKey, Variant
ASSUME ZKey \in Keys \/ ZKey = "none"

MaxCap == CHOOSE m \in Caps \cup {Cap} : \A x \in Caps \cup {Cap} : x <= m
Nil == 0                       \* LRU_SENTINEL
Slots == 1..MaxCap             \* index space of every table that can occur
Empty == [prev |-> Nil, next |-> Nil, key |-> "empty"]
NoKeys == [k \in Keys |-> Nil]
UpTo(c) == [i \in 1..c |-> i]

VARIABLES slot,     \* Slots -> [prev, next, key]   (only 1..tsize exist)
          head, tail,
          keymap,   \* key -> slot index or Nil
          free,     \* sequence of free slot indices (a stack)
          cap,      \* the capacity this tracker was created with
          tsize,    \* the size of its slot table
          disk      \* the checkpoint file: [valid, slot, head, tail, size] (valid = FALSE: no file)

vars == <<slot, head, tail, keymap, free, cap, tsize, disk>>
Mem  == [slot |-> slot, head |-> head, tail |-> tail, keymap |-> keymap, free |-> free]
Fresh(c) == [slot |-> [i \in Slots |-> Empty], head |-> Nil, tail |-> Nil, keymap |-> NoKeys, free |-> UpTo(c)]
Becomes(m) == slot' = m.slot /\ head' = m.head /\ tail' = m.tail /\ keymap' = m.keymap /\ free' = m.free

Init ==
        /\ slot = [i \in Slots |-> Empty] /\ head = Nil /\ tail = Nil
        /\ keymap = NoKeys
        /\ free = UpTo(Cap)                 \* the code pops from the end
        /\ cap = Cap /\ tsize = Cap
        /\ disk = [valid |-> FALSE, slot |-> [i \in Slots |-> Empty], head |-> Nil, tail |-> Nil, size |-> Cap]

\* ---- list surgery (unlink / link_at_head), as functions on (slot, head, tail) ----
Unlinked(s, h, t, i) ==
  LET p == s[i].prev n == s[i].next
      s1 == IF p # Nil THEN [s EXCEPT ![p].next = n] ELSE s
      s2 == IF n # Nil THEN [s1 EXCEPT ![n].prev = p] ELSE s1
  IN [s |-> [s2 EXCEPT ![i].prev = Nil, ![i].next = Nil],
      h |-> IF n = Nil THEN p ELSE h,
      t |-> IF p = Nil THEN n ELSE t]
LinkedAtHead(s, h, t, i) ==
  LET s1 == [s EXCEPT ![i].next = Nil, ![i].prev = h]
      s2 == IF h # Nil THEN [s1 EXCEPT ![h].next = i] ELSE s1
  IN [s |-> s2, h |-> i, t |-> IF h = Nil THEN i ELSE t]

\* ---- operations, as functions on the in-memory record m ----------------------------
EvictTailCore(m) ==   \* the record after unlinking and clearing the tail slot
  LET u == Unlinked(m.slot, m.head, m.tail, m.tail) IN
  [s |-> [u.s EXCEPT ![m.tail] = Empty], h |-> u.h, t |-> u.t, victim |-> m.tail, key |-> m.slot[m.tail].key]

TouchF(m, k) ==
  IF m.keymap[k] # Nil THEN
     LET i == m.keymap[k]
         u == Unlinked(m.slot, m.head, m.tail, i)
         l == LinkedAtHead(u.s, u.h, u.t, i)
     IN [m EXCEPT !.slot = l.s, !.head = l.h, !.tail = l.t]
  ELSE IF m.free # <<>> THEN
     LET i == m.free[Len(m.free)]
         s1 == [m.slot EXCEPT ![i] = [prev |-> Nil, next |-> Nil, key |-> k]]
         l == LinkedAtHead(s1, m.head, m.tail, i)
     IN [slot |-> l.s, head |-> l.h, tail |-> l.t,
         keymap |-> [m.keymap EXCEPT ![k] = i], free |-> SubSeq(m.free, 1, Len(m.free) - 1)]
  ELSE IF m.tail = Nil THEN m          \* capacity 0 (or every slot leaked): touch fails
  ELSE
     LET e == EvictTailCore(m)
         i == e.victim
         s1 == [e.s EXCEPT ![i] = [prev |-> Nil, next |-> Nil, key |-> k]]
         l == LinkedAtHead(s1, e.h, e.t, i)
     IN [slot |-> l.s, head |-> l.h, tail |-> l.t,
         keymap |-> [[m.keymap EXCEPT ![e.key] = Nil] EXCEPT ![k] = i], free |-> m.free]

Touch(k) == Becomes(TouchF(Mem, k)) /\ UNCHANGED <<cap, tsize, disk>>

Remove(k) ==
  IF keymap[k] = Nil THEN UNCHANGED vars
  ELSE LET i == keymap[k] u == Unlinked(slot, head, tail, i) IN
       /\ slot' = [u.s EXCEPT ![i] = Empty] /\ head' = u.h /\ tail' = u.t
       /\ keymap' = [keymap EXCEPT ![k] = Nil] /\ free' = Append(free, i) /\ UNCHANGED <<cap, tsize, disk>>

EvictTail ==
  IF tail = Nil THEN UNCHANGED vars
  ELSE LET e == EvictTailCore(Mem) IN
       /\ slot' = e.s /\ head' = e.h /\ tail' = e.t
       /\ keymap' = [keymap EXCEPT ![e.key] = Nil]
       /\ free' = IF "evict_leaks" \in Variant THEN free ELSE Append(free, e.victim)
       /\ UNCHANGED <<cap, tsize, disk>>

Checkpoint == /\ disk' = [valid |-> TRUE, slot |-> slot, head |-> head, tail |-> tail, size |-> tsize]
              /\ UNCHANGED <<slot, head, tail, keymap, free, cap, tsize>>

\* a new tracker of capacity c on the same directory
Reopen(c) == Becomes(Fresh(c)) /\ cap' = c /\ tsize' = c /\ UNCHANGED disk

RECURSIVE WalkSlots(_, _, _)
WalkSlots(s, i, fuel) == IF i = Nil \/ fuel = 0 THEN <<>> ELSE <<i>> \o WalkSlots(s, s[i].next, fuel - 1)
DiskWalk  == WalkSlots(disk.slot, disk.tail, MaxCap + 1)
DiskOrder == [j \in 1..Len(DiskWalk) |-> disk.slot[DiskWalk[j]].key]
MostRecent(o, c) == SubSeq(o, (IF Len(o) > c THEN Len(o) - c ELSE 0) + 1, Len(o))

RECURSIVE TouchAllF(_, _, _)
TouchAllF(m, ks, j) == IF j > Len(ks) THEN m ELSE TouchAllF(TouchF(m, ks[j]), ks, j + 1)

Load ==
  /\ disk.valid
  /\ LET onlist == {DiskWalk[j] : j \in 1..Len(DiskWalk)}
         active == IF "zero_is_empty" \in Variant
                   THEN {i \in 1..disk.size : disk.slot[i].key \notin {"empty", ZKey}}
                   ELSE onlist
         \* the table as the file has it
         adopted == [slot |-> disk.slot, head |-> disk.head, tail |-> disk.tail,
                     keymap |-> [k \in Keys |-> IF \E i \in active : disk.slot[i].key = k
                                                THEN CHOOSE i \in active : disk.slot[i].key = k ELSE Nil],
                     free |-> LET RECURSIVE F(_) F(i) == IF i > disk.size THEN <<>> ELSE (IF i \in active THEN <<>> ELSE <<i>>) \o F(i + 1) IN F(1)]
     IN IF disk.size = cap \/ "load_adopts_size" \in Variant
        THEN Becomes(adopted) /\ tsize' = disk.size
        ELSE \* another capacity: a fresh table of this tracker's size, the most recent keys touched in order
             Becomes(TouchAllF(Fresh(cap), MostRecent(DiskOrder, cap), 1)) /\ tsize' = cap
  /\ UNCHANGED <<cap, disk>>

Next == \/ \E k \in Keys : Touch(k) \/ Remove(k)
        \/ EvictTail \/ Checkpoint \/ Load
        \/ \E c \in Caps : Reopen(c)

\* ---- refinement mapping and properties -------------------------------------------
Walk == WalkSlots(slot, tail, MaxCap + 1)
Order == [j \in 1..Len(Walk) |-> slot[Walk[j]].key]
SetOf(q) == {q[j] : j \in 1..Len(q)}

WalkTerminates == Len(Walk) <= cap                       \* no cycle, never more entries than the capacity
WalkIsKeymap   == SetOf(Order) = {k \in Keys : keymap[k] # Nil} /\ Len(Order) = Cardinality(SetOf(Order))
NoSlotLeaked   == SetOf(Walk) \cup SetOf(free) = 1..cap   \* capacity is never lost
FreeDisjoint   == SetOf(Walk) \cap SetOf(free) = {}
TypeOK == head \in Slots \cup {Nil} /\ tail \in Slots \cup {Nil} /\ cap \in Caps \cup {Cap}

\* textbook updates of Lru.tla on a plain sequence
Without(q, k) == SelectSeq(q, LAMBDA x : x # k)
TextTouch(o, k) == IF cap = 0 THEN o ELSE LET o1 == Without(o, k) IN Append(IF Len(o1) >= cap THEN Tail(o1) ELSE o1, k)
OrderP == [j \in 1..Len(WalkSlots(slot', tail', MaxCap + 1)) |-> slot'[WalkSlots(slot', tail', MaxCap + 1)[j]].key]
RefinesTouch  == [][\A k \in Keys : Touch(k) => OrderP = TextTouch(Order, k)]_vars
RefinesRemove == [][\A k \in Keys : Remove(k) => OrderP = Without(Order, k)]_vars
RefinesEvict  == [][EvictTail => OrderP = (IF Order = <<>> THEN <<>> ELSE Tail(Order))]_vars
RefinesLoad   == [][Load => OrderP = MostRecent(DiskOrder, cap)]_vars
RefinesReopen == [][\A c \in Caps : Reopen(c) => OrderP = <<>>]_vars
Spec == Init /\ [][Next]_vars
=============================================================================
