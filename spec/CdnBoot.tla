------------------------------ MODULE CdnBoot ------------------------------
(***************************************************************************)
(* X12 (growth), second half: the CDN bootstrap (cdn/streaming/            *)
(* bootstrap.rs: CdnBootstrap, CdnEntry, BootstrapStats) and the           *)
(* configuration structures (cdn/streaming/config.rs: StreamingConfig,     *)
(* RetryConfig, ConnectionPoolConfig, CdnConfig; config.rs: ClientConfig,  *)
(* CacheConfig) of cascette-protocol.  All of it is functional: every      *)
(* recorded call is judged by an executable definition on the recorded     *)
(* arguments (binding E inside the trace monitor).                         *)
(*                                                                         *)
(* Quantifier of B1-B7: every table of <= 3 (4) rows over a field alphabet *)
(* (names that contain each other, empty fields, host lists with repeats   *)
(* and double spaces, HTTPS and HTTP-only hosts) x header layouts (Name /  *)
(* Region, Hosts / Server, extra columns, any column order) x product      *)
(* filters; every hand-made bootstrap over a server alphabet with          *)
(* priorities 0..u32::MAX; arbitrary bytes.                                *)
(*                                                                         *)
(*  B1  from_ribbit_response is total (Ok or Err, no panic) and a function *)
(*      of its input.  On a well-formed table: Err iff some row has no     *)
(*      hosts; otherwise, over the rows whose name contains the filter (all*)
(*      without one): paths = name -> path of the last such row with a     *)
(*      path; preferred_hosts = the hosts in order of first appearance;    *)
(*      servers = the hosts with priority 10, 20, .. by position in their  *)
(*      row, HTTPS-capable iff the host is a blizzard.com / battle.net /   *)
(*      wago.tools name, ordered HTTPS-capable first, then by priority,    *)
(*      rows and positions keeping their order among equals;               *)
(*      is_official.  "Discovered servers": a host is listed once, as in   *)
(*      preferred_hosts and as merge_with_fallback / merge_servers do.     *)
(*  B2  get_path(p) = the path of p when p is a key; otherwise the path of *)
(*      some key that contains p or is contained in it, None when there is *)
(*      none - and a function of (paths, p): the same table gives the same *)
(*      answer every time.                                                 *)
(*  B3  primary_server = the first HTTPS-capable server of least priority  *)
(*      value, None without one.                                           *)
(*  B4  stats = (servers, HTTPS-capable, the rest, paths, is_official).    *)
(*  B5  validate = Ok iff there is a server, a path, and no empty host.    *)
(*  B6  merge_with_fallback(fb) never panics; keeps every official server  *)
(*      (host, flag, priority); adds each fallback host it does not have   *)
(*      once, with its flag, never at a better priority than it had; the   *)
(*      result is ordered by priority and every official server stays      *)
(*      before every added one; paths = official ones plus the fallback's  *)
(*      for products the official side lacks; is_official unchanged.       *)
(*      fallback_configuration() validates and is HTTPS only.              *)
(*  B7  StreamingConfig::for_runtime_updates(b) is Ok iff b validates, and *)
(*      then carries b's servers and validates.  CdnConfig::update_from_   *)
(*      bootstrap / from_bootstrap / remove_servers / merge_servers /      *)
(*      update_server_priorities do to the server list what they say (in   *)
(*      that order, stable), clamp max_failover_attempts into 1..#servers  *)
(*      exactly as documented and touch nothing else.                      *)
(*                                                                         *)
(* Quantifier of K1-K4: every preset x every assignment of boundary values *)
(* (0, 1, 2, 8, 2^16, 2^20, 2^32, 2^40, 2^62, the type's maximum; NaN,     *)
(* +-inf, -0.0, the neighbours of 0 and 1; Duration 0 / 1 ns / MAX) to up  *)
(* to two (three) of the fields.                                           *)
(*                                                                         *)
(*  K1  Every preset validates (StreamingConfig::default, high_throughput, *)
(*      low_memory, unreliable_network; CdnConfig::default, blizzard_only, *)
(*      community_only, high_availability, development).                   *)
(*  K2  validate() is total and a function of the fields; it returns Ok    *)
(*      iff none of its documented conditions is violated, and otherwise   *)
(*      the message of a violated one: the four sizes and retry.max_       *)
(*      attempts and max_total_connections > 0, coalesce threshold <= max  *)
(*      range size, jitter factor between 0.0 and 1.0 (NaN is not between) *)
(*      max_total_connections >= max_connections_per_host, and CdnConfig:  *)
(*      a server, 0 < max_failover_attempts <= #servers, no empty host.    *)
(*  K3  estimated_memory_usage never panics: buffer x connections +        *)
(*      total connections x 8192 + servers x 256, saturating.              *)
(*  K4  ClientConfig::from_env is total; a variable holding a decimal      *)
(*      number in range gives that number, anything else (unset, empty,    *)
(*      negative, out of range, not a number) the documented default; the  *)
(*      URL / directory variables are taken literally.                     *)
(***************************************************************************)
EXTENDS PathCache

HugeP == 1073741824      \* 2^30: priorities at or above are logged as this

\* ------------------------------------------------------------------ strings as character sequences
ContainsSeq(a, b) == \E i \in 0..(Len(a) - Len(b)) : SubSeq(a, i + 1, i + Len(b)) = b
BootWs == {" ", "\t"}
RECURSIVE LStripC(_)
LStripC(cs) == IF cs # <<>> /\ Head(cs) \in BootWs THEN LStripC(Tail(cs)) ELSE cs
RECURSIVE RStripC(_)
RStripC(cs) == IF cs # <<>> /\ cs[Len(cs)] \in BootWs THEN RStripC(SubSeq(cs, 1, Len(cs) - 1)) ELSE cs
RECURSIVE TokensC(_, _)
TokensC(cs, cur) ==
  IF cs = <<>> THEN (IF cur = <<>> THEN <<>> ELSE <<cur>>)
  ELSE IF Head(cs) \in BootWs THEN (IF cur = <<>> THEN <<>> ELSE <<cur>>) \o TokensC(Tail(cs), <<>>)
  ELSE TokensC(Tail(cs), Append(cur, Head(cs)))
CBlizzard == <<"b", "l", "i", "z", "z", "a", "r", "d", ".", "c", "o", "m">>
CBattle   == <<"b", "a", "t", "t", "l", "e", ".", "n", "e", "t">>
CWago     == <<"w", "a", "g", "o", ".", "t", "o", "o", "l", "s">>
HttpsHost(hc) == ContainsSeq(hc, CBlizzard) \/ ContainsSeq(hc, CBattle) \/ ContainsSeq(hc, CWago)

\* ------------------------------------------------------------------ servers: <<host, https (0/1), priority>>
SKey(kind, s) == IF kind = "https" THEN (IF s[2] = 1 THEN s[3] ELSE s[3] + 1000) ELSE s[3]
\* stable insertion sort by key ("https": HTTPS-capable first, then priority; "prio": priority)
RECURSIVE InsertBy(_, _, _)
InsertBy(kind, sorted, x) ==
  IF sorted = <<>> THEN <<x>>
  ELSE IF SKey(kind, sorted[Len(sorted)]) <= SKey(kind, x) THEN Append(sorted, x)
  ELSE Append(InsertBy(kind, SubSeq(sorted, 1, Len(sorted) - 1), x), sorted[Len(sorted)])
RECURSIVE StableSortBy(_, _)
StableSortBy(kind, xs) == IF xs = <<>> THEN <<>> ELSE InsertBy(kind, StableSortBy(kind, SubSeq(xs, 1, Len(xs) - 1)), xs[Len(xs)])
HostsOf(xs) == {xs[i][1] : i \in 1..Len(xs)}
RECURSIVE DedupHosts(_, _)
DedupHosts(xs, seen) ==
  IF xs = <<>> THEN <<>>
  ELSE IF Head(xs)[1] \in seen THEN DedupHosts(Tail(xs), seen) ELSE <<Head(xs)>> \o DedupHosts(Tail(xs), seen \cup {Head(xs)[1]})
HasDupHosts(xs) == \E i, j \in 1..Len(xs) : i < j /\ xs[i][1] = xs[j][1]
RECURSIVE DedupStr(_, _)
DedupStr(xs, seen) ==
  IF xs = <<>> THEN <<>>
  ELSE IF Head(xs) \in seen THEN DedupStr(Tail(xs), seen) ELSE <<Head(xs)>> \o DedupStr(Tail(xs), seen \cup {Head(xs)})
SortedByPrio(xs) == \A i \in 1..(Len(xs) - 1) : xs[i][3] <= xs[i + 1][3]
FilterSeq(xs, Keep(_)) == LET F[i \in 0..Len(xs)] == IF i = 0 THEN <<>> ELSE IF Keep(xs[i]) THEN Append(F[i - 1], xs[i]) ELSE F[i - 1] IN F[Len(xs)]

\* ------------------------------------------------------------------ B1: the table
ColIdx(hdr, name) == IF \E i \in 1..Len(hdr) : hdr[i] = name THEN CHOOSE i \in 1..Len(hdr) : hdr[i] = name /\ \A j \in 1..(i - 1) : hdr[j] # name ELSE 0
ColOr(hdr, a, b) == IF ColIdx(hdr, a) # 0 THEN ColIdx(hdr, a) ELSE ColIdx(hdr, b)
\* the reader trims every line: leading blanks of the first field and trailing blanks of the last one are gone
RowFields(row) == [i \in 1..Len(row) |-> LET a == IF i = 1 THEN LStripC(row[i]) ELSE row[i] IN IF i = Len(row) THEN RStripC(a) ELSE a]
FieldAt(f, i) == IF i = 0 THEN <<>> ELSE f[i]
IsComment(f) == f[1] # <<>> /\ f[1][1] = "#"
\* acc = [err, raw (servers in row order), paths (function name -> path), pref]
FnPut(fn, k, v) == [x \in DOMAIN fn \cup {k} |-> IF x = k THEN v ELSE fn[x]]
RowServers(toks) == [j \in 1..Len(toks) |-> <<Flat(toks[j]), IF HttpsHost(toks[j]) THEN 1 ELSE 0, 10 * j>>]
RECURSIVE ParseRows(_, _, _, _, _)
ParseRows(hdr, rows, fc, k, acc) ==
  IF k > Len(rows) \/ acc.err THEN acc
  ELSE LET f == RowFields(rows[k]) IN
       IF IsComment(f) THEN ParseRows(hdr, rows, fc, k + 1, acc)
       ELSE LET name  == FieldAt(f, ColOr(hdr, "Name", "Region"))
                path  == FieldAt(f, ColIdx(hdr, "Path"))
                hosts == FieldAt(f, ColOr(hdr, "Hosts", "Server"))
                toks  == TokensC(hosts, <<>>)
            IN IF hosts = <<>> THEN [acc EXCEPT !.err = TRUE]
               ELSE IF fc # <<>> /\ ~ContainsSeq(name, fc[1]) THEN ParseRows(hdr, rows, fc, k + 1, acc)
               ELSE ParseRows(hdr, rows, fc, k + 1,
                      [err |-> FALSE, raw |-> acc.raw \o RowServers(toks),
                       paths |-> IF path = <<>> THEN acc.paths ELSE FnPut(acc.paths, Flat(name), Flat(path)),
                       pref |-> acc.pref \o [j \in 1..Len(toks) |-> Flat(toks[j])]])
ParseTable(hdr, rows, fc) == ParseRows(hdr, rows, fc, 1, [err |-> FALSE, raw |-> <<>>, paths |-> <<>>, pref |-> <<>>])
PathPairs(fn) == {<<k, fn[k]>> : k \in DOMAIN fn}

\* the bootstrap a run works on, as observed: [servers, paths (set of pairs), pref, official]
BootOf(r) == [servers |-> r.servers, paths |-> {<<r.paths[i][1], r.paths[i][2]>> : i \in 1..Len(r.paths)}, pref |-> r.pref, official |-> r.official]
BootNone == [servers |-> <<>>, paths |-> {}, pref |-> <<>>, official |-> FALSE]

BootJudgeNew(e) ==        \* [ok, devs, st]
  LET r == e.res IN
  IF r.k = "panic" \/ ~e.same THEN [ok |-> FALSE, devs |-> {}, st |-> BootNone]
  ELSE IF r.k = "err" THEN
       [ok |-> IF "parse" \in DOMAIN e.src THEN ParseTable(e.src.parse.hdr, e.rc, e.fc).err
               ELSE ("raw" \in DOMAIN e.src \/ "rawhex" \in DOMAIN e.src),
        devs |-> {}, st |-> BootNone]
  ELSE LET b == BootOf(r) IN
       IF "parse" \in DOMAIN e.src THEN
          LET m == ParseTable(e.src.parse.hdr, e.rc, e.fc)
              rest == ~m.err /\ b.paths = PathPairs(m.paths) /\ b.pref = DedupStr(m.pref, {}) /\ b.official = TRUE
              ideal == b.servers = StableSortBy("https", DedupHosts(m.raw, {}))
              ascoded == b.servers = StableSortBy("https", m.raw) /\ HasDupHosts(m.raw)
          IN [ok |-> rest /\ (ideal \/ ascoded), devs |-> IF rest /\ ~ideal /\ ascoded THEN {"FX12f"} ELSE {}, st |-> b]
       ELSE IF "mk" \in DOMAIN e.src THEN
          [ok |-> b.servers = [i \in 1..Len(e.src.mk.servers) |->
                                  <<e.src.mk.servers[i][1], IF e.src.mk.servers[i][2] THEN 1 ELSE 0,
                                    IF e.src.mk.servers[i][3] < 0 THEN HugeP ELSE e.src.mk.servers[i][3]>>]
                  /\ b.paths = {<<e.src.mk.paths[i][1], e.src.mk.paths[i][2]>> : i \in 1..Len(e.src.mk.paths)},
           devs |-> {}, st |-> b]
       ELSE IF "fallback" \in DOMAIN e.src THEN
          \* B6: the built-in fallback validates, is HTTPS only and not official
          [ok |-> b.servers # <<>> /\ b.paths # {} /\ ~b.official /\ (\A i \in 1..Len(b.servers) : b.servers[i][2] = 1 /\ b.servers[i][1] # ""),
           devs |-> {}, st |-> b]
       ELSE [ok |-> ("raw" \in DOMAIN e.src \/ "rawhex" \in DOMAIN e.src) \/ (b.servers = <<>> /\ b.paths = {} /\ ~b.official), devs |-> {}, st |-> b]

\* ------------------------------------------------------------------ CdnConfig as logged
CdnMsgs(c) ==     \* the messages of the violated conditions; "emptyhost" stands for the message that names the server
  (IF c.servers = <<>> THEN {"At least one CDN server must be configured"} ELSE {})
  \cup (IF c.mfa = 0 THEN {"max_failover_attempts must be greater than 0"} ELSE {})
  \cup (IF c.mfa > Len(c.servers) THEN {"max_failover_attempts should not exceed number of servers"} ELSE {})
  \cup (IF \E i \in 1..Len(c.servers) : c.servers[i][1] = "" THEN {"emptyhost"} ELSE {})
CdnFixedMsgs == {"At least one CDN server must be configured", "max_failover_attempts must be greater than 0",
                 "max_failover_attempts should not exceed number of servers"}
MsgIn(msg, S) == msg \in S \/ (msg \notin CdnFixedMsgs /\ "emptyhost" \in S)
CdnValidOk(c) == IF CdnMsgs(c) = {} THEN c.valid = "ok" ELSE c.valid # "ok" /\ MsgIn(c.valid, CdnMsgs(c))
ClampMfa(mfa, n) == IF mfa > n THEN PcMax(n, 1) ELSE mfa
SameRest(a, c) == a.https = c.https /\ a.rot = c.rot /\ a.hct = c.hct /\ a.hci = c.hci /\ a.ttl = c.ttl /\ a.vp = c.vp
AddNew(have, add) == have \o DedupHosts(FilterSeq(add, LAMBDA s : s[1] \notin HostsOf(have)), {})

\* ------------------------------------------------------------------ B2-B7: queries on the observed bootstrap
BootValid(b) == b.servers # <<>> /\ b.paths # {} /\ \A i \in 1..Len(b.servers) : b.servers[i][1] # ""
BootJudge(b, e) ==       \* [ok, devs]
  LET r == e.res
      V(ok) == [ok |-> ok, devs |-> {}]
  IN
  IF r.k = "panic" THEN
     \* B6 / FX12c: the priority arithmetic of merge_with_fallback overflows at the top of u32
     IF e.op = "merge" /\ ((\E i \in 1..Len(b.servers) : b.servers[i][3] >= HugeP)
                           \/ (e.fbk = "custom" /\ \E j \in 1..Len(e.fb.servers) : e.fb.servers[j][3] < 0))
     THEN [ok |-> TRUE, devs |-> {"FX12c"}] ELSE V(FALSE)
  ELSE
  CASE e.op = "getpath" ->
         LET keys == {p[1] : p \in b.paths}
             val(k) == (CHOOSE p \in b.paths : p[1] = k)[2]
             \* the keys as characters, in the order of the logged (sorted) path list
             kcs == [i \in 1..Len(r.kc) |-> r.kc[i]]
             cands == {val(Flat(kcs[i])) : i \in {j \in 1..Len(kcs) : ContainsSeq(kcs[j], r.qc) \/ ContainsSeq(r.qc, kcs[j])}}
             answers == {r.rs[i] : i \in 1..Len(r.rs)}
         IN IF e.p \in keys THEN V(answers = {<<val(e.p)>>})
            ELSE IF cands = {} THEN V(answers = {<<>>})
            ELSE IF ~(\A a \in answers : a # <<>> /\ a[1] \in cands) THEN V(FALSE)
            ELSE IF Cardinality(answers) = 1 THEN V(TRUE)
            ELSE [ok |-> Cardinality(cands) > 1, devs |-> {"FX12b"}]
    [] e.op = "primary" ->
         LET hs == {i \in 1..Len(b.servers) : b.servers[i][2] = 1} IN
         IF hs = {} THEN V(r.v = <<>>)
         ELSE LET i == CHOOSE i \in hs : \A j \in hs : b.servers[i][3] < b.servers[j][3] \/ (b.servers[i][3] = b.servers[j][3] /\ i <= j)
              IN V(r.v = << <<b.servers[i][1], b.servers[i][3]>> >>)
    [] e.op = "stats" ->
         LET nh == Cardinality({i \in 1..Len(b.servers) : b.servers[i][2] = 1}) IN
         V(r.v = <<Len(b.servers), nh, Len(b.servers) - nh, Cardinality(b.paths), IF b.official THEN 1 ELSE 0>>)
    [] e.op = "validate" -> V(r.v = BootValid(b))
    [] e.op = "merge" ->
         LET fb  == BootOf(r.fbv)
             out == BootOf(r.out)
             added == DedupHosts(FilterSeq(fb.servers, LAMBDA s : s[1] \notin HostsOf(b.servers)), {})
             \* the official servers are those of b, the rest the added ones: split by host
             offIdx == {i \in 1..Len(out.servers) : out.servers[i][1] \in HostsOf(b.servers)}
             addIdx == (1..Len(out.servers)) \ offIdx
             keysB == {p[1] : p \in b.paths}
         IN V(/\ Len(out.servers) = Len(b.servers) + Len(added)
              \* every official server is still there, unchanged (as a bag: compare after a stable sort of b by priority)
              /\ FilterSeq(out.servers, LAMBDA s : s[1] \in HostsOf(b.servers)) = StableSortBy("prio", b.servers)
              /\ {out.servers[i][1] : i \in addIdx} = HostsOf(added)
              /\ \A i \in addIdx : \E j \in 1..Len(added) : added[j][1] = out.servers[i][1] /\ added[j][2] = out.servers[i][2]
                                                            /\ out.servers[i][3] >= added[j][3]
              /\ SortedByPrio(out.servers)
              /\ \A i \in offIdx, j \in addIdx : i < j
              /\ out.paths = b.paths \cup {p \in fb.paths : p[1] \notin keysB}
              /\ out.official = b.official
              /\ (e.fbk = "fallback" => r.fb_valid))
    [] e.op = "runtime" ->
         IF ~BootValid(b) THEN V(r.k = "err")
         ELSE V(r.k = "ok" /\ r.cdn.servers = b.servers /\ r.valid = "ok" /\ r.cdn.valid = "ok" /\ CdnValidOk(r.cdn))
    [] e.op = "cfgupd" ->
         V(/\ r.after.servers = b.servers /\ r.after.mfa = ClampMfa(r.before.mfa, Len(b.servers))
           /\ SameRest(r.after, r.before) /\ CdnValidOk(r.after) /\ CdnValidOk(r.before) /\ r.before.valid = "ok")
    [] e.op = "cfgfrom" ->
         V(/\ r.after.servers = b.servers /\ r.after.mfa = PcMin(PcMax(Len(b.servers), 1), r.before.mfa) /\ SameRest(r.after, r.before)
           /\ r.after_none.servers = b.servers /\ r.after_none.mfa = PcMin(PcMax(Len(b.servers), 1), r.dflt.mfa) /\ SameRest(r.after_none, r.dflt)
           /\ CdnValidOk(r.after) /\ CdnValidOk(r.after_none))
    [] e.op = "cfgrm" ->
         LET gone == {e.hosts[i] : i \in 1..Len(e.hosts)}
             want == FilterSeq(r.before.servers, LAMBDA s : s[1] \notin gone)
         IN V(r.after.servers = want /\ r.after.mfa = ClampMfa(r.before.mfa, Len(want)) /\ SameRest(r.after, r.before) /\ CdnValidOk(r.after))
    [] e.op = "cfgmerge" ->
         V(/\ r.after.servers = StableSortBy("prio", AddNew(r.before.servers, r.add))
           /\ r.after.mfa = r.before.mfa /\ SameRest(r.after, r.before) /\ CdnValidOk(r.after))
    [] e.op = "cfgprio" ->
         LET newp(h, old) == IF \E i \in 1..Len(e.upd) : e.upd[i][1] = h
                             THEN LET v == e.upd[CHOOSE i \in 1..Len(e.upd) : e.upd[i][1] = h][2] IN IF v < 0 THEN HugeP ELSE v
                             ELSE old
             upd == [i \in 1..Len(r.before.servers) |-> <<r.before.servers[i][1], r.before.servers[i][2], newp(r.before.servers[i][1], r.before.servers[i][3])>>]
         IN V(r.after.servers = StableSortBy("prio", upd) /\ r.after.mfa = r.before.mfa /\ SameRest(r.after, r.before))
    [] OTHER -> V(FALSE)

\* ------------------------------------------------------------------ u64 as eight bytes, least significant first
B8Zero(x) == \A i \in 1..8 : x[i] = 0
B8Max == <<255, 255, 255, 255, 255, 255, 255, 255>>
RECURSIVE B8LessFrom(_, _, _)
B8LessFrom(x, y, i) == IF i = 0 THEN FALSE ELSE IF x[i] # y[i] THEN x[i] < y[i] ELSE B8LessFrom(x, y, i - 1)
B8Less(x, y) == B8LessFrom(x, y, 8)
B8OfInt(n) == [i \in 1..8 |-> IF i = 1 THEN n % 256 ELSE IF i = 2 THEN (n \div 256) % 256 ELSE IF i = 3 THEN (n \div 65536) % 256
                              ELSE IF i = 4 THEN (n \div 16777216) % 256 ELSE 0]
\* unbounded naturals as sequences of base-256 digits (least significant first), only what K3 / K4 need
\* carry propagation over n column sums; the result has n + 4 digits
RECURSIVE BigCarry(_, _, _, _)
BigCarry(cols, i, n, c) ==
  IF i > n + 4 THEN <<>>
  ELSE LET v == (IF i <= n THEN cols[i] ELSE 0) + c IN <<v % 256>> \o BigCarry(cols, i + 1, n, v \div 256)
BigMul(x, y) == LET nx == Len(x)  ny == Len(y) IN
  BigCarry([k \in 1..(nx + ny - 1) |-> SumSeq([i \in 1..nx |-> IF k - i + 1 >= 1 /\ k - i + 1 <= ny THEN x[i] * y[k - i + 1] ELSE 0])],
           1, nx + ny - 1, 0)
BigAdd(x, y) == LET nx == Len(x)  ny == Len(y)  n == PcMax(nx, ny) IN
  BigCarry([k \in 1..n |-> (IF k <= nx THEN x[k] ELSE 0) + (IF k <= ny THEN y[k] ELSE 0)], 1, n, 0)
BigFits64(x) == \A i \in 9..Len(x) : x[i] = 0
BigSat64(x) == IF BigFits64(x) THEN SubSeq(x, 1, 8) ELSE B8Max

\* ------------------------------------------------------------------ K1-K3: StreamingConfig
JitterOk(f) == f.jk = "fin" /\ f.jm >= 0 /\ f.jm <= 1000000
CfgMsgs(f) ==
  (IF B8Zero(f.mcph) THEN {"max_connections_per_host must be greater than 0"} ELSE {})
  \cup (IF B8Zero(f.sbs) THEN {"stream_buffer_size must be greater than 0"} ELSE {})
  \cup (IF B8Zero(f.mrs) THEN {"max_range_size must be greater than 0"} ELSE {})
  \cup (IF B8Zero(f.mrpr) THEN {"max_ranges_per_request must be greater than 0"} ELSE {})
  \cup (IF B8Less(f.mrs, f.rct) THEN {"range_coalesce_threshold should not exceed max_range_size"} ELSE {})
  \cup (IF B8Zero(f.rmax) THEN {"retry.max_attempts must be greater than 0"} ELSE {})
  \cup (IF ~JitterOk(f) THEN {"retry.jitter_factor must be between 0.0 and 1.0"} ELSE {})
  \cup (IF B8Zero(f.mtc) THEN {"connection_pool.max_total_connections must be greater than 0"} ELSE {})
  \cup (IF B8Less(f.mtc, f.mcph) THEN {"connection_pool.max_total_connections should be >= max_connections_per_host"} ELSE {})
CfgCdnMsgs(f) ==
  (IF f.nsrv = 0 THEN {"At least one CDN server must be configured"} ELSE {})
  \cup (IF B8Zero(f.mfa) THEN {"max_failover_attempts must be greater than 0"} ELSE {})
  \cup (IF B8Less(B8OfInt(f.nsrv), f.mfa) THEN {"max_failover_attempts should not exceed number of servers"} ELSE {})
  \cup (IF f.emptyhost THEN {"emptyhost"} ELSE {})
CfgFixedMsgs == CdnFixedMsgs \cup
  {"max_connections_per_host must be greater than 0", "stream_buffer_size must be greater than 0", "max_range_size must be greater than 0",
   "max_ranges_per_request must be greater than 0", "range_coalesce_threshold should not exceed max_range_size",
   "retry.max_attempts must be greater than 0", "retry.jitter_factor must be between 0.0 and 1.0",
   "connection_pool.max_total_connections must be greater than 0",
   "connection_pool.max_total_connections should be >= max_connections_per_host"}
VerdictOk(res, S) == IF S = {} THEN res.k = "ok"
                     ELSE res.k = "err" /\ (res.msg \in S \/ (res.msg \notin CfgFixedMsgs /\ "emptyhost" \in S))
MemWant(f) == BigSat64(BigAdd(BigAdd(BigMul(f.sbs, f.mcph), BigMul(f.mtc, <<0, 32>>)), BigMul(B8OfInt(f.nsrv), <<0, 1>>)))
MemOverflows(f) == ~BigFits64(BigAdd(BigAdd(BigMul(f.sbs, f.mcph), BigMul(f.mtc, <<0, 32>>)), BigMul(B8OfInt(f.nsrv), <<0, 1>>)))
IsPreset(e) == e.set = <<>>
CfgJudge(e) ==          \* [ok, devs]
  IF e.res.k = "panic" \/ e.cres.k = "panic" \/ "f" \notin DOMAIN e THEN [ok |-> FALSE, devs |-> {}]
  ELSE
  LET f == e.f
      all == CfgMsgs(f) \cup CfgCdnMsgs(f)
      \* FX12e: NaN passes the two comparisons of the jitter test
      nanDev == f.jk = "nan" /\ ~VerdictOk(e.res, all) /\ VerdictOk(e.res, all \ {"retry.jitter_factor must be between 0.0 and 1.0"})
      vOk == VerdictOk(e.res, all) \/ nanDev
      memDev == e.mem.k = "panic" /\ MemOverflows(f)
      memOk == (e.mem.k = "ok" /\ e.mem.v = MemWant(f)) \/ memDev
      preset == IsPreset(e) => (e.res.k = "ok" /\ e.cres.k = "ok")
  IN [ok |-> vOk /\ VerdictOk(e.cres, CfgCdnMsgs(f)) /\ memOk /\ preset /\ e.again = (e.res.k = "ok") /\ e.updatable,
      devs |-> (IF nanDev THEN {"FX12e"} ELSE {}) \cup (IF memDev THEN {"FX12d"} ELSE {})]

\* ------------------------------------------------------------------ K4: from_env
\* decimal digits -> eight bytes; [ok, v]
DigitVal(c) == (CHOOSE i \in 1..10 : Digits[i] = c) - 1
RECURSIVE DecB8(_, _)
DecB8(cs, acc) ==
  IF ~acc.ok \/ cs = <<>> THEN acc
  ELSE IF Head(cs) \notin DigitSet THEN [ok |-> FALSE, v |-> acc.v]
  ELSE LET t == BigAdd(BigMul(acc.v, <<10>>), <<DigitVal(Head(cs))>>) IN
       IF BigFits64(t) THEN DecB8(Tail(cs), [ok |-> TRUE, v |-> SubSeq(t, 1, 8)]) ELSE [ok |-> FALSE, v |-> acc.v]
ParseU64(cs) == IF cs = <<>> THEN [ok |-> FALSE, v |-> B8OfInt(0)] ELSE DecB8(cs, [ok |-> TRUE, v |-> B8OfInt(0)])
FitsU32(v) == \A i \in 5..8 : v[i] = 0
EnvNumDefault == [CASCETTE_CONNECT_TIMEOUT |-> 10, CASCETTE_REQUEST_TIMEOUT |-> 30, CASCETTE_MEMORY_MAX_ITEMS |-> 10000,
                  CASCETTE_RIBBIT_TTL |-> 300, CASCETTE_CDN_TTL |-> 3600, CASCETTE_CONFIG_TTL |-> 1800, CASCETTE_MAX_RETRIES |-> 3,
                  CASCETTE_RETRY_BACKOFF |-> 100, CASCETTE_MAX_BACKOFF |-> 10]
EnvBigDefault == [CASCETTE_MEMORY_MAX_SIZE |-> <<0, 0, 0, 16, 0, 0, 0, 0>>,       \* 256 MiB
                  CASCETTE_DISK_MAX_SIZE |-> <<0, 0, 0, 0, 2, 0, 0, 0>>,          \* 8 GiB
                  CASCETTE_DISK_MAX_FILE_SIZE |-> <<0, 0, 64, 6, 0, 0, 0, 0>>]    \* 100 MiB
EnvStrDefault == [CASCETTE_TACT_HTTPS_URL |-> "https://us.version.battle.net", CASCETTE_TACT_HTTP_URL |-> "http://us.patch.battle.net:1119",
                  CASCETTE_RIBBIT_URL |-> "tcp://us.version.battle.net:1119", CASCETTE_CACHE_DIR |-> ""]
EnvJudge(e) ==
  IF e.res.k # "ok" THEN [ok |-> FALSE, devs |-> {}]
  ELSE
  LET set == {e.vars[i][1] : i \in 1..Len(e.vars)}
      at(n) == e.vars[CHOOSE i \in 1..Len(e.vars) : e.vars[i][1] = n]
      dflt(n) == IF n \in DOMAIN EnvNumDefault THEN B8OfInt(EnvNumDefault[n]) ELSE EnvBigDefault[n]
      num(n) == IF n \notin set THEN dflt(n)
                ELSE LET p == ParseU64(at(n)[3]) IN
                     IF p.ok /\ (n = "CASCETTE_MAX_RETRIES" => FitsU32(p.v)) THEN p.v ELSE dflt(n)
  IN [ok |-> /\ \A n \in DOMAIN EnvNumDefault \cup DOMAIN EnvBigDefault : e.res.f[n] = num(n)
             /\ \A n \in DOMAIN EnvStrDefault : e.res.f[n] = <<IF n \in set THEN at(n)[2] ELSE EnvStrDefault[n]>>,
      devs |-> {}]
=============================================================================
