----------------------------- MODULE Compaction -----------------------------
(***************************************************************************)
(* Property C18: compaction never loses or overwrites live data            *)
(* (cascette-client-storage::storage::compaction, archive_file).           *)
(*                                                                         *)
(* Four parts, (a), (b), (d) at two levels:                                        *)
(*                                                                         *)
(*  (a) extract_compact_segment: a file is a sequence of units, a span is  *)
(*      <<offset, length>> in units.                                       *)
(*      property level: CompactOK(file, spans, outcome)   - the judge      *)
(*      code level:     CInit / CStep  - validate_spans + the copy loop of *)
(*                      CompactionFileMover::compact_in_place, one step    *)
(*                      per buffer-sized chunk (read_exact, then           *)
(*                      write_all)                                         *)
(*  (b) plan_archive_merge: a segment is <<state, used>>, a move is        *)
(*      <<src, srcOff, dst, dstOff, len>>, segment indices are 0-based as  *)
(*      in the code.                                                       *)
(*      property level: PlanOK(plan, segs, size)          - the judge      *)
(*      code level:     PInit / PStep  - the greedy loop, one step per     *)
(*                      source                                             *)
(*  (c) ArchiveManager::compact: ArchOK(objects)          - the judge      *)
(*  (d) CompactionFileMover::move_data (executes one move of a plan):      *)
(*      MoveOK - the judge;  MInit / MStep - the chunk loop                *)
(*                                                                         *)
(* The code-level operators are *functions on records* so that the same    *)
(* definition is (1) stepped by MC_Compaction (exhaustive checking that the *)
(* code-shaped design satisfies the property-level predicates, program     *)
(* generation) and (2) iterated by T_Compaction (informational: does the   *)
(* real code agree with the code-shaped model).  The verdict on real       *)
(* executions uses the property-level predicates only.                     *)
(*                                                                         *)
(* Known defects of the code are switches of the code-level operators      *)
(* (`tie`, `cursorFixed`, `noChain`) - FALSE reproduces the code as found. *)
(***************************************************************************)
EXTENDS Naturals, Integers, Sequences, FiniteSets

CMin(a, b) == IF a < b THEN a ELSE b

\* ===========================================================================
\* (a) property level
\* ===========================================================================
SpOff(s) == s[1]
SpLen(s) == s[2]
SpEnd(s) == s[1] + s[2]

\* two spans have a unit in common
SharesUnit(a, b) == SpLen(a) > 0 /\ SpLen(b) > 0 /\ SpOff(a) < SpEnd(b) /\ SpOff(b) < SpEnd(a)
\* DataSpan::overlaps of the code: additionally true for an empty span strictly inside another span
Touches(a, b)    == SpOff(a) < SpEnd(b) /\ SpOff(b) < SpEnd(a)

Overlapping(sp) == \E i, j \in 1..Len(sp) : i < j /\ SharesUnit(sp[i], sp[j])
\* the statement does not say whether an empty span strictly inside a live span "overlaps" it
Disputed(sp)    == \E i, j \in 1..Len(sp) : i # j /\ Touches(sp[i], sp[j])
InRange(sp, n)  == \A i \in 1..Len(sp) : SpEnd(sp[i]) <= n

LiveSet(sp) == {sp[i] : i \in {j \in 1..Len(sp) : SpLen(sp[j]) > 0}}

RECURSIVE SortByOff(_)
SortByOff(S) ==
  IF S = {} THEN <<>>
  ELSE LET m == CHOOSE x \in S : \A y \in S : SpOff(x) <= SpOff(y)
       IN <<m>> \o SortByOff(S \ {m})

RECURSIVE Gather(_, _)
Gather(file, q) ==
  IF q = <<>> THEN <<>>
  ELSE SubSeq(file, SpOff(Head(q)) + 1, SpEnd(Head(q))) \o Gather(file, Tail(q))

\* the live spans' original units concatenated in offset order
Live(file, sp) == Gather(file, SortByOff(LiveSet(sp)))

(* out = [ok |-> BOOLEAN, saved |-> units reported as saved, file |-> the file afterwards].
   Left open, because the statement leaves it open:
     - an empty span strictly inside a live span (refused, or ignored);
     - the empty span set (file emptied, or nothing done and 0 reported);
     - span sets reaching beyond the end of the file (not "spans of the file"). *)
CompactOK(file, sp, out) ==
  IF ~InRange(sp, Len(file)) THEN TRUE
  ELSE IF Overlapping(sp) THEN ~out.ok /\ out.file = file
  ELSE \/ out.ok /\ out.file = Live(file, sp) /\ out.saved = Len(file) - Len(out.file)
       \/ Disputed(sp) /\ ~out.ok /\ out.file = file
       \/ sp = <<>> /\ out.ok /\ out.file = file /\ out.saved = 0

\* ===========================================================================
\* (a) code level: validate_spans + extract_compact_segment + compact_in_place
\* ===========================================================================
\* slice::sort_by_key(|s| s.offset) is a stable sort on the offset alone (tie = FALSE);
\* tie = TRUE is the corrected order (offset, then length).
SpBefore(a, b, tie) == SpOff(a) < SpOff(b) \/ (tie /\ SpOff(a) = SpOff(b) /\ SpLen(a) < SpLen(b))

RECURSIVE InsertStable(_, _, _)
InsertStable(q, x, tie) ==
  IF q = <<>> THEN <<x>>
  ELSE IF SpBefore(x, Head(q), tie) THEN <<x>> \o q
  ELSE <<Head(q)>> \o InsertStable(Tail(q), x, tie)

RECURSIVE StableSort(_, _)
StableSort(q, tie) ==
  IF q = <<>> THEN <<>>
  ELSE InsertStable(StableSort(SubSeq(q, 1, Len(q) - 1), tie), q[Len(q)], tie)

AdjacentClash(q) == \E k \in 1..(Len(q) - 1) : SpEnd(q[k]) > SpOff(q[k + 1])

CDone(file, ok, saved) ==
  [pc |-> "done", file |-> file, ok |-> ok, saved |-> saved, q |-> <<>>, i |-> 1, wpos |-> 0,
   src |-> 0, dst |-> 0, rem |-> 0]

CInit(file, sp, tie) ==
  IF sp = <<>> THEN CDone(file, TRUE, 0)                    \* `if spans.is_empty() { return Ok(0) }`
  ELSE LET q == StableSort(sp, tie) IN
       IF AdjacentClash(q) THEN CDone(file, FALSE, 0)       \* validate_spans(spans)?
       ELSE [pc |-> "span", file |-> file, ok |-> TRUE, saved |-> 0, q |-> q, i |-> 1, wpos |-> 0,
             src |-> 0, dst |-> 0, rem |-> 0]

\* one step of the loop; `buf` = per-buffer size in units
CStep(m, buf) ==
  CASE m.pc = "span" ->
         IF m.i > Len(m.q)
         THEN LET n     == Len(m.file)
                  saved == IF n > m.wpos THEN n - m.wpos ELSE 0          \* saturating_sub
              IN [m EXCEPT !.pc = "done", !.saved = saved,
                           !.file = IF saved > 0 THEN SubSeq(m.file, 1, m.wpos) ELSE m.file]
         ELSE LET s == m.q[m.i] IN
              IF SpOff(s) > m.wpos
              THEN [m EXCEPT !.pc = "copy", !.src = SpOff(s), !.dst = m.wpos, !.rem = SpLen(s)]
              ELSE [m EXCEPT !.wpos = m.wpos + SpLen(s), !.i = m.i + 1]
    [] m.pc = "copy" ->
         IF m.rem = 0
         THEN [m EXCEPT !.pc = "span", !.wpos = m.wpos + SpLen(m.q[m.i]), !.i = m.i + 1]
         ELSE LET ch   == CMin(m.rem, buf)
                  data == SubSeq(m.file, m.src + 1, m.src + ch)          \* read_exact into the buffer
                  f2   == [p \in 1..Len(m.file) |->                       \* write_all at dest_pos
                             IF p > m.dst /\ p <= m.dst + ch THEN data[p - m.dst] ELSE m.file[p]]
              IN [m EXCEPT !.file = f2, !.src = m.src + ch, !.dst = m.dst + ch, !.rem = m.rem - ch]
    [] OTHER -> m

RECURSIVE CRun(_, _)
CRun(m, buf) == IF m.pc = "done" THEN m ELSE CRun(CStep(m, buf), buf)
CompactImpl(file, sp, buf, tie) == CRun(CInit(file, sp, tie), buf)

\* ---- the forward-copy safety lemma (an inductive invariant of the loop) ----
\* positions (0-based) the loop has still to read
SpanUnits(s) == SpOff(s)..(SpEnd(s) - 1)
Unread(m) ==
  IF m.pc = "done" THEN {}
  ELSE LET later == UNION {SpanUnits(m.q[k]) : k \in {j \in 1..Len(m.q) : j > m.i}}
       IN IF m.pc = "copy" THEN later \cup (m.src..(m.src + m.rem - 1))
          ELSE later \cup (IF m.i <= Len(m.q) THEN SpanUnits(m.q[m.i]) ELSE {})
\* how many units of the result are already in place
Placed(m) == IF m.pc = "copy" THEN m.dst ELSE m.wpos

ForwardSafe(m, orig) ==
  m.pc # "done" =>
    /\ \A p \in Unread(m) : m.file[p + 1] = orig[p + 1]            \* no unread unit has been overwritten
    /\ \A p \in Unread(m) : p >= Placed(m)                          \* ... and none will be: writes stay below reads
    /\ m.pc = "copy" => m.dst < m.src
    /\ Len(m.file) = Len(orig)
    /\ SubSeq(m.file, 1, Placed(m)) = SubSeq(Gather(orig, m.q), 1, Placed(m))

\* ===========================================================================
\* (b) property level
\* ===========================================================================
MvSrc(m) == m[1]
MvSrcOff(m) == m[2]
MvDst(m) == m[3]
MvDstOff(m) == m[4]
MvLen(m) == m[5]
SegState(s) == s[1]
SegUsed(s)  == s[2]

\* bytes segment number d (0-based) already uses; a segment that does not exist uses none
UsedOf(segs, d) == IF d + 1 \in 1..Len(segs) THEN SegUsed(segs[d + 1]) ELSE 0

NoClobber(plan, segs) ==       \* never directs data onto bytes a destination already uses
  \A k \in 1..Len(plan) : MvLen(plan[k]) > 0 => MvDstOff(plan[k]) >= UsedOf(segs, MvDst(plan[k]))
MovesDisjoint(plan) ==         \* never lets two moves overlap
  \A a, b \in 1..Len(plan) :
    (a < b /\ MvDst(plan[a]) = MvDst(plan[b]) /\ MvLen(plan[a]) > 0 /\ MvLen(plan[b]) > 0)
      => (MvDstOff(plan[a]) + MvLen(plan[a]) <= MvDstOff(plan[b])
          \/ MvDstOff(plan[b]) + MvLen(plan[b]) <= MvDstOff(plan[a]))
NoOverfill(plan, size) ==      \* never fills a segment beyond its size
  \A k \in 1..Len(plan) : MvLen(plan[k]) > 0 => MvDstOff(plan[k]) + MvLen(plan[k]) <= size

PlanOK(plan, segs, size) == NoClobber(plan, segs) /\ MovesDisjoint(plan) /\ NoOverfill(plan, size)

\* Not one of the three conditions of the statement (F18c; reported, never a violation): a segment the plan
\* empties (it is listed in source_segments, "can be deleted") is also the destination of a move.
Chained(plan) == \E a, b \in 1..Len(plan) : MvSrc(plan[a]) = MvDst(plan[b])

\* ===========================================================================
\* (b) code level: plan_archive_merge
\* ===========================================================================
\* utilisation < threshold, threshold = tn/td  (exact; the code compares f64)
RECURSIVE Eligible(_, _, _, _, _)
Eligible(segs, k, tn, td, size) ==
  IF k > Len(segs) THEN <<>>
  ELSE LET s == segs[k]
           rest == Eligible(segs, k + 1, tn, td, size)
       IN IF SegState(s) = "F" /\ SegUsed(s) * td < tn * size /\ SegUsed(s) > 0
          THEN <<<<k - 1, SegUsed(s)>>>> \o rest ELSE rest

\* sources.sort_by_key(|&(_, used)| used): stable
RECURSIVE InsertByUsed(_, _)
InsertByUsed(q, x) ==
  IF q = <<>> THEN <<x>>
  ELSE IF x[2] < Head(q)[2] THEN <<x>> \o q ELSE <<Head(q)>> \o InsertByUsed(Tail(q), x)
RECURSIVE SortByUsed(_)
SortByUsed(q) == IF q = <<>> THEN <<>> ELSE InsertByUsed(SortByUsed(SubSeq(q, 1, Len(q) - 1)), q[Len(q)])

PDone(plan) == [pc |-> "done", plan |-> plan, srcs |-> <<>>, j |-> 1, di |-> 1, du |-> 0, nc |-> TRUE]

\* cursorFixed = FALSE: `let mut dest_used = 0u64;` as the code was (F18a);
\* cursorFixed = TRUE: the cursor starts behind the first destination's own data.
\* noChain = FALSE: a source that does not fit advances the destination to `dest_idx + 1`, which may be a
\*                   segment an earlier move has planned away (F18c);
\* noChain = TRUE:  the source that does not fit stays where it is and becomes the next destination.
PInit(segs, tn, td, size, cursorFixed, noChain) ==
  LET srcs == SortByUsed(Eligible(segs, 1, tn, td, size)) IN
  IF Len(srcs) < 2 THEN PDone(<<>>)
  ELSE [pc |-> "loop", plan |-> <<>>, srcs |-> srcs, j |-> 2, di |-> 1,
        du |-> IF cursorFixed THEN srcs[1][2] ELSE 0, nc |-> noChain]

PStep(m, size) ==
  IF m.pc # "loop" THEN m
  ELSE IF m.j > Len(m.srcs) THEN [m EXCEPT !.pc = "done"]
  ELSE LET s == m.srcs[m.j]
           d == m.srcs[m.di]
       IN IF m.du + s[2] <= size
          THEN [m EXCEPT !.plan = Append(@, <<s[1], 0, d[1], m.du, s[2]>>), !.du = @ + s[2], !.j = @ + 1]
          ELSE IF m.nc THEN [m EXCEPT !.di = m.j, !.du = s[2], !.j = @ + 1]
          ELSE IF m.di + 1 > Len(m.srcs) THEN [m EXCEPT !.pc = "done"]        \* break
          ELSE [m EXCEPT !.di = @ + 1, !.du = m.srcs[m.di + 1][2], !.j = @ + 1]

RECURSIVE PRun(_, _)
PRun(m, size) == IF m.pc = "done" THEN m ELSE PRun(PStep(m, size), size)
PlanImpl(segs, tn, td, size, cursorFixed, noChain) == PRun(PInit(segs, tn, td, size, cursorFixed, noChain), size).plan

\* ===========================================================================
\* (d) CompactionFileMover::move_data - the primitive that carries out one move of a plan:
\*     `len` units of the source file at `so` are copied to the destination file at `dof`
\* ===========================================================================
CMax(a, b) == IF a > b THEN a ELSE b
\* dst with `data` written at offset off (off <= Len(dst): overwrite and/or append, no hole)
Overlay(dst, off, data) ==
  [p \in 1..CMax(Len(dst), off + Len(data)) |-> IF p > off /\ p <= off + Len(data) THEN data[p - off] ELSE dst[p]]

\* property level; out = [ok, src, dst] (the two files afterwards).  Not covered by any statement and never
\* generated: a source range beyond the end of the source, a destination offset beyond the end of the destination.
MoveOK(src, dst, so, dof, len, out) ==
  IF so + len > Len(src) \/ dof > Len(dst) THEN TRUE
  ELSE out.ok /\ out.src = src /\ out.dst = Overlay(dst, dof, SubSeq(src, so + 1, so + len))

\* code level: seek both files once, then read_exact / write_all chunk by chunk
MInit(src, dst, so, dof, len) ==
  [pc |-> IF len = 0 THEN "done" ELSE "copy", src |-> src, dst |-> dst, sp |-> so, dp |-> dof, rem |-> len, ok |-> TRUE]
MStep(m, buf) ==
  IF m.pc # "copy" THEN m
  ELSE LET ch == CMin(m.rem, buf) IN
       [m EXCEPT !.dst = Overlay(m.dst, m.dp, SubSeq(m.src, m.sp + 1, m.sp + ch)),
                 !.sp = m.sp + ch, !.dp = m.dp + ch, !.rem = m.rem - ch,
                 !.pc = IF m.rem - ch = 0 THEN "done" ELSE "copy"]

\* ===========================================================================
\* (c) ArchiveManager::compact: every object that was readable stays readable, unchanged,
\*     through the same manager and from disk; the reclaimed byte count is the shrinkage.
\*     objs: sequence of [want, pre, post, diskpre, diskpost] (content digests or "err")
\* ===========================================================================
ArchOK(objs, res, sizeBefore, sizeAfter) ==
  /\ \A k \in 1..Len(objs) :
       /\ objs[k].pre = objs[k].want => objs[k].post = objs[k].want
       /\ objs[k].diskpre = objs[k].want => objs[k].diskpost = objs[k].want
  /\ res.ok => res.reclaimed = sizeBefore - sizeAfter
=============================================================================
