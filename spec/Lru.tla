------------------------------- MODULE Lru -------------------------------
(***************************************************************************)
(* Property-level specification of the LRU tracker                         *)
(* (cascette-client-storage::lru::LruManager), property C17.               *)
(*                                                                         *)
(* The abstract state is what a user of the tracker can talk about:        *)
(*   order  - the tracked keys, least recently used first                  *)
(*   gen    - current generation, prev - previous generation               *)
(*   files  - the checkpoints on disk: a set of <<generation, order>>      *)
(*                                                                         *)
(* Every operation is written twice from one definition: a *function*      *)
(* XxxR(s, ...) returning [st |-> next abstract state, res |-> result],    *)
(* used by the trace monitor T_Lru to judge recorded executions of the     *)
(* real code, and an *action* Xxx(...) over the variable `s`, used by      *)
(* MC_Lru (exhaustive checking + program generation).                      *)
(***************************************************************************)
EXTENDS Naturals, Sequences, FiniteSets

CONSTANTS Cap       \* capacity of the tracker (number of slots)

Without(q, k) == SelectSeq(q, LAMBDA x: x # k)
InSeq(q, k)   == \E i \in 1..Len(q): q[i] = k
SetOf(q)      == {q[i] : i \in 1..Len(q)}
Min2(a, b)    == IF a < b THEN a ELSE b
DropN(q, n)   == SubSeq(q, Min2(n, Len(q)) + 1, Len(q))
MaxOf(S)      == CHOOSE x \in S : \A y \in S : y <= x

Gens(f)       == {p[1] : p \in f}
FileAt(f, g)  == (CHOOSE p \in f : p[1] = g)[2]

S0 == [order |-> <<>>, gen |-> 1, prev |-> 0, files |-> {}]

\* ---- in-memory operations: textbook LRU of capacity c -------------------
TouchR(s, c, k) ==
  IF c = 0 THEN [st |-> s, res |-> FALSE]
  ELSE LET o1 == Without(s.order, k)
           o2 == IF Len(o1) >= c THEN DropN(o1, Len(o1) - c + 1) ELSE o1
       IN [st |-> [s EXCEPT !.order = Append(o2, k)], res |-> TRUE]

RemoveR(s, k) ==
  [st |-> [s EXCEPT !.order = Without(s.order, k)], res |-> InSeq(s.order, k)]

EvictTailR(s) ==
  [st |-> [s EXCEPT !.order = DropN(s.order, 1)], res |-> s.order # <<>>]

\* evict_to_target(n bytes, 1 byte per entry): n entries, or all of them
EvictNR(s, n) ==
  [st |-> [s EXCEPT !.order = DropN(s.order, n)], res |-> Min2(n, Len(s.order))]

ResetR(s) == [st |-> [s EXCEPT !.order = <<>>], res |-> TRUE]

\* ---- generations and checkpoints ---------------------------------------
BumpR(s) == [st |-> [s EXCEPT !.prev = s.gen, !.gen = s.gen + 1], res |-> TRUE]

\* A checkpoint writes generation `gen` and deletes generation `prev`; the
\* file just written is of course kept (prev = gen can arise after a load).
CheckpointR(s) ==
  LET kept == {p \in s.files : p[1] # s.gen /\ (p[1] # s.prev \/ s.prev = 0)}
  IN [st |-> [s EXCEPT !.files = kept \cup {<<s.gen, s.order>>}], res |-> TRUE]

\* load_from_disk(g): the saved order comes back exactly; a missing file is
\* an error and leaves everything as it was.  A checkpoint written by a tracker
\* of a larger capacity (the directory was reopened with a smaller one) brings
\* back its c most recently used keys; one written with a smaller capacity
\* comes back whole and the tracker keeps its own capacity c.
MostRecent(o, c) == DropN(o, IF Len(o) > c THEN Len(o) - c ELSE 0)
LoadR(s, c, g) ==
  IF g \in Gens(s.files)
  THEN [st |-> [s EXCEPT !.order = MostRecent(FileAt(s.files, g), c), !.gen = g], res |-> TRUE]
  ELSE [st |-> s, res |-> FALSE]

\* run_cycle(limit entries at 1 byte each): load the newest checkpoint if any,
\* evict down to `limit` (0 = unlimited), delete stale generations; the
\* result is the number of tracked entries.
RunCycleR(s, c, limit) ==
  LET s1 == IF s.files = {} THEN s ELSE LoadR(s, c, MaxOf(Gens(s.files))).st
      n  == Len(s1.order)
      o2 == IF limit > 0 /\ n > limit THEN DropN(s1.order, n - limit) ELSE s1.order
      f2 == {p \in s1.files : p[1] \in {s1.gen, s1.prev}}
  IN [st |-> [s1 EXCEPT !.order = o2, !.files = f2], res |-> Len(o2)]

\* a new manager object on the same directory (possibly of another capacity: the
\* operation record then carries the field `cap`, see CapAfter)
ReopenR(s) == [st |-> [S0 EXCEPT !.files = s.files], res |-> TRUE]

\* ---- dispatch on an operation record -------------------------------------
Apply(s, c, e) ==
  CASE e.op = "touch"           -> TouchR(s, c, e.k)
    [] e.op = "remove"          -> RemoveR(s, e.k)
    [] e.op = "evict_tail"      -> EvictTailR(s)
    [] e.op = "evict_to_target" -> EvictNR(s, e.n)
    [] e.op = "reset"           -> ResetR(s)
    [] e.op = "bump"            -> BumpR(s)
    [] e.op = "checkpoint"      -> CheckpointR(s)
    [] e.op = "load"            -> LoadR(s, c, e.g)
    [] e.op = "run_cycle"       -> RunCycleR(s, c, e.limit)
    [] e.op = "reopen"          -> ReopenR(s)
\* the capacity in force after operation e
CapAfter(c, e) == IF e.op = "reopen" /\ "cap" \in DOMAIN e THEN e.cap ELSE c

\* ---- the state machine ----------------------------------------------------
VARIABLES s, res

Init == s = S0 /\ res = TRUE
Do(e) == LET r == Apply(s, Cap, e) IN s' = r.st /\ res' = r.res

\* ---- properties of the design (checked by TLC on MC_Lru) ------------------
BoundedC(c) == Len(s.order) <= c
Bounded   == BoundedC(Cap)
Distinct  == \A i, j \in 1..Len(s.order): i # j => s.order[i] # s.order[j]
FilesFn   == \A p, q \in s.files : p[1] = q[1] => p = q
\* a touch with capacity >= 1 leaves the key present and most recent
TouchMRUC(c, k) == c >= 1 => LET o == TouchR(s, c, k).st.order IN o[Len(o)] = k
TouchMRU(k) == TouchMRUC(Cap, k)
\* capacity is never lost: touching Cap distinct keys in a row keeps them all
\* (stated on the function; an implementation that leaks slots fails it)
NoCapacityLossC(c, ks) ==
  LET RECURSIVE Run(_, _)
      Run(st, i) == IF i > Len(ks) THEN st ELSE Run(TouchR(st, c, ks[i]).st, i + 1)
  IN Len(ks) <= c /\ (\A i, j \in 1..Len(ks): i # j => ks[i] # ks[j])
       => SetOf(ks) \subseteq SetOf(Run(s, 1).order)
NoCapacityLoss(ks) == NoCapacityLossC(Cap, ks)
\* checkpoint then load of the same generation is the identity on the order
SaveLoadIdC(c) == LET x == CheckpointR(s).st IN LoadR(x, c, x.gen).st.order = s.order
SaveLoadId == SaveLoadIdC(Cap)
=============================================================================
