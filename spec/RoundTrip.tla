------------------------------ MODULE RoundTrip ------------------------------
(***************************************************************************)
(* C08 - serialisation is stable.                                          *)
(*                                                                         *)
(* The algebra, for a format with parser  parse : Bytes -> Value + Err     *)
(* and serialiser  build : Value -> Bytes + Err  and the logical content   *)
(* Logical(v) (entries, keys, sizes, flags, tags - no layout):             *)
(*                                                                         *)
(*   for every b with v = parse(b) accepted:                               *)
(*     (E1) b2 = build(v) succeeds                                         *)
(*     (E2) v2 = parse(b2) succeeds                                        *)
(*     (E3) build(v2) succeeds and equals b2           (fixed point)       *)
(*     (E4) Logical(v) = Logical(v2)                                       *)
(*     (E5) b is a real CDN file  =>  b2 = b           (byte exact)        *)
(*   for every builder program p (a sequence of entries with distinct      *)
(*   keys) whose serialisation b = Build(p) the builder produces:          *)
(*     (B1) parse(b) succeeds and Logical(parse(b)) = the entries of p     *)
(*                                                                         *)
(* Abstract model (checked by MC_RoundTrip): bytes are a pair of a layout  *)
(* tag and the entries; a parser forgets the layout, a serialiser writes   *)
(* the canonical layout.  On this model (E1)-(E4) and (B1) are theorems    *)
(* of the ideal design; each known defect of cascette-rs is a named        *)
(* deviation of the abstract serialiser/parser (enabled only when its id   *)
(* is in KnownDeviations) that breaks exactly the equation it breaks in    *)
(* the real code.  The same module gives the trace monitor T_RoundTrip the *)
(* equations over recorded digests (JudgeRt, JudgeBprog) and the guards of *)
(* the findings (DevExplainsRt).                                           *)
(***************************************************************************)
EXTENDS Integers, Sequences, FiniteSets

CONSTANT KnownDeviations

\* ------------------------------------------------------------ the model
\* an entry of a builder program: key id, size class, auxiliary class, tag mask
EntryOf(k, s, a, t) == [k |-> k, s |-> s, a |-> a, t |-> t]
SetOfSeq(q) == {q[i] : i \in 1..Len(q)}
LogicalP(p) == SetOfSeq(p.es)                       \* the model of a program: its set of entries

\* which attribute values a (format, version) can represent (the driver's concretisation)
SDom(fmt, ver) == 0..3
\* CAPACITY FAMILIES.  Every builder has size-dependent layout decisions: a field width chosen from a table
\* size, a page size, a block capacity.  They are boundaries of the builder-program alphabet, so a builder
\* family carries a "capacity" parameter in its version number, and the driver pads the program with filler
\* entries (checked on the way back: each filler must come back with its own content, and all of them) so
\* that the total entry count sits at the boundary:
\*   archive_index 10000 + 100*keysize + 10*offsetsize + c : key sizes {8, 9, 16} x offset sizes {4, 5, 6};
\*        capacity = 4096 \div (keysize + 4 + offsetsize) records per block (a full block has no slack when the
\*        record size divides 4096: 8/4); entry count = capacity-1, capacity, capacity+1, 2*capacity (c = 0..3)
\*   encoding 2..5 : (CKey page KiB, EKey page KiB) = (4,4), (4,8), (8,4), (1,16), ten filler entries per table
\*   tvfs 100+n (flags INCLUDE_CKEY) / 200+n (flags 7, EST) : n filler files; the container-file-table offset
\*        width changes from 1 to 2 bytes when the table passes 255 bytes (12 resp. 11 files)
AidxCapVers == {10000 + 100 * ks + 10 * ow + c : ks \in {8, 9, 16}, ow \in {4, 5, 6}, c \in 0..3}
EncCapVers == 2..5
TvfsCapVers == {100 + n : n \in {10, 11, 12, 30}} \cup {200 + n : n \in {10, 11, 12, 30}}
IsCap(fmt, ver) == (fmt = "archive_index" /\ ver >= 10000) \/ (fmt = "encoding" /\ ver >= 2) \/ (fmt = "tvfs" /\ ver >= 100)
ADom(fmt, ver) ==
  IF fmt \in {"install", "size", "keyring_config"} \/ (IsCap(fmt, ver) /\ fmt # "tvfs") THEN {0} ELSE {0, 1}
TDom(fmt, ver) ==
  CASE fmt = "encoding" /\ ver >= 2 -> {0, 1}
    [] fmt \in {"install", "download", "size", "encoding", "patch_index"} -> 0..3
    [] fmt = "root" -> IF ver = 1 THEN {1} ELSE {0, 1}
    [] fmt = "tvfs" -> {1}      \* the content-key column is a property of the table, not of an entry
    [] fmt \in {"patch_archive", "build_config", "cdn_config", "espec"} -> {0, 1}
    [] OTHER -> {0}
FmtVers ==
  {<<"install", 1>>, <<"download", 1>>, <<"download", 2>>, <<"download", 3>>, <<"size", 1>>, <<"size", 2>>,
   <<"archive_index", 4>>, <<"archive_index", 5>>, <<"archive_index", 6>>, <<"encoding", 1>>,
   <<"root", 1>>, <<"root", 2>>, <<"root", 3>>, <<"root", 4>>, <<"tvfs", 0>>, <<"tvfs", 1>>,
   <<"patch_archive", 0>>, <<"patch_archive", 1>>, <<"patch_archive", 2>>, <<"espec", 0>>, <<"espec", 1>>, <<"patch_index", 1>>, <<"bpsv", 0>>, <<"bpsv", 1>>,
   <<"build_config", 0>>, <<"cdn_config", 0>>, <<"keyring_config", 0>>}
  \cup {<<"archive_index", v>> : v \in AidxCapVers} \cup {<<"encoding", v>> : v \in EncCapVers}
  \cup {<<"tvfs", v>> : v \in TvfsCapVers}

\* abstract bytes: layout tag + entries.  "canon" is what the serialiser writes; "alt" stands for every
\* other accepted arrangement of the same content (unsorted blocks, other field widths, comments ...).
Err == [err |-> TRUE]
IsErr(x) == "err" \in DOMAIN x
BytesOf(lay, fmt, ver, es) == [lay |-> lay, fmt |-> fmt, ver |-> ver, es |-> es]

\* F08a: <ArchiveIndex as CascFormat>::build writes 24-byte records whatever widths the footer states
WidthsLost(b) == b.fmt = "archive_index" /\ b.ver # 4 /\ "F08a" \in KnownDeviations

ParseA(b) ==
  IF b.lay = "garbage" THEN Err
  ELSE [fmt |-> b.fmt, ver |-> b.ver, es |-> b.es]
\* F08c: RootBuilder::build refuses a root without a non-empty block, RootFile::parse accepts it
EmptyRefused(v) == v.fmt = "root" /\ v.es = <<>> /\ "F08c" \in KnownDeviations
BuildA(v) ==
  IF EmptyRefused(v) THEN Err
  ELSE IF WidthsLost(v) THEN BytesOf("garbage", v.fmt, v.ver, v.es)
  ELSE BytesOf("canon", v.fmt, v.ver, v.es)
LogicalA(v) == SetOfSeq(v.es)

\* (E1)-(E4) on the abstract model, for accepted bytes b
Stable(b) ==
  LET v == ParseA(b) IN
  IsErr(v) \/
  LET b2 == BuildA(v)
      v2 == IF IsErr(b2) THEN Err ELSE ParseA(b2)
  IN /\ ~IsErr(b2)
     /\ ~IsErr(v2)
     /\ BuildA(v2) = b2
     /\ LogicalA(v) = LogicalA(v2)
\* (B1)
\* the builders write the widths they were configured with (unlike CascFormat::build of F08a)
BuilderFaithful(p) ==
  LET v == ParseA(BytesOf("canon", p.fmt, p.ver, p.es))
  IN ~IsErr(v) /\ LogicalA(v) = LogicalP(p)

\* ------------------------------------------------ recorded executions (T)
StageOk(e, n) == n \in DOMAIN e /\ e[n].o = "ok"
\* the equations on a recorded round trip r (fields b2, l1, p2, l2, b3 of an "rt" event or of the
\* "rt" record of a builder-program event) whose input has digest dg
E1(r) == StageOk(r, "b2")
E2(r) == StageOk(r, "p2")
E3(r) == StageOk(r, "b3") /\ r.b3.d = r.b2.d
E4(r) == "l1" \in DOMAIN r /\ "l2" \in DOMAIN r /\ r.l1 = r.l2
E5(r, dg) == r.b2.d = dg
Broken(r, dg, exact) ==
  IF ~E1(r) THEN {"E1"}
  ELSE IF ~E2(r) THEN {"E2"}
  ELSE (IF E3(r) THEN {} ELSE {"E3"}) \cup (IF E4(r) THEN {} ELSE {"E4"})
       \cup (IF exact /\ ~E5(r, dg) THEN {"E5"} ELSE {})

\* limb helpers (header fields of the input, 16-bit limbs most significant first)
HasF(e, n) == "h" \in DOMAIN e /\ n \in DOMAIN e.h
Small(h) == h[Len(h)]        \* value of a one- or two-byte field

\* guards of the listed findings: which broken equations of which inputs they explain
DevExplainsRt(fid, e, broken) ==
  CASE fid = "F08a" ->  \* archive index with 5/6-byte offsets or a key length other than 16
         /\ e.fmt = "archive_index" /\ broken \subseteq {"E2", "E3", "E4"} /\ broken # {}
         /\ HasF(e, "offset_bytes") /\ HasF(e, "ekey_length")
         /\ (Small(e.h["offset_bytes"]) # 4 \/ Small(e.h["ekey_length"]) # 16)
    [] fid = "F08b" ->  \* encoding: an ESpec string that is not UTF-8 changes length when decoded lossily
         /\ e.fmt = "encoding" /\ broken = {"E1"} /\ e.b2.o = "err"
         /\ e.b2.msg = "ESpec table size doesn't match header"
         /\ HasF(e, "espec_utf8") /\ Small(e.h["espec_utf8"]) = 0
    [] fid = "F08c" ->  \* root: a file without a non-empty block is accepted, the builder refuses it
         /\ e.fmt = "root" /\ broken = {"E1"} /\ e.b2.o = "err"
         /\ e.b2.msg = "Corrupted block header: No blocks to build"
    [] fid = "F08d" ->  \* product config: HashMap-typed fields are serialised in iteration order
         /\ e.fmt = "product_config" /\ broken = {"E3"} /\ "hm" \in DOMAIN e /\ e.hm >= 2
    [] fid = "F08e" ->  \* TVFS: spans that reference container-table offsets at which the scan finds no entry
         /\ e.fmt = "tvfs" /\ broken \subseteq {"E3", "E4"} /\ broken # {} /\ ~e.exact
         /\ "dang" \in DOMAIN e /\ e.dang
    [] fid = "F08f" ->  \* real CDN files that are not reproduced byte for byte
         /\ broken = {"E5"} /\ e.exact
         /\ e.seed \in {"root/classic_era_v1_2blocks.root", "root/retail_11.2.7_v2_3blocks.root",
                        "tvfs/wow_classic_cbd15a9f67c4d28d.bin", "tvfs/wow_dbd6a1911a9dd025.bin",
                        "patch_archive/aaad2399821319140599c508abd54c9c.bin",
                        "patch_archive/e3fffe04f64007852408b86e44d91e5a.bin",
                        "config/wow_build_config.txt", "config/wow_classic_build_config.txt",
                        "config/wow_classic_era_build_config.txt"}
    [] fid = "F08g" ->  \* real ESpec strings: the one-block shorthand b:SPEC is written back as b:{SPEC}
         /\ e.fmt = "espec" /\ broken = {"E5"} /\ e.exact
    [] fid = "F08h" ->  \* patch archive: the serialiser recomputes the header flags and drops bit 0 (plain data)
         /\ e.fmt = "patch_archive" /\ broken = {"E4"} /\ HasF(e, "flags") /\ Small(e.h["flags"]) % 2 = 1
    [] fid = "F08j" ->  \* archive index accepted with a footer hash shorter than the footer's own size field says
         /\ e.fmt = "archive_index" /\ broken \subseteq {"E2", "E3", "E4"} /\ broken # {}
         /\ HasF(e, "hash_bytes") /\ Small(e.h["hash_bytes"]) # 8
    [] fid = "F08k" ->  \* ESpec zlib parameters with an empty level slot: the writer drops the slot
         /\ e.fmt = "espec" /\ broken \subseteq {"E2", "E3", "E4"} /\ broken # {}
         /\ HasF(e, "emptyslot") /\ Small(e.h["emptyslot"]) = 1
    [] OTHER -> FALSE

RtOrder == <<"F08a", "F08b", "F08c", "F08d", "F08e", "F08f", "F08g", "F08h", "F08i", "F08j", "F08k", "F08l">>
FirstRt(S) == RtOrder[CHOOSE i \in 1..Len(RtOrder) : RtOrder[i] \in S /\ \A j \in 1..(i - 1) : RtOrder[j] \notin S]

\* the same findings on the serialisation of a builder program (event "bprog")
DevExplainsBprog(fid, e, broken) ==
  CASE fid = "F08a" -> e.fmt = "archive_index" /\ e.ver # 4 /\ broken \subseteq {"E2", "E3", "E4"} /\ broken # {}
    [] OTHER -> FALSE
\* F08i: EncodingBuilder with no entry serialises a file with zero pages, which EncodingFile::parse refuses
EmptyEncoding(e) ==
  /\ "F08i" \in KnownDeviations /\ e.fmt = "encoding" /\ e.es = <<>>
  /\ "parse" \in DOMAIN e /\ e.parse.o = "err"
  /\ e.parse.msg = "Invalid ckey_page_count page count: must be > 0, got 0"
=============================================================================
