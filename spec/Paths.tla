------------------------------- MODULE Paths -------------------------------
(***************************************************************************)
(* C20 - no key or endpoint string makes the library touch files outside   *)
(* its directories.                                                        *)
(*                                                                         *)
(* A key string is a sequence of *components* separated by "/", drawn from *)
(* an abstract alphabet; an API turns it into a path with a *template*:    *)
(* a fixed prefix glued to the first component and a fixed suffix glued to *)
(* the last one (typed cache keys: "ribbit:us:" ++ endpoint; the protocol  *)
(* cache: "api/ribbit/" ++ endpoint; the raw disk-cache key: nothing).     *)
(*                                                                         *)
(* Resolve is the lexical meaning the operating system gives to            *)
(* root.join(string): "" and "." are skipped, ".." pops, a leading "/"     *)
(* restarts from the file-system root.  Confined says the result is a      *)
(* proper descendant of the configured root.                               *)
(*                                                                         *)
(* The module is used three ways: MC_Paths enumerates all key strings up   *)
(* to a length (binding G) and TLC evaluates on each the *design-level*    *)
(* question "does this API's template confine this key?"; T_Paths judges   *)
(* what the real code touched (binding T) with the same Confined           *)
(* predicate over the observed paths.                                      *)
(***************************************************************************)
EXTENDS Naturals, Sequences, FiniteSets

\* component classes
Up == "up"        \* ".."
Dot == "dot"      \* "."
Emp == "empty"    \* ""  (two separators in a row, or a trailing separator)
Alphabet == {"up", "dot", "empty", "p", "q", "pt", "pa", "long", "colon"}
\* "p" = "x", "q" = "y", "pt" = "x.tmp", "pa" = "x.a", "long" = 300 letters, "colon" = "a:b"
Plain(c) == c \notin {Up, Dot, Emp}

\* a template: dirs = directories pushed onto the path *before* the key string is pushed (hash subdirectories:
\* an absolute key string then still replaces everything); pre = fixed text in front of the key inside the
\* same string, as components, the last of which is glued to the key's first component when glue = TRUE;
\* suf = whether fixed text is glued to the key's last component
Template(dirs, pre, glue, suf) == [dirs |-> dirs, pre |-> pre, glue |-> glue, suf |-> suf]

\* class of a component after gluing fixed text to it: it is no longer "..", "." or ""
Glued(c) == IF Plain(c) THEN c ELSE "g_" \o c

(* The component sequence the OS sees for template t and key k (k = [abs |-> BOOLEAN, comps |-> Seq]) *)
Effective(t, k) ==
  LET n == Len(k.comps)
      first(c) == IF t.glue THEN Glued(c) ELSE c
      last_(c) == IF t.suf THEN Glued(c) ELSE c
      body == [i \in 1..n |->
                 LET c0 == k.comps[i]
                     c1 == IF i = 1 THEN first(c0) ELSE c0
                 IN IF i = n THEN last_(c1) ELSE c1]
      pre == IF t.glue /\ t.pre # <<>> THEN SubSeq(t.pre, 1, Len(t.pre) - 1) ELSE t.pre
      post == IF "post" \in DOMAIN t THEN t.post ELSE <<>>   \* fixed components after the key (cdn/<path>/<type>/ab/cd/<hash>)
  IN t.dirs \o pre \o body \o post

\* absolute keys only matter when nothing precedes them in the joined string
IsAbsolute(t, k) == k.abs /\ t.pre = <<>> /\ ~t.glue

RECURSIVE Norm(_, _)
Norm(stack, cs) ==
  IF cs = <<>> THEN stack
  ELSE LET c == Head(cs) IN
       IF c \in {Dot, Emp} THEN Norm(stack, Tail(cs))
       ELSE IF c = Up THEN Norm(IF stack = <<>> THEN <<>> ELSE SubSeq(stack, 1, Len(stack) - 1), Tail(cs))
       ELSE Norm(Append(stack, c), Tail(cs))

\* root is a sequence of components below the file-system root
Resolve(root, t, k) == Norm(IF IsAbsolute(t, k) THEN <<>> ELSE root, Effective(t, k))

IsPrefixOf(a, b) == Len(a) <= Len(b) /\ SubSeq(b, 1, Len(a)) = a
Confined(root, p) == Len(p) > Len(root) /\ IsPrefixOf(root, p)

\* design-level question for one API
TemplateConfines(root, t, k) == Confined(root, Resolve(root, t, k))

\* the character whitelist of RibbitTactClient endpoint validation: letters, digits, / _ - .  (and non-empty, <= 1000)
EndpointAdmitted(k) == k.comps # <<>> /\ \A i \in 1..Len(k.comps) : k.comps[i] # "colon"
=============================================================================
