------------------------------- MODULE Shmem -------------------------------
(***************************************************************************)
(* X05 - the shared-memory control block and its multi-process protocol    *)
(* (cascette-client-storage::shmem: control_block.rs, platform_unix.rs,    *)
(* legacy.rs).  Growth of the specification; neighbours: C02 (from_mapped  *)
(* on arbitrary bytes fails closed - not repeated here), C11 (linearizable *)
(* caches - the multi-process analogue is stated here as invariants).      *)
(*                                                                         *)
(* The crate offers primitives, not a protocol driver: a named region      *)
(* (PlatformShmem::open_or_create), a writer lock (LockFile), a private    *)
(* copy of the control block (ShmemControlBlock::from_mapped /             *)
(* to_mapped) with its PID table (PidTracking::add_process /               *)
(* remove_process / recount) and the exclusive-access flag.  The protocol  *)
(* the module documentation describes (Agent.exe's) is their composition:  *)
(*   attach = open; acquire; from_mapped [or new + initialize];            *)
(*            validate_for_bind; add_process; to_mapped; release           *)
(*   detach = acquire; from_mapped; remove_process; to_mapped; release     *)
(* "The caller must ensure exclusive write access (e.g., via lock file)".  *)
(* Every process is a TLA+ process; every step is ONE call that touches    *)
(* shared state (local calls ride along with the preceding one).           *)
(*                                                                         *)
(* PROPERTIES (stated here, derived from the documentation; each with its  *)
(* quantifier).  "Schedules" = all interleavings of the processes' calls   *)
(* and all crash points (SIGKILL between two calls), 2-3 processes.        *)
(*                                                                         *)
(* L1 [schedules] Mutual exclusion: at most one living process holds the   *)
(*    writer lock; acquire returns only while nobody else holds it.        *)
(* L2 [schedules x crash points] The lock is "flock(LOCK_EX|LOCK_NB) with  *)
(*    a retry loop" (LockFile doc, module doc): a lock whose holder died   *)
(*    is free - a waiter or later caller gets it without anybody's help;   *)
(*    recovery never takes the lock from a living holder.                  *)
(* L3 [inputs] The lock file of storage directory d is lock_file_path(d)   *)
(*    ("created next to the shmem file with a .lock suffix").              *)
(* R1 [schedules] Attaching is not destructive: open_or_create of an       *)
(*    existing region ("if the region already exists, it is opened")       *)
(*    leaves every byte another process wrote readable by every attached   *)
(*    process and every existing mapping valid (no SIGBUS), whatever the   *)
(*    sizes the processes ask for (v4 0x2C10, v5 0x3000, v5+PID 0x4000).   *)
(* V1 [schedules] Version negotiation: the version byte of the region      *)
(*    decides; every process that loads the block sees the layout its      *)
(*    writer stored (version, PID table present or not) - never a mixed    *)
(*    interpretation.  Versions outside 4..5 are refused by from_mapped    *)
(*    and validate_for_bind.                                               *)
(* S1 [schedules x crash points] Slot table: whenever no writer is inside  *)
(*    its critical section, total_count = number of occupied slots <=      *)
(*    max_slots, writer_count = those with mode # 2, generation = number   *)
(*    of adds; add takes the first empty slot; no slot is given to two     *)
(*    processes; no living attached process loses its slot; detaching      *)
(*    twice is a no-op the second time ("absent").                         *)
(* S2 [fault sequences] "Recount live processes, clearing dead slots": a   *)
(*    table that is full only because of entries of dead processes does    *)
(*    not refuse a new process.                                            *)
(* S3 [inputs] state = 2 found in the region (a writer died while          *)
(*    modifying): the next add/remove recounts as documented (slot         *)
(*    last_modified_slot cleared, counters recomputed, state 1).           *)
(* E1 [schedules] Exclusive access (v5): while the flag is set,            *)
(*    validate_for_bind refuses (with the "exclusive access" error, or     *)
(*    another reason that applies as well); v4 ignores the flag; a bind    *)
(*    succeeds iff no reason applies.                                      *)
(* T1 [histories of one process] Round trip: to_mapped into a region of    *)
(*    file_size() bytes followed by from_mapped yields the same block      *)
(*    (every public field, file_size(), validate()), for every block the   *)
(*    constructors and mutators can produce; to_mapped changes only what   *)
(*    the block models (bit 0 of dword 0x54, not its other bits).          *)
(* M1 [histories] Legacy manager, connection registry: ids of living       *)
(*    connections are unique, count = number of living connections <=      *)
(*    max_connections, unregister/update succeed exactly for living ids,   *)
(*    cleanup removes exactly the expired ones.                            *)
(* M2 [schedules] Legacy manager, region: managers that are alive at the   *)
(*    same time under one name share one region (what one writes the       *)
(*    other reads); creating or dropping a manager never invalidates the   *)
(*    mapping of another one.                                              *)
(* M3 [inputs] Messages: from_bytes(to_bytes(m)) = m for every message     *)
(*    to_bytes accepts; from_bytes on a message whose inner length field   *)
(*    lies (region content is written by another process) fails closed     *)
(*    without requesting more than the documented 16 MiB payload cap.      *)
(*                                                                         *)
(* There is no seqlock / generation protocol for lock-free readers in the  *)
(* code or its documentation (as_slice: "caller must ensure no other       *)
(* process is concurrently writing"), and no conversion between the legacy *)
(* IPC format and the control block: nothing is stated about either.       *)
(*                                                                         *)
(* One functional core Apply(st, e, dv): the effect and result of event e  *)
(* in state st.  dv = {} is the IDEAL behaviour stated above; dv a set of  *)
(* finding ids selects the code-shaped behaviour of exactly those          *)
(* findings.  MC_Shmem explores schedules with it (binding G), T_Shmem     *)
(* judges recorded executions of the real code with it (binding T).        *)
(***************************************************************************)
EXTENDS Integers, Sequences, FiniteSets, TLC

V4Size  == 11280      \* 0x2C10
V5Size  == 12288      \* 0x3000
V5PSize == 16384      \* 0x4000
V4Hdr   == 336        \* 0x150
PtOff   == 340        \* 0x154
PtHdr   == 28
ExtHdr  == 600        \* 0x258
Fmt     == 10936      \* 0x2AB8
Page    == 4096
MaxPayload == 16777216
EaOff   == 336
StOff   == 340
LmsOff  == 352
CellOffs == {8192, 14336}          \* probe bytes: page 2 (inside every layout), page 3 (v5+PID layout only)
Clamp   == 1000000000

Pages(n)  == (n + Page - 1) \div Page
MaxI(a, b) == IF a < b THEN b ELSE a
MinI(a, b) == IF a < b THEN a ELSE b
Sat1(a)   == IF a > 0 THEN a - 1 ELSE 0
SlotsIn(maplen) == IF maplen < PtOff + PtHdr THEN 0 ELSE (maplen - PtOff - PtHdr) \div 8
MinOf(S)  == CHOOSE x \in S : \A y \in S : x <= y

(* ------------------------------ PID table ------------------------------ *)
\* occ: the non-empty slots, a set of <<index, pid, mode>> (pids are worker numbers 1..N; 0 = empty)
PtZero   == [st |-> 0, wc |-> 0, tc |-> 0, lms |-> 0, gen |-> 0, max |-> 0, len |-> 0, occ |-> {}]
PtNew(n) == [st |-> 1, wc |-> 0, tc |-> 0, lms |-> 0, gen |-> 0, max |-> n, len |-> n, occ |-> {}]
Norm(occ) == {t \in occ : t[2] # 0 \/ t[3] # 0}
Used(pt)  == {t[1] : t \in {u \in pt.occ : u[2] # 0}}
FirstFree(pt) == LET free == {i \in 0..(pt.len - 1) : i \notin Used(pt)} IN IF free = {} THEN 0 - 1 ELSE MinOf(free)

RecountR(pt) ==
  LET occ1 == IF pt.lms < pt.len THEN {t \in pt.occ : t[1] # pt.lms} ELSE pt.occ
      live == {t \in occ1 : t[2] # 0 /\ t[1] < pt.max}
  IN [pt EXCEPT !.occ = occ1, !.tc = Cardinality(live), !.wc = Cardinality({t \in live : t[3] # 2}), !.st = 1]

AddR(pt, pid, mode) ==
  LET p1 == IF pt.st = 2 THEN RecountR(pt) ELSE pt
      s  == FirstFree(p1)
  IN IF p1.tc >= p1.max \/ s < 0 THEN [pt |-> p1, res |-> 0 - 1]
     ELSE [pt |-> [p1 EXCEPT !.occ = Norm({t \in @ : t[1] # s} \cup {<<s, pid, mode>>}), !.lms = s, !.tc = @ + 1,
                            !.wc = IF mode # 2 THEN @ + 1 ELSE @, !.gen = @ + 1, !.st = 1],
           res |-> s]

\* S2 (ideal): the table is full, slot s belongs to a dead process: it is reclaimed for the newcomer
ReclaimR(pt, s, pid, mode) ==
  LET old == CHOOSE t \in pt.occ : t[1] = s IN
  [pt EXCEPT !.occ = Norm((@ \ {old}) \cup {<<s, pid, mode>>}), !.lms = s,
             !.wc = (IF old[3] # 2 THEN Sat1(@) ELSE @) + (IF mode # 2 THEN 1 ELSE 0), !.gen = @ + 1, !.st = 1]

RemoveR(pt, pid) ==
  LET p1  == IF pt.st = 2 THEN RecountR(pt) ELSE pt
      hit == {t \in p1.occ : t[2] = pid}
  IN IF hit = {} THEN [pt |-> p1, res |-> FALSE]
     ELSE LET t == CHOOSE x \in hit : \A y \in hit : x[1] <= y[1] IN
          [pt |-> [p1 EXCEPT !.occ = @ \ {t}, !.tc = Sat1(@), !.wc = IF t[3] # 2 THEN Sat1(@) ELSE @, !.st = 1], res |-> TRUE]

PtConsistent(pt) ==
  /\ pt.tc = Cardinality(Used(pt)) /\ pt.tc <= pt.max
  /\ pt.wc = Cardinality({t \in pt.occ : t[2] # 0 /\ t[3] # 2})
  /\ \A t \in pt.occ : t[1] < pt.max
  /\ \A t, u \in pt.occ : t[1] = u[1] => t = u
  /\ pt.st = 1

(* ---------------------------- control block ---------------------------- *)
NoCb == [some |-> FALSE, ver |-> 0, init |-> FALSE, fmt |-> 0, ds |-> 0, ex |-> FALSE, hp |-> FALSE, pt |-> PtZero]
CreateR(ver, hp, slots, ds) ==
  IF ~hp /\ ver \notin {4, 5} THEN NoCb
  ELSE [some |-> TRUE, ver |-> IF hp THEN 5 ELSE ver, init |-> ds > 0, fmt |-> Fmt, ds |-> ds, ex |-> FALSE, hp |-> hp,
        pt |-> IF hp THEN PtNew(slots) ELSE PtZero]
FileSize(cb) == IF cb.ver = 4 THEN V4Size ELSE IF cb.hp THEN V5PSize ELSE V5Size
IsExcl(cb)   == cb.ver >= 5 /\ cb.ex
Valid(cb)    == cb.init /\ cb.fmt = Fmt /\ cb.ds > 0
\* the reasons validate_for_bind may give; the code's order is version, format, exclusive, initialisation, but which of
\* several applicable reasons is reported is left open
BindErrs(cb) ==
  (IF cb.ver \notin {4, 5} THEN {"version"} ELSE {}) \cup (IF cb.fmt # Fmt THEN {"format"} ELSE {})
  \cup (IF cb.ver >= 5 /\ cb.ex THEN {"exclusive"} ELSE {}) \cup (IF ~cb.init \/ cb.ds = 0 THEN {"init"} ELSE {})
BindR(cb) ==
  IF cb.ver \notin {4, 5} THEN "version" ELSE IF cb.fmt # Fmt THEN "format"
  ELSE IF cb.ver >= 5 /\ cb.ex THEN "exclusive" ELSE IF ~cb.init \/ cb.ds = 0 THEN "init" ELSE "ok"

\* the sequence of the occupied slots in index order, as the driver logs it (at most 48 entries)
SortOcc(occ) == [k \in 1..MinI(48, Cardinality(occ)) |-> CHOOSE t \in occ : Cardinality({x \in occ : x[1] < t[1]}) = k - 1]
Snap(cb) ==
  IF ~cb.some THEN [r |-> "none"]
  ELSE LET pt == IF cb.hp THEN cb.pt ELSE PtZero
           o  == Norm(pt.occ) IN
       [r |-> "some", ver |-> cb.ver, init |-> cb.init, ds |-> cb.ds, ex |-> IsExcl(cb), fsz |-> FileSize(cb),
        valid |-> Valid(cb), hp |-> cb.hp, st |-> pt.st, wc |-> pt.wc, tc |-> pt.tc, lms |-> pt.lms, gen |-> pt.gen,
        max |-> pt.max, len |-> pt.len, mlen |-> pt.len, occ |-> SortOcc(o), occn |-> Cardinality(o)]
\* the block a logged snapshot describes (resynchronisation of a private copy from an observation)
FromSnap(r) ==
  IF r.r # "some" THEN NoCb
  ELSE [some |-> TRUE, ver |-> r.ver, init |-> r.init, fmt |-> Fmt, ds |-> r.ds, ex |-> r.ex, hp |-> r.hp,
        pt |-> [st |-> r.st, wc |-> r.wc, tc |-> r.tc, lms |-> r.lms, gen |-> r.gen, max |-> r.max, len |-> r.len,
                occ |-> {r.occ[i] : i \in 1..Len(r.occ)}]]

(* -------------------------------- region -------------------------------- *)
\* hp is a ghost: the layout the last v5 writer stored; pt are the bytes at 0x154 read as a PID table;
\* wmax: the max_slots the arrays were last written with
RegNone == [exists |-> FALSE, size |-> 0, ver |-> 0, initb |-> 0, fmt |-> 0, ds |-> 0, ea |-> 0, hp |-> FALSE,
            pt |-> PtZero, wmax |-> 0, cells |-> [c \in CellOffs |-> 0]]
RegFresh(sz) == [RegNone EXCEPT !.exists = TRUE, !.size = sz]
Truncate(reg, sz) == [reg EXCEPT !.size = sz, !.cells = [c \in CellOffs |-> IF c >= sz THEN 0 ELSE reg.cells[c]]]

OpenR(reg, sz, dv) ==
  IF ~reg.exists THEN RegFresh(sz)
  ELSE IF sz >= reg.size THEN [reg EXCEPT !.size = sz]
  ELSE IF "FX05c" \in dv THEN Truncate(reg, sz)      \* ftruncate to the caller's size, whatever the region was
  ELSE reg                                            \* R1: an existing region is opened, not cut

LoadR(reg, maplen, dv) ==
  IF ~reg.exists \/ maplen < V4Hdr \/ reg.ver \notin {4, 5} THEN NoCb
  ELSE LET hp == reg.ver = 5 /\ maplen >= ExtHdr /\ (reg.hp \/ "FX05d" \in dv) IN
       [some |-> TRUE, ver |-> reg.ver, init |-> reg.initb # 0, fmt |-> reg.fmt, ds |-> reg.ds,
        ex |-> reg.ver = 5 /\ reg.ea % 2 = 1, hp |-> hp, pt |-> IF hp THEN reg.pt ELSE PtZero]

StoreR(reg, cb, dv) ==
  LET b == IF cb.ex THEN 1 ELSE 0 IN
  [reg EXCEPT !.ver = cb.ver, !.initb = IF cb.init THEN 1 ELSE 0, !.fmt = cb.fmt, !.ds = cb.ds,
              !.ea = IF cb.ver >= 5 THEN (IF "FX05f" \in dv THEN b ELSE (@ - (@ % 2)) + b) ELSE @,
              !.hp = IF cb.ver >= 5 THEN cb.hp ELSE @,
              !.pt = IF cb.ver >= 5 /\ cb.hp THEN cb.pt ELSE @,
              !.wmax = IF cb.ver >= 5 /\ cb.hp THEN cb.pt.max ELSE @]

(* --------------------------- legacy manager world ---------------------- *)
\* nm: name -> object number (0 = no object under that name); ob: objects [sz, m, unk]; ms: the living managers
NoMsg == [kind |-> "none", mid |-> 0, n |-> 0]
Mg0 == [nm |-> [x \in {"a", "b"} |-> 0], ob |-> <<>>, ms |-> {}, used |-> {}]
PsOf(kind, n) ==
  CASE kind = "freq" -> 8 + n [] kind = "fid" -> 12 [] kind = "fresp" -> 28 + n [] kind = "nf" -> 28
    [] kind = "sreq" -> 8 + n [] kind = "sgen" -> 8 [] kind = "sresp" -> 32 + n [] kind = "ka" -> 16 [] OTHER -> n
VarLen(kind, n) == CASE kind = "fid" -> 4 [] kind \in {"nf", "sgen"} -> 0 [] kind = "ka" -> 8 [] OTHER -> n
Digest(kind, mid, n) == [kind |-> kind, mid |-> mid, n |-> VarLen(kind, n), ps |-> PsOf(kind, n)]
MgrOf(mg, p, id) == CHOOSE m \in mg.ms : m.p = p /\ m.id = id
HasMgr(mg, p, id) == \E m \in mg.ms : m.p = p /\ m.id = id
WithMgr(mg, m0, m1) == [mg EXCEPT !.ms = (@ \ {m0}) \cup {m1}]
DropProc(mg, p) == [mg EXCEPT !.ms = {m \in @ : m.p # p}]          \* the process vanished: no destructor ran

(* --------------------------------- state -------------------------------- *)
Proc0 == [alive |-> TRUE, map |-> 0, cb |-> NoCb, wait |-> FALSE]
St0(n) == [reg |-> RegNone, lock |-> 0, pr |-> [p \in 1..n |-> Proc0], mg |-> Mg0]
Dead(st, p) == ~st.pr[p].alive
HolderDead(st) == st.lock # 0 /\ Dead(st, st.lock)
LockFree(st, dv) == st.lock = 0 \/ (HolderDead(st) /\ "FX05a" \notin dv)      \* L2: death releases the lock
Kill(st, p) == [st EXCEPT !.pr[p] = [Proc0 EXCEPT !.alive = FALSE], !.mg = DropProc(@, p)]
R(x) == [r |-> x]
Sigbus(st, p) == [st |-> Kill(st, p), res |-> [r |-> "died", sig |-> 7]]
WithCb(st, p, cb) == [st EXCEPT !.pr[p].cb = cb]
Fld(e, k, d) == IF k \in DOMAIN e THEN e[k] ELSE d
PidOf(e) == IF "lit" \in DOMAIN e THEN (IF e.lit = 0 THEN 0 ELSE 1000 + e.lit) ELSE IF "as" \in DOMAIN e THEN e["as"] ELSE e.p

(* The effect of one event.  Local calls change only the caller's private block. *)
Apply(st, e, dv) ==
  LET p == e.p IN
  IF e.op = "unstick" THEN [st |-> [st EXCEPT !.lock = 0], res |-> R("ok")]     \* an operator removes the lock file
  ELSE IF Dead(st, p) THEN [st |-> st, res |-> R("dead")]
  ELSE LET me == st.pr[p] cb == me.cb IN
  CASE e.op = "open" ->
         [st |-> [st EXCEPT !.reg = OpenR(st.reg, e.sz, dv), !.pr[p].map = e.sz], res |-> R("ok")]
    [] e.op = "close" -> [st |-> [st EXCEPT !.pr[p].map = 0], res |-> R(IF me.map > 0 THEN "ok" ELSE "nomap")]
    [] e.op = "acquire" ->
         IF st.lock = p THEN [st |-> st, res |-> R("have")]
         ELSE IF LockFree(st, dv) THEN [st |-> [st EXCEPT !.lock = p], res |-> R("ok")]
         ELSE [st |-> [st EXCEPT !.pr[p].wait = TRUE], res |-> R("blocked")]
    [] e.op = "granted" ->
         IF ~me.wait THEN [st |-> st, res |-> R("notpending")]
         ELSE IF LockFree(st, dv) THEN [st |-> [st EXCEPT !.lock = p, !.pr[p].wait = FALSE], res |-> R("ok")]
         ELSE [st |-> st, res |-> R("timeout")]
    [] e.op = "release" ->
         IF st.lock = p THEN [st |-> [st EXCEPT !.lock = 0], res |-> R("ok")] ELSE [st |-> st, res |-> R("nolock")]
    [] e.op = "crash" -> [st |-> Kill(st, p), res |-> R("ok")]
    [] e.op = "exit" ->
         \* orderly end: the destructors run (lock released, managers dropped one by one)
         LET mine == {x \in st.mg.ms : x.p = p}
             mg1 == DropProc(st.mg, p)
             \* M2: a name goes when the last living manager of ITS object goes; the code unlinks the name at every drop,
             \* whatever object it denotes by now
             gone(nm) == IF "FX05h" \in dv THEN \E m \in mine : m.name = nm
                         ELSE (\E m \in mine : m.name = nm /\ m.ob = st.mg.nm[nm]) /\ ~\E m \in mg1.ms : m.ob = st.mg.nm[nm]
             mg2 == [mg1 EXCEPT !.nm = [x \in DOMAIN @ |-> IF gone(x) THEN 0 ELSE @[x]]]
         IN [st |-> [st EXCEPT !.pr[p] = [Proc0 EXCEPT !.alive = FALSE], !.lock = IF @ = p THEN 0 ELSE @, !.mg = mg2], res |-> R("ok")]
    [] e.op = "load" ->
         IF me.map = 0 THEN [st |-> st, res |-> R("nomap")]
         ELSE LET c == LoadR(st.reg, me.map, dv) IN [st |-> WithCb(st, p, c), res |-> Snap(c)]
    [] e.op = "snap" -> [st |-> st, res |-> Snap(cb)]
    [] e.op = "create" ->
         LET c == CreateR(Fld(e, "ver", 5), Fld(e, "hp", FALSE), Fld(e, "slots", 0), Fld(e, "ds", 0)) IN
         [st |-> WithCb(st, p, c), res |-> Snap(c)]
    [] e.op = "bind" -> [st |-> st, res |-> R(IF cb.some THEN BindR(cb) ELSE "nocb")]
    [] e.op = "add" ->
         IF ~cb.some THEN [st |-> st, res |-> R("nocb")] ELSE IF ~cb.hp THEN [st |-> st, res |-> R("nopt")]
         ELSE LET x == AddR(cb.pt, PidOf(e), e.mode)
                  p1 == x.pt
                  deadslots == {t[1] : t \in {u \in p1.occ : u[2] \in DOMAIN st.pr /\ u[2] # p /\ Dead(st, u[2])}} IN
              IF x.res >= 0 THEN [st |-> WithCb(st, p, [cb EXCEPT !.pt = x.pt]), res |-> [r |-> "slot", slot |-> x.res]]
              ELSE IF "FX05l" \notin dv /\ deadslots # {} /\ p1.max > 0
                   THEN LET s == MinOf(deadslots) IN
                        [st |-> WithCb(st, p, [cb EXCEPT !.pt = ReclaimR(p1, s, PidOf(e), e.mode)]), res |-> [r |-> "slot", slot |-> s]]
              ELSE [st |-> WithCb(st, p, [cb EXCEPT !.pt = x.pt]), res |-> R("full")]
    [] e.op = "remove" ->
         IF ~cb.some THEN [st |-> st, res |-> R("nocb")] ELSE IF ~cb.hp THEN [st |-> st, res |-> R("nopt")]
         ELSE LET x == RemoveR(cb.pt, PidOf(e)) IN
              [st |-> WithCb(st, p, [cb EXCEPT !.pt = x.pt]), res |-> R(IF x.res THEN "removed" ELSE "absent")]
    [] e.op = "recount" ->
         IF ~cb.some \/ ~cb.hp THEN [st |-> st, res |-> R("nopt")]
         ELSE [st |-> WithCb(st, p, [cb EXCEPT !.pt = RecountR(@)]), res |-> R("ok")]
    [] e.op = "excl" ->
         IF ~cb.some THEN [st |-> st, res |-> R("nocb")]
         ELSE LET c == IF cb.ver >= 5 THEN [cb EXCEPT !.ex = Fld(e, "on", FALSE)] ELSE cb IN
              [st |-> WithCb(st, p, c), res |-> [r |-> "ok", ex |-> IsExcl(c)]]
    [] e.op = "setds" ->
         IF ~cb.some THEN [st |-> st, res |-> R("nocb")] ELSE [st |-> WithCb(st, p, [cb EXCEPT !.ds = e.v]), res |-> R("ok")]
    [] e.op = "store" ->
         IF ~cb.some THEN [st |-> st, res |-> R("nocb")] ELSE IF me.map = 0 THEN [st |-> st, res |-> R("nomap")]
         ELSE [st |-> [st EXCEPT !.reg = StoreR(st.reg, cb, dv)], res |-> R("ok")]
    [] e.op \in {"poke", "peek"} ->
         IF me.map = 0 THEN [st |-> st, res |-> R("nomap")]
         ELSE IF e.off >= me.map THEN [st |-> st, res |-> R("range")]
         ELSE IF e.off \div Page >= Pages(st.reg.size) /\ "FX05c" \in dv THEN Sigbus(st, p)      \* the page is gone (R1 forbids this state)
         ELSE IF e.off \notin CellOffs THEN [st |-> st, res |-> R("ok")]        \* not a probe byte of the model: value not judged
         ELSE IF e.op = "poke" THEN [st |-> [st EXCEPT !.reg.cells[e.off] = e.v], res |-> R("ok")]
         ELSE [st |-> st, res |-> [r |-> "ok", v |-> st.reg.cells[e.off]]]
    [] e.op = "poke32" ->
         IF me.map = 0 THEN [st |-> st, res |-> R("nomap")]
         ELSE [st |-> CASE e.off = EaOff -> [st EXCEPT !.reg.ea = e.v]
                        [] e.off = StOff -> [st EXCEPT !.reg.pt.st = e.v]
                        [] e.off = LmsOff -> [st EXCEPT !.reg.pt.lms = e.v]
                        [] OTHER -> st,
               res |-> R("ok")]
    [] e.op = "peek32" ->
         IF me.map = 0 THEN [st |-> st, res |-> R("nomap")]
         ELSE [st |-> st, res |-> [r |-> "ok", v |-> CASE e.off = EaOff -> st.reg.ea [] e.off = StOff -> st.reg.pt.st
                                                       [] e.off = LmsOff -> st.reg.pt.lms [] OTHER -> 0]]
    [] e.op = "sum" ->
         IF me.map = 0 THEN [st |-> st, res |-> R("nomap")]
         ELSE IF Pages(me.map) > Pages(st.reg.size) /\ "FX05c" \in dv THEN Sigbus(st, p)
         ELSE [st |-> st, res |-> [r |-> "ok", len |-> me.map]]
    [] e.op = "paths" ->
         [st |-> st, res |-> [r |-> "ok", shm |-> "shmem", lock |-> "shmem.lock",
                              acq |-> IF "FX05b" \in dv THEN "shmem..shmem.lock" ELSE "shmem.lock"]]
    (* ---- legacy manager *)
    [] e.op = "mnew" ->
         LET mg == st.mg
             fresh == mg.nm[e.nm] = 0
             o == IF fresh THEN Len(mg.ob) + 1 ELSE mg.nm[e.nm]
             \* an object made under a name used before may be new or left over: content unknown until written
             ob0 == IF fresh THEN Append(mg.ob, [sz |-> e.sz, m |-> NoMsg, unk |-> e.nm \in mg.used]) ELSE mg.ob
             newsz == IF fresh \/ e.sz >= ob0[o].sz \/ "FX05i" \in dv THEN e.sz ELSE ob0[o].sz
             ob1 == [ob0 EXCEPT ![o].sz = newsz]
             m == [p |-> p, id |-> e.id, name |-> e.nm, ob |-> o, sz |-> e.sz, maxc |-> e.maxc, tmo |-> e.tmo, conns |-> {}, nmid |-> 1]
         IN [st |-> [st EXCEPT !.mg = [mg EXCEPT !.nm[e.nm] = o, !.used = @ \cup {e.nm}, !.ob = ob1, !.ms = {x \in @ : ~(x.p = p /\ x.id = e.id)} \cup {m}]], res |-> R("ok")]
    [] e.op = "mdrop" ->
         IF ~HasMgr(st.mg, p, e.id) THEN [st |-> st, res |-> R("nomgr")]
         ELSE LET m == MgrOf(st.mg, p, e.id)
                  rest == st.mg.ms \ {m}
                  \* M2: the name lives as long as a living manager uses its object; the code unlinks it at every drop
                  unlink == IF "FX05h" \in dv THEN TRUE ELSE st.mg.nm[m.name] = m.ob /\ ~\E x \in rest : x.ob = m.ob
              IN [st |-> [st EXCEPT !.mg.ms = rest, !.mg.nm[m.name] = IF unlink THEN 0 ELSE @], res |-> R("ok")]
    [] e.op = "mwrite" ->
         IF ~HasMgr(st.mg, p, e.id) THEN [st |-> st, res |-> R("nomgr")]
         ELSE LET m == MgrOf(st.mg, p, e.id)
                  len == 36 + PsOf(e.kind, e.n) IN
              IF len > m.sz THEN [st |-> st, res |-> R("err")]
              ELSE IF Pages(len) > Pages(st.mg.ob[m.ob].sz) /\ "FX05i" \in dv THEN Sigbus(st, p)
              ELSE [st |-> [st EXCEPT !.mg.ob[m.ob].m = [kind |-> e.kind, mid |-> e.mid, n |-> e.n], !.mg.ob[m.ob].unk = FALSE], res |-> [r |-> "ok", len |-> len]]
    [] e.op = "mread" ->
         IF ~HasMgr(st.mg, p, e.id) THEN [st |-> st, res |-> R("nomgr")]
         ELSE LET m == MgrOf(st.mg, p, e.id)
                  c == st.mg.ob[m.ob].m IN
              IF e.sz <= m.sz /\ st.mg.ob[m.ob].unk THEN [st |-> st, res |-> R("any")]
              ELSE IF e.sz > m.sz \/ c.kind = "none" \/ e.sz < 36 + PsOf(c.kind, c.n) THEN [st |-> st, res |-> R("err")]
              ELSE IF Pages(e.sz) > Pages(st.mg.ob[m.ob].sz) /\ "FX05i" \in dv THEN Sigbus(st, p)
              ELSE [st |-> st, res |-> [r |-> "ok", m |-> Digest(c.kind, c.mid, IF c.kind = "raw" THEN e.sz - 36 ELSE c.n)]]
    [] e.op = "reg" ->
         IF ~HasMgr(st.mg, p, e.id) THEN [st |-> st, res |-> R("nomgr")]
         ELSE LET m == MgrOf(st.mg, p, e.id)
                  k == Cardinality(m.conns) IN
              IF k >= m.maxc THEN [st |-> st, res |-> [r |-> "err", count |-> k]]
              ELSE IF k + 1 \in m.conns
                   THEN IF "FX05g" \in dv     \* id = len + 1 names a living connection: it is overwritten
                        THEN [st |-> st, res |-> [r |-> "ok", cid |-> k + 1, count |-> k]]
                        ELSE LET c == MinOf((1..(k + 1)) \ m.conns) IN      \* M1: some id no living connection has
                             [st |-> [st EXCEPT !.mg = WithMgr(@, m, [m EXCEPT !.conns = @ \cup {c}])], res |-> [r |-> "ok", cid |-> c, count |-> k + 1]]
              ELSE [st |-> [st EXCEPT !.mg = WithMgr(@, m, [m EXCEPT !.conns = @ \cup {k + 1}])], res |-> [r |-> "ok", cid |-> k + 1, count |-> k + 1]]
    [] e.op = "unreg" ->
         IF ~HasMgr(st.mg, p, e.id) THEN [st |-> st, res |-> R("nomgr")]
         ELSE LET m == MgrOf(st.mg, p, e.id) IN
              IF e.cid \in m.conns
              THEN [st |-> [st EXCEPT !.mg = WithMgr(@, m, [m EXCEPT !.conns = @ \ {e.cid}])], res |-> [r |-> "ok", count |-> Cardinality(m.conns) - 1]]
              ELSE [st |-> st, res |-> [r |-> "err", count |-> Cardinality(m.conns)]]
    [] e.op = "touch" ->
         IF ~HasMgr(st.mg, p, e.id) THEN [st |-> st, res |-> R("nomgr")]
         ELSE LET m == MgrOf(st.mg, p, e.id) IN
              [st |-> st, res |-> [r |-> IF e.cid \in m.conns THEN "ok" ELSE "err", count |-> Cardinality(m.conns)]]
    [] e.op = "cleanup" ->
         IF ~HasMgr(st.mg, p, e.id) THEN [st |-> st, res |-> R("nomgr")]
         ELSE LET m == MgrOf(st.mg, p, e.id)
                  \* time-outs are far above (>= 1 h) or far below (<= 1 ms with an explicit sleep >= 20 ms) the age
                  allexp == m.tmo <= 1 /\ Fld(e, "sleep_ms", 0) >= 20 IN
              IF allexp THEN [st |-> [st EXCEPT !.mg = WithMgr(@, m, [m EXCEPT !.conns = {}])], res |-> [r |-> "ok", n |-> Cardinality(m.conns), count |-> 0]]
              ELSE [st |-> st, res |-> [r |-> "ok", n |-> 0, count |-> Cardinality(m.conns)]]
    [] e.op = "stats" ->
         IF ~HasMgr(st.mg, p, e.id) THEN [st |-> st, res |-> R("nomgr")]
         ELSE LET m == MgrOf(st.mg, p, e.id) IN
              [st |-> st, res |-> [r |-> "ok", count |-> Cardinality(m.conns), total |-> Cardinality(m.conns), max |-> m.maxc, size |-> m.sz]]
    [] e.op = "nextid" ->
         IF ~HasMgr(st.mg, p, e.id) THEN [st |-> st, res |-> R("nomgr")]
         ELSE LET m == MgrOf(st.mg, p, e.id) IN
              [st |-> [st EXCEPT !.mg = WithMgr(@, m, [m EXCEPT !.nmid = @ + 1])], res |-> [r |-> "ok", v |-> m.nmid]]
    (* ---- messages (pure) *)
    [] e.op = "msg_rt" ->
         LET ps == PsOf(e.kind, e.n) d == Digest(e.kind, e.mid, e.n) IN
         \* M3: what from_bytes refuses (payload above the documented cap) is refused by to_bytes already
         IF ps > MaxPayload THEN (IF "FX05k" \in dv THEN [st |-> st, res |-> [r |-> "decerr", len |-> 36 + ps, a |-> d]]
                                  ELSE [st |-> st, res |-> [r |-> "encerr", a |-> d]])
         ELSE [st |-> st, res |-> [r |-> "ok", len |-> 36 + ps, a |-> d, b |-> d]]
    [] e.op = "msg_parse" ->
         LET have == VarLen(e.kind, e.n) - Fld(e, "cut", 0)
             lenv == Fld(e, "lenv", VarLen(e.kind, e.n)) IN
         [st |-> st, res |-> R(IF lenv <= have /\ have >= 0 THEN "ok" ELSE "err")]
    [] e.op = "sleep" -> [st |-> st, res |-> R("ok")]
    [] OTHER -> [st |-> st, res |-> R("unknown-op")]

(* ------------------------- invariants of the protocol ------------------- *)
\* evaluated by MC_Shmem on every reachable state of the composed protocol
Alive(st) == {p \in DOMAIN st.pr : st.pr[p].alive}
NoFault(st)  == \A p \in Alive(st) : st.pr[p].map > 0 => Pages(st.pr[p].map) <= Pages(st.reg.size)       \* R1
NoStuck(st, dv) == ~\E p \in Alive(st) : st.pr[p].wait /\ HolderDead(st) /\ ~LockFree(st, dv)              \* L2: a waiter nobody will ever wake
TableOK(st)  == (st.reg.exists /\ st.reg.ver = 5 /\ st.reg.hp) => PtConsistent(st.reg.pt)                   \* S1 (to_mapped is one step here)
=============================================================================
