------------------------------- MODULE Pools -------------------------------
(***************************************************************************)
(* X06 - memory pools, zero-copy buffers and streaming helpers of          *)
(* cascette-cache (pool.rs, memory.rs, zerocopy.rs, streaming.rs) and the  *)
(* small pools of cascette-protocol (optimized.rs: ByteBufferPool,         *)
(* get_buffer / return_buffer, PooledBuffer, StringInterner /              *)
(* intern_string, format_cache_key, endpoint_hash).                        *)
(*                                                                         *)
(* The module is a library of pure operators (no variables): reference     *)
(* models Xxx0 / XxxStep(state, event) -> [st, cls] used by the trace      *)
(* monitor T_Pools on recorded executions of the real code and by MC_Pools *)
(* for program enumeration and design-level refutation.  `cls` is a SET of *)
(* classes per event: "ok", a finding id (only if the finding's precise    *)
(* guard holds; usable only when listed in KnownDeviations), or "bad".     *)
(* ZeroCopyCache is a bounded map: its judge is Cache.tla's functional     *)
(* core (C10), which this module EXTENDS; the concurrent part reuses the   *)
(* real-time order of Lin.tla (C11) in T_Pools.                            *)
(*                                                                         *)
(* PROPERTIES (public API level; T_Pools is exactly this strict)           *)
(*                                                                         *)
(* P - buffer pools.  For every pool (NgdpMemoryPool, ThreadLocalPool via  *)
(*   allocate_thread_local/.., SizedMemoryPool, ZeroCopyBufferPool,        *)
(*   ByteBufferPool via its object, the thread-local functions and         *)
(*   PooledBuffer) and every sequential history of get / write / return    *)
(*   (own buffers, buffers that grew while held, foreign buffers of any    *)
(*   capacity) / warm_up / clear calls:                                    *)
(*   P1  no call panics; a buffer obtained for size n is EMPTY (len 0: no  *)
(*       byte of an earlier holder is readable) and has capacity >= n;     *)
(*       a buffer allocated fresh by NgdpMemoryPool (a pool miss) is not   *)
(*       larger than twice max(n, buffer_size(class of n));                *)
(*   P2  no aliasing: whatever is done with other buffers or the pool,     *)
(*       every held buffer keeps exactly the bytes its holder wrote;       *)
(*   P3  accounting.  NgdpMemoryPool: a size class is chosen by            *)
(*       from_size (<=16 KiB, <=256 KiB, <=8 MiB, above) of the request    *)
(*       (allocate) / of the buffer's capacity (deallocate); an allocation *)
(*       is a reuse iff that class holds an idle buffer, else a miss; a    *)
(*       returned buffer is kept iff the class holds fewer than            *)
(*       max_pool_size (64/32/8/2); warm_up returns max/2 (>= 1) buffers   *)
(*       per class; per class and in total: allocations, reuses,           *)
(*       pool_misses, pool_size, max_pool_size (high-water mark) equal the *)
(*       reference counters, sum of requests <= bytes_allocated <= sum of  *)
(*       max(request, capacity handed out), avg = bytes div allocations.   *)
(*       ZeroCopyBufferPool: classes are powers of two (request / capacity *)
(*       rounded up), buffers of capacity 1 KiB..64 MiB are kept, at most  *)
(*       32 per class; allocations = hits + misses = number of get_buffer  *)
(*       calls; a hit iff the class holds a buffer; hit_rate = hits /      *)
(*       allocations.  SizedMemoryPool: per content type allocations =     *)
(*       number of allocate_for_type calls since the last clear, reuses +  *)
(*       misses = allocations, sum of requests <= bytes <= sum of          *)
(*       max(request, typical size, capacity), avg = bytes div             *)
(*       allocations, totals = sums; and two-sided reuse bounds that leave *)
(*       the routing policy open:  (a) conservation - an allocation is     *)
(*       counted a reuse only if a buffer of its size class is idle in the *)
(*       pool (returned or warmed, not handed out again);  (b)             *)
(*       availability - if a buffer handed to type T in class c was        *)
(*       returned while fewer than max_pool_size class-c buffers were      *)
(*       idle, or the pool was warmed, and no class-c allocation and no    *)
(*       clear happened since, the next class-c allocation for T is a      *)
(*       reuse;                                                            *)
(*   P4  returning a foreign buffer (never handed out by the pool, any     *)
(*       capacity including 0) is harmless: P1-P3 continue to hold.        *)
(*       (Returning a buffer twice is impossible: buffers are moved.)      *)
(*                                                                         *)
(* Z - zero-copy views.  For every byte string d, every history of new /   *)
(*   from_bytes_mut / clone / drop / slice / append / reader calls:        *)
(*   Z1  as_slice(), data(), Deref of an entry are d, size() = |d|,        *)
(*       original_size() = the size at construction; append(x) is a new    *)
(*       entry with d ++ x and leaves the original untouched;              *)
(*   Z2  slice(a..b) is Some view of exactly d[a..b) with range() = a..b   *)
(*       iff a <= b <= |d| (incl. empty and full), None otherwise - never  *)
(*       a panic;                                                          *)
(*   Z3  ref_count() of an entry = the number of live entry handles that   *)
(*       share its data (slices may or may not be counted); is_unique()    *)
(*       iff it is the only live handle (again slices counted or not);     *)
(*   Z4  ZeroCopyReader (own methods, io::Read, tokio AsyncRead): for      *)
(*       every sequence of seek / read_exact_bytes / read_remaining / peek *)
(*       / read calls with every count (0, beyond the end, usize::MAX):    *)
(*       the bytes returned are exactly d[pos..pos+k), position/remaining/ *)
(*       is_empty are those of a cursor, out-of-range is an error / None / *)
(*       a short read, never a panic; hence for EVERY chunking the reads   *)
(*       concatenate to d.                                                 *)
(*                                                                         *)
(* C - ZeroCopyCache(max_memory) is a bounded map (Cache.tla, C10): for    *)
(*   every history of put / get / get_slice / get_reader / remove /        *)
(*   contains / clear / compact: a lookup returns the bytes of the latest  *)
(*   put of the key (get_slice: exactly [a,b) of them, get_reader: a       *)
(*   reader over them) or nothing; nothing is not allowed when max_memory  *)
(*   is far above everything put, the key was not removed / cleared /      *)
(*   compacted away and the range is valid; len() and memory_usage() at a  *)
(*   probe equal what is retrievable; memory_usage() <= max_memory after   *)
(*   every call; gets / hits / puts / zero_copy_ops(= hits) equal the      *)
(*   reference counters, hit_rate = hits / gets; compact(ttl) removes      *)
(*   exactly the entries older than ttl (ttl 0 after a pause: all; 1 h:    *)
(*   none); get_highly_referenced_entries(m) lists exactly the cached      *)
(*   entries with 1 + (handles obtained from get and still alive) >= m,    *)
(*   with that count.                                                      *)
(*                                                                         *)
(* S - streaming.  For every configuration (chunk_size >= 1,               *)
(*   max_buffered_chunks, validation on/off), every byte stream and every  *)
(*   way the reader splits it into short reads: process_stream returns     *)
(*   chunks, each non-empty and <= chunk_size, at most                     *)
(*   max(1, max_buffered_chunks) of them, whose concatenation is a prefix  *)
(*   of the stream and the WHOLE stream if fewer than max_buffered_chunks  *)
(*   were returned; reconstruct_content is concatenation; validate_chunks  *)
(*   answers one valid result per chunk; ContentStream / StreamingStats    *)
(*   answer by their documented formulas (decision table).  A chunk_size   *)
(*   of 0 is an error, not a panic and not a silently empty result.        *)
(*                                                                         *)
(* T - strings.  For every sequence of calls: intern (StringInterner and   *)
(*   the global intern_string, also from several threads) returns the      *)
(*   given text and the SAME allocation for equal texts, different ones    *)
(*   for different texts; format_cache_key(p, e) = p ":" e (hence          *)
(*   injective on prefixes without ':', independent of earlier calls);     *)
(*   endpoint_hash(e) = EndpointHashes::get_hash(e) = the DefaultHasher    *)
(*   value of e whether or not e is pre-computed.                          *)
(*                                                                         *)
(* L - concurrency (NgdpMemoryPool, SizedMemoryPool shared by threads):    *)
(*   every history of allocate / deallocate / size_class_stats calls by    *)
(*   several threads is linearizable w.r.t. P3, the pool being two         *)
(*   objects - the buffer queues with pool_size, and the statistics        *)
(*   counters - on which an allocation acts one after the other within its *)
(*   interval; an operation that overlaps another thread's operation may   *)
(*   miss although a buffer is idle and may drop a returned buffer (the    *)
(*   pool is a cache of buffers), but every allocation is counted.  At     *)
(*   quiescence: allocations = number of allocate calls, reuses + misses = *)
(*   allocations, reuses <= buffers returned (conservation, per size       *)
(*   class), max_pool_size >= pool_size, and pool_size is exactly what the *)
(*   pool then hands out (that many reuses, then a miss); held buffers     *)
(*   keep their holder's bytes (P2).                                       *)
(*                                                                         *)
(* B - BackgroundMemoryManager (virtual time, every sequence of start /    *)
(*   shutdown / submit_task / trigger_* calls and clock advances):         *)
(*   is_running() is true from a successful start_optimization() to        *)
(*   shutdown() and false otherwise; start and shutdown are idempotent (a  *)
(*   start after a shutdown may be refused); tasks_executed never          *)
(*   decreases; whatever was handed to a running worker has been executed  *)
(*   once the caller has yielded to it; shutdown() does not wait for the   *)
(*   reschedule delay of a periodic task; a MonitorUsage{interval} task    *)
(*   samples its content type once per interval (one period of slack).     *)
(***************************************************************************)
EXTENDS Cache, Integers

Max2p(a, b) == IF a > b THEN a ELSE b
Min2p(a, b) == IF a < b THEN a ELSE b
HasF(r, f)  == f \in DOMAIN r
Cls(b)      == IF b THEN "ok" ELSE "bad"
OutP(s1, c) == [st |-> s1, cls |-> c]
IsPanicP(r) == HasF(r, "outcome")
RECURSIVE SumSeq(_, _)
SumSeq(q, i) == IF i > Len(q) THEN 0 ELSE q[i] + SumSeq(q, i + 1)
RECURSIVE Flatten(_, _)
Flatten(qq, i) == IF i > Len(qq) THEN <<>> ELSE qq[i] \o Flatten(qq, i + 1)
Take(q, n) == SubSeq(q, 1, Min2p(n, Len(q)))
DropFirst(q) == SubSeq(q, 2, Len(q))
DropLast(q)  == SubSeq(q, 1, Len(q) - 1)
IsPrefix(p, q) == Len(p) <= Len(q) /\ SubSeq(q, 1, Len(p)) = p
\* rate r reported as parts per million (rounded) of num/den, 0 when den = 0; one ppm of rounding slack
PpmOk(ppm, num, den) == IF den = 0 THEN ppm = 0
                        ELSE ppm * den >= num * 1000000 - den /\ ppm * den <= num * 1000000 + den

(***************************************************************************)
(* PART P - buffer pools                                                   *)
(***************************************************************************)
\* what every holder wrote: byte i (0-based) of slot s
Pat(s, i) == (s * 37 + i * 11) % 251
PatSeq(s, from, n) == [j \in 1..n |-> Pat(s, from + j - 1)]
\* a held buffer: [len, d] - d = its first bytes (at most 8 are logged)
Held0 == [len |-> 0, d |-> <<>>]
Filled(s, h, m) == [len |-> h.len + m, d |-> Take(h.d \o PatSeq(s, h.len, m), 8)]
\* P1: what a get must hand out
GrantOk(n, r)  == HasF(r, "cap") /\ HasF(r, "len") /\ r.len = 0 /\ r.cap >= n
\* FX06a: get paths that pop a pooled buffer of capacity c0 < n call clear() and then reserve(n - c0): after clear()
\* the length is 0, so reserve only guarantees capacity >= n - c0 and the buffer is handed out too small.
ShortGrant(n, c0, r) == HasF(r, "cap") /\ HasF(r, "len") /\ r.len = 0 /\ c0 < n /\ r.cap < n /\ r.cap >= c0 /\ r.cap >= n - c0
GrantCls(n, hit, c0, r) ==
  IF IsPanicP(r) THEN "bad" ELSE IF GrantOk(n, r) THEN "ok" ELSE IF hit /\ ShortGrant(n, c0, r) THEN "FX06a" ELSE "bad"
\* P2: the bytes read back from a held buffer
HeldOk(h, r) == HasF(r, "len") /\ HasF(r, "d") /\ r.len = h.len /\ r.d = h.d

\* ---- NGDP size classes (pool.rs) ------------------------------------------
NClassOf(n) == IF n <= 16384 THEN 1 ELSE IF n <= 262144 THEN 2 ELSE IF n <= 8388608 THEN 3 ELSE 4
NBuf(c)     == CASE c = 1 -> 16384 [] c = 2 -> 262144 [] c = 3 -> 8388608 [] OTHER -> 33554432
NMaxPool(c) == CASE c = 1 -> 64 [] c = 2 -> 32 [] c = 3 -> 8 [] OTHER -> 2
NWarm(c)    == Max2p(NMaxPool(c) \div 2, 1)
Four(x)     == <<x, x, x, x>>
\* reference books of one NgdpMemoryPool
N0 == [idle |-> Four(0), hw |-> Four(0), a |-> Four(0), r |-> Four(0), m |-> Four(0), blo |-> Four(0), bhi |-> Four(0)]
NReuse(p, n) == p.idle[NClassOf(n)] > 0
NAllocR(p, n, cap) ==
  LET c == NClassOf(n) hit == p.idle[c] > 0 IN
  [p EXCEPT !.idle[c] = IF hit THEN @ - 1 ELSE @, !.a[c] = @ + 1, !.r[c] = IF hit THEN @ + 1 ELSE @,
            !.m[c] = IF hit THEN @ ELSE @ + 1, !.blo[c] = @ + n, !.bhi[c] = @ + Max2p(n, cap)]
NFreeR(p, cap) ==
  LET c == NClassOf(cap) IN
  IF p.idle[c] < NMaxPool(c) THEN [p EXCEPT !.idle[c] = @ + 1, !.hw[c] = Max2p(@, p.idle[c] + 1)] ELSE p
NWarmR(p) == [p EXCEPT !.idle = [c \in 1..4 |-> Min2p(NMaxPool(c), p.idle[c] + NWarm(c))],
                       !.hw = [c \in 1..4 |-> Max2p(p.hw[c], Min2p(NMaxPool(c), p.idle[c] + NWarm(c)))]]
NClearR(p) == [p EXCEPT !.idle = Four(0)]
\* observed: st = per class <<allocations, bytes, reuses, misses, pool_size, max_pool_size, avg>>, tot = <<allocations, bytes, reuses, misses, avg>>
NClassBooksOk(p, c, o) ==
  /\ o[1] = p.a[c] /\ o[3] = p.r[c] /\ o[4] = p.m[c] /\ o[5] = p.idle[c] /\ o[6] = p.hw[c]
  /\ o[2] >= p.blo[c] /\ o[2] <= p.bhi[c]
  /\ o[7] = IF o[1] = 0 THEN 0 ELSE o[2] \div o[1]
NBooksOk(p, e) ==
  /\ HasF(e, "st") /\ HasF(e, "tot") /\ Len(e.st) = 4
  /\ \A c \in 1..4 : NClassBooksOk(p, c, e.st[c])
  /\ e.tot[1] = SumSeq(p.a, 1) /\ e.tot[3] = SumSeq(p.r, 1) /\ e.tot[4] = SumSeq(p.m, 1)
  /\ e.tot[2] = e.st[1][2] + e.st[2][2] + e.st[3][2] + e.st[4][2]
  /\ e.tot[5] = IF e.tot[1] = 0 THEN 0 ELSE e.tot[2] \div e.tot[1]
FreshOk(n, r) == r.cap <= 2 * Max2p(n, NBuf(NClassOf(n)))

\* ---- bags of pooled capacities (code-shaped order: only the guard of FX06a looks at the capacities) ------
\* ThreadLocalPool (pool.rs): Small and Medium only, FIFO, at most 8 each
TL0 == <<<<>>, <<>>>>
TlHit(b, n)  == NClassOf(n) <= 2 /\ b[NClassOf(n)] # <<>>
TlTop(b, n)  == b[NClassOf(n)][1]
TlAllocR(b, n) == IF TlHit(b, n) THEN [b EXCEPT ![NClassOf(n)] = DropFirst(@)] ELSE b
TlFreeR(b, cap) == LET c == NClassOf(cap) IN IF c <= 2 /\ Len(b[c]) < 8 THEN [b EXCEPT ![c] = Append(@, cap)] ELSE b
\* ByteBufferPool (optimized.rs): < 1 KiB, < 64 KiB, above; LIFO; 32 / 16 / 4 kept; capacity > 1 MiB dropped
BB0 == <<<<>>, <<>>, <<>>>>
BClassOf(n) == IF n < 1024 THEN 1 ELSE IF n < 65536 THEN 2 ELSE 3
BKeep(c)    == CASE c = 1 -> 32 [] c = 2 -> 16 [] OTHER -> 4
BbHit(b, n) == b[BClassOf(n)] # <<>>
BbTop(b, n) == b[BClassOf(n)][Len(b[BClassOf(n)])]
BbGetR(b, n) == IF BbHit(b, n) THEN [b EXCEPT ![BClassOf(n)] = DropLast(@)] ELSE b
BbRetR(b, cap) == LET c == BClassOf(cap) IN
                  IF cap <= 1048576 /\ Len(b[c]) < BKeep(c) THEN [b EXCEPT ![c] = Append(@, cap)] ELSE b
\* ZeroCopyBufferPool (zerocopy.rs): power-of-two classes, LIFO, 1 KiB..64 MiB kept, 32 per class
RECURSIVE Np2From(_, _)
Np2From(p, n) == IF p >= n THEN p ELSE Np2From(2 * p, n)
Np2(n) == Np2From(1, n)
ZP0 == [bags |-> EmptyFn, a |-> 0, h |-> 0, m |-> 0]
ZpBag(z, k) == IF k \in DOMAIN z.bags THEN z.bags[k] ELSE <<>>
ZpHit(z, n) == ZpBag(z, Np2(n)) # <<>>
ZpTop(z, n) == ZpBag(z, Np2(n))[Len(ZpBag(z, Np2(n)))]
ZpGetR(z, n) == LET hit == ZpHit(z, n) IN
  [z EXCEPT !.bags = IF hit THEN FnWith(z.bags, Np2(n), DropLast(ZpBag(z, Np2(n)))) ELSE @,
            !.a = @ + 1, !.h = IF hit THEN @ + 1 ELSE @, !.m = IF hit THEN @ ELSE @ + 1]
ZpRetR(z, cap) ==
  IF cap >= 1024 /\ cap <= 67108864 /\ Len(ZpBag(z, Np2(cap))) < 32
  THEN [z EXCEPT !.bags = FnWith(z.bags, Np2(cap), Append(ZpBag(z, Np2(cap)), cap))] ELSE z
ZpClearR(z) == [z EXCEPT !.bags = EmptyFn]
\* observed: st = <<allocations, hits, misses, hit_rate ppm>>
ZpBooksOk(z, e) == HasF(e, "st") /\ e.st[1] = z.a /\ e.st[2] = z.h /\ e.st[3] = z.m /\ PpmOk(e.st[4], z.h, z.a)

\* ---- SizedMemoryPool (memory.rs) ---------------------------------------------------
CTypes == <<"config", "encoding", "archive", "root", "install", "download", "blte", "generic">>
CTIndex(t) == CHOOSE i \in 1..8 : CTypes[i] = t
Typical(t) == CASE t = "config" -> 16384 [] t = "encoding" -> 16777216 [] t = "archive" -> 8388608 [] t = "root" -> 2097152
                [] t = "install" -> 524288 [] t = "download" -> 262144 [] t = "blte" -> 1048576 [] OTHER -> 65536
\* FX06b: deallocate guesses the content type from the buffer's size class and takes the FIRST type of that class
FirstOfClass(c) == CASE c = 1 -> "config" [] c = 2 -> "download" [] c = 3 -> "archive" [] OTHER -> "encoding"
Eight(x) == [i \in 1..8 |-> x]
SZ0 == [a |-> Eight(0), blo |-> Eight(0), bhi |-> Eight(0), ub |-> Four(0), fresh |-> {}, pst |-> [i \in 1..8 |-> <<0, 0, 0, 0, 0>>]]
SzOpt(t, n) == Max2p(n, Typical(t))
\* observed: st = per type (CTypes order) <<allocations, bytes, reuses, misses, avg>>, tot = <<allocations, bytes, reuses, reuse_rate ppm>>
SzBooksOk(z, e) ==
  /\ HasF(e, "st") /\ HasF(e, "tot") /\ Len(e.st) = 8
  /\ \A i \in 1..8 : LET o == e.st[i] IN
       /\ o[1] = z.a[i] /\ o[3] + o[4] = o[1] /\ o[2] >= z.blo[i] /\ o[2] <= z.bhi[i]
       /\ o[5] = IF o[1] = 0 THEN 0 ELSE o[2] \div o[1]
  /\ e.tot[1] = SumSeq(z.a, 1)
  /\ e.tot[2] = SumSeq([i \in 1..8 |-> e.st[i][2]], 1)
  /\ e.tot[3] = SumSeq([i \in 1..8 |-> e.st[i][3]], 1)
  /\ PpmOk(e.tot[4], e.tot[3], e.tot[1])
\* an allocation for type t (index i), request n, answered with capacity cap; the reuse flag is read off the counters
SzAlloc(z, t, n, e) ==
  LET i    == CTIndex(t)
      c    == NClassOf(SzOpt(t, n))
      z1   == [z EXCEPT !.a[i] = @ + 1, !.blo[i] = @ + n, !.bhi[i] = @ + Max2p(SzOpt(t, n), IF HasF(e.res, "cap") THEN e.res.cap ELSE 0)]
      okst == HasF(e, "st") /\ Len(e.st) = 8 /\ \A j \in 1..8 : j # i => e.st[j] = z.pst[j]
      dr   == IF HasF(e, "st") THEN e.st[i][3] - z.pst[i][3] ELSE 0
      dm   == IF HasF(e, "st") THEN e.st[i][4] - z.pst[i][4] ELSE 0
      one  == okst /\ {dr, dm} = {0, 1}
      re   == dr = 1
      may  == z.ub[c] > 0
      must == <<t, c>> \in z.fresh
      z2   == [z1 EXCEPT !.ub[c] = IF re /\ @ > 0 THEN @ - 1 ELSE @, !.fresh = {p \in @ : p[2] # c},
                         !.pst = IF HasF(e, "st") THEN e.st ELSE @]
  IN OutP(z2, {Cls(one), Cls(SzBooksOk(z1, e)),
               IF re /\ ~may THEN "bad"
               ELSE IF must /\ ~re THEN (IF t # FirstOfClass(c) THEN "FX06b" ELSE "bad") ELSE "ok"})
SzFree(z, t, cap) ==
  LET c == NClassOf(cap) IN
  [z EXCEPT !.fresh = IF z.ub[c] < NMaxPool(c) /\ t # "none" THEN @ \cup {<<t, c>>} ELSE @, !.ub[c] = @ + 1]
SzWarm(z)  == [z EXCEPT !.ub = [c \in 1..4 |-> @[c] + 8 * NWarm(c)],
                        !.fresh = @ \cup {<<CTypes[i], c>> : i \in 1..8, c \in 1..4}]
SzClear(z) == [SZ0 EXCEPT !.pst = SZ0.pst]

(***************************************************************************)
(* PART Z - zero-copy views                                                *)
(***************************************************************************)
SliceValid(d, a, b) == a >= 0 /\ a <= b /\ b <= Len(d)
SliceOf(d, a, b)    == SubSeq(d, a + 1, b)
\* groups: g -> [ents, sls, drops]: live entry handles, live slices, entry handles dropped so far
G0 == [ents |-> 1, sls |-> 0, drops |-> 0]
\* Z3; rc is logged as a number, -1 when above 2^30
RcIdeal(g, rc)  == rc >= g.ents /\ rc <= g.ents + g.sls
\* FX06c: Clone copies the counter handle without incrementing it, Drop decrements it (wrapping below 0)
RcAsIs(g)       == IF 1 - g.drops >= 0 THEN 1 - g.drops ELSE -1
UniqIdeal(g, u) == u = (g.ents = 1) \/ u = (g.ents + g.sls = 1)
RcCls(g, rc)    == IF RcIdeal(g, rc) THEN "ok" ELSE IF rc = RcAsIs(g) THEN "FX06c" ELSE "bad"
\* a cursor over d at position pos; c = -1 stands for usize::MAX
Huge(c)         == c < 0
RdRem(d, pos)   == Len(d) - pos

(***************************************************************************)
(* PART S - streaming                                                      *)
(***************************************************************************)
ChunksOk(cfg, d, ch) ==
  /\ \A i \in 1..Len(ch) : Len(ch[i]) >= 1 /\ Len(ch[i]) <= cfg.chunk
  /\ Len(ch) <= Max2p(1, cfg.maxbuf)
  /\ IsPrefix(Flatten(ch, 1), d)
  /\ (Len(ch) < cfg.maxbuf => Flatten(ch, 1) = d)
CeilDiv(n, c) == (n + c - 1) \div c
=============================================================================
